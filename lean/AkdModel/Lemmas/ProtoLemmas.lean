/-
Helper lemmas for C19 (typed layer: minimised labels, `mapM` over mapped lists).
The varint / stream / parser lemmas are in `ProtoVarint`, `ProtoStream`, `ProtoWire`.
-/
import AkdModel.Proto
import AkdModel.Blob
namespace Akd.Proto


theorem takeWhile_zero_eq_replicate (r : Bytes) :
    r.takeWhile (· = 0) = List.replicate (r.takeWhile (· = 0)).length 0 := by
  induction r with
  | nil => rfl
  | cons b r ih =>
    by_cases hb : b = 0
    · subst hb
      simp only [List.takeWhile_cons, decide_true, if_true, List.length_cons, List.replicate_succ]
      rw [← ih]
    · simp [hb]

theorem minimize_append (v : Bytes) :
    minimize v ++ List.replicate (v.length - (minimize v).length) 0 = v := by
  unfold minimize
  have h1 : v.reverse.takeWhile (· = 0) ++ v.reverse.dropWhile (· = 0) = v.reverse :=
    List.takeWhile_append_dropWhile
  have h2 : (v.reverse.dropWhile (· = 0)).reverse ++ (v.reverse.takeWhile (· = 0)).reverse = v := by
    have := congrArg List.reverse h1
    rwa [List.reverse_append, List.reverse_reverse] at this
  have hlen : (v.reverse.dropWhile (· = 0)).length + (v.reverse.takeWhile (· = 0)).length = v.length := by
    have := congrArg List.length h2
    simpa using this
  rw [takeWhile_zero_eq_replicate v.reverse, List.reverse_replicate] at h2
  conv => rhs; rw [← h2]
  congr 2
  simp only [List.length_reverse]
  omega

theorem minimize_length_le (v : Bytes) : (minimize v).length ≤ v.length := by
  unfold minimize
  simp only [List.length_reverse]
  have := List.dropWhile_sublist (· = (0:UInt8)) (l := v.reverse) |>.length_le
  simpa using this

theorem pad32_minimize (v : Bytes) (h : v.length = 32) : pad32 (minimize v) = v := by
  unfold pad32
  have := minimize_append v
  rw [h] at this
  exact this


/-! ### `mapM` over `map` -/

theorem mapM_map_some {α β γ : Type} (g : α → β) (f : β → Option γ) (h : α → γ) (l : List α)
    (hh : ∀ a ∈ l, f (g a) = some (h a)) : (l.map g).mapM f = some (l.map h) := by
  induction l with
  | nil => rfl
  | cons a l ih =>
    have h1 := hh a (List.mem_cons_self)
    have h2 := ih (fun b hb => hh b (List.mem_cons_of_mem _ hb))
    simp [List.mapM_cons, h1, h2]

theorem mapM_some_id {α β : Type} (f : α → Option β) (h : α → β) (l : List α)
    (hh : ∀ a ∈ l, f a = some (h a)) : l.mapM f = some (l.map h) := by
  have := mapM_map_some (fun a => a) f h l hh
  simpa using this

theorem msgsOf_map {α : Type} (g : α → PMsg) (l : List α) :
    msgsOf (l.map fun a => PVal.msg (g a)) = some (l.map g) := by
  unfold msgsOf
  exact mapM_map_some (fun a => PVal.msg (g a)) _ g l (fun _ _ => rfl)

theorem bytesOf_map (l : List Bytes) : bytesOf (l.map PVal.bytes) = some l := by
  unfold bytesOf
  rw [mapM_map_some PVal.bytes _ id l (fun _ _ => rfl)]
  simp

theorem numsOf_map (l : List Nat) : numsOf (l.map PVal.num) = some l := by
  unfold numsOf
  rw [mapM_map_some PVal.num _ id l (fun _ _ => rfl)]
  simp

end Akd.Proto
