/-
Helper lemmas about the canonical trie on bit strings (order-independence, uniqueness).
-/
import AkdModel.CTrie
namespace Akd.Canon
open BitStr (commonPrefix)

/-! ### `BitStr.commonPrefix` and prefixes -/

theorem commonPrefix_prefix_left : ∀ (a b : BitStr), commonPrefix a b <+: a
  | [], _ => by simp [commonPrefix]
  | _ :: _, [] => by simp [commonPrefix]
  | x :: as, y :: bs => by
    unfold commonPrefix
    split
    · exact List.cons_prefix_cons.2 ⟨rfl, commonPrefix_prefix_left as bs⟩
    · exact List.nil_prefix

theorem commonPrefix_prefix_right : ∀ (a b : BitStr), commonPrefix a b <+: b
  | [], _ => by simp [commonPrefix]
  | _ :: _, [] => by simp [commonPrefix]
  | x :: as, y :: bs => by
    unfold commonPrefix
    split
    · next h => exact List.cons_prefix_cons.2 ⟨h, commonPrefix_prefix_right as bs⟩
    · exact List.nil_prefix

theorem prefix_commonPrefix : ∀ (p a b : BitStr), p <+: a → p <+: b → p <+: commonPrefix a b
  | [], _, _, _, _ => List.nil_prefix
  | z :: p, [], _, h, _ => by simp at h
  | z :: p, _ :: _, [], _, h => by simp at h
  | z :: p, x :: as, y :: bs, h1, h2 => by
    rw [List.cons_prefix_cons] at h1 h2
    obtain ⟨rfl, h1⟩ := h1
    obtain ⟨rfl, h2⟩ := h2
    simp only [commonPrefix, if_true]
    exact List.cons_prefix_cons.2 ⟨rfl, prefix_commonPrefix p as bs h1 h2⟩

/-- the bits after the common prefix differ -/
theorem commonPrefix_next_ne : ∀ (a b : BitStr), (commonPrefix a b).length < a.length →
    (commonPrefix a b).length < b.length →
    a[(commonPrefix a b).length]? ≠ b[(commonPrefix a b).length]?
  | [], _, h, _ => by simp at h
  | _ :: _, [], _, h => by simp at h
  | x :: as, y :: bs, h1, h2 => by
    unfold commonPrefix at h1 h2 ⊢
    split
    · next h =>
      rw [if_pos h] at h1 h2
      simp only [List.length_cons, Nat.add_lt_add_iff_right] at h1 h2
      simpa using commonPrefix_next_ne as bs h1 h2
    · next h => simpa using h


theorem getElem?_of_snoc_prefix {p a : BitStr} {b : Bool} (h : p ++ [b] <+: a) :
    a[p.length]? = some b := by
  obtain ⟨t, rfl⟩ := h
  simp

theorem snoc_prefix_of_getElem? {p a : BitStr} {b : Bool} (h : p <+: a) (hb : a[p.length]? = some b) :
    p ++ [b] <+: a := by
  obtain ⟨t, rfl⟩ := h
  cases t with
  | nil => simp at hb
  | cons c t =>
    simp at hb
    subst hb
    exact ⟨t, by simp⟩

theorem snoc_prefix_incomparable {p a b : BitStr} (ha : p ++ [false] <+: a) (hb : p ++ [true] <+: b) :
    ¬ a <+: b ∧ ¬ b <+: a := by
  constructor
  · intro h
    have h1 := getElem?_of_snoc_prefix (ha.trans h)
    have h2 := getElem?_of_snoc_prefix hb
    simp [h1] at h2
  · intro h
    have h1 := getElem?_of_snoc_prefix (hb.trans h)
    have h2 := getElem?_of_snoc_prefix ha
    simp [h1] at h2

theorem prefix_antisymm {a b : BitStr} (h1 : a <+: b) (h2 : b <+: a) : a = b :=
  h1.eq_of_length_le h2.length_le


theorem prefix_of_snoc_prefix {p a : BitStr} {b : Bool} (h : p ++ [b] <+: a) : p <+: a :=
  (List.prefix_append p [b]).trans h

theorem commonPrefix_eq_left_of_length_ge {a b : BitStr} (h : ¬ (commonPrefix a b).length < a.length) :
    commonPrefix a b = a :=
  (commonPrefix_prefix_left a b).eq_of_length_le (Nat.le_of_not_lt h)

theorem commonPrefix_eq_right_of_length_ge {a b : BitStr} (h : ¬ (commonPrefix a b).length < b.length) :
    commonPrefix a b = b :=
  (commonPrefix_prefix_right a b).eq_of_length_le (Nat.le_of_not_lt h)

/-- neither label is a prefix of (or equal to) the other one -/
def Incomp (a b : Leaf) : Prop := ¬ a.lbl <+: b.lbl ∧ ¬ b.lbl <+: a.lbl

theorem Incomp.symm {a b : Leaf} (h : Incomp a b) : Incomp b a := ⟨h.2, h.1⟩

/-! ### `CTree` -/
namespace Tree
open CTree

theorem leaves_ne_nil : ∀ t : CTree, t.leaves ≠ []
  | leaf _ _ _ => by simp [leaves]
  | node _ l r => by simp [leaves, leaves_ne_nil l]

theorem exists_mem_leaves (t : CTree) : ∃ lf, lf ∈ t.leaves :=
  List.exists_mem_of_ne_nil _ (leaves_ne_nil t)

theorem lbl_prefix : ∀ {t : CTree}, t.WF → ∀ lf ∈ t.leaves, t.lbl <+: lf.lbl
  | leaf _ _ _, _, lf, h => by
    simp [leaves] at h; subst h; exact List.prefix_refl _
  | node q l r, hwf, lf, h => by
    obtain ⟨hl, hr, wl, wr⟩ := hwf
    simp only [leaves, List.mem_append] at h
    rcases h with h | h
    · exact (prefix_of_snoc_prefix hl).trans (lbl_prefix wl lf h)
    · exact (prefix_of_snoc_prefix hr).trans (lbl_prefix wr lf h)

/-- `x` is neither a prefix nor an extension of any leaf label of `t` -/
def FreshFor (x : BitStr) (t : CTree) : Prop := ∀ lf ∈ t.leaves, ¬ x <+: lf.lbl ∧ ¬ lf.lbl <+: x

theorem split_spec (p : BitStr) (a b : CTree) (ha : a.WF) (hb : b.WF) (hpa : p <+: a.lbl)
    (hpb : p <+: b.lbl) (hla : p.length < a.lbl.length) (hlb : p.length < b.lbl.length)
    (hne : a.lbl[p.length]? ≠ b.lbl[p.length]?) :
    (split p a b).WF ∧ (split p a b).lbl = p ∧ (split p a b).leaves.Perm (b.leaves ++ a.leaves) := by
  obtain ⟨ab, hab⟩ : ∃ ab, a.lbl[p.length]? = some ab := ⟨_, List.getElem?_eq_getElem hla⟩
  obtain ⟨bb, hbb⟩ : ∃ bb, b.lbl[p.length]? = some bb := ⟨_, List.getElem?_eq_getElem hlb⟩
  rw [hab, hbb] at hne
  unfold split
  rw [hbb]
  cases bb <;> cases ab <;> simp at hne
  · exact ⟨⟨snoc_prefix_of_getElem? hpb hbb, snoc_prefix_of_getElem? hpa hab, hb, ha⟩, rfl,
      List.Perm.refl _⟩
  · exact ⟨⟨snoc_prefix_of_getElem? hpa hab, snoc_prefix_of_getElem? hpb hbb, ha, hb⟩, rfl,
      List.perm_append_comm⟩

theorem insert1_spec (x : Leaf) : ∀ (t : CTree), t.WF → FreshFor x.lbl t →
    (t.insert1 x).WF ∧ (t.insert1 x).lbl = commonPrefix t.lbl x.lbl ∧
      (t.insert1 x).leaves.Perm (x :: t.leaves)
  | leaf q v e, hwf, hf => by
    have hq := hf ⟨q, v, e⟩ (by simp [leaves])
    simp only at hq
    have h1 : (commonPrefix q x.lbl).length < q.length := by
      apply Classical.byContradiction; intro h
      exact hq.2 (commonPrefix_eq_left_of_length_ge h ▸ commonPrefix_prefix_right q x.lbl)
    have h2 : (commonPrefix q x.lbl).length < x.lbl.length := by
      apply Classical.byContradiction; intro h
      exact hq.1 (commonPrefix_eq_right_of_length_ge h ▸ commonPrefix_prefix_left q x.lbl)
    simp only [insert1, h1, h2, and_self, if_true]
    have := split_spec (commonPrefix q x.lbl) (leaf q v e) (leaf x.lbl x.value x.ep) hwf trivial
      (commonPrefix_prefix_left _ _) (commonPrefix_prefix_right _ _) h1 h2
      (commonPrefix_next_ne _ _ h1 h2)
    exact ⟨this.1, this.2.1, by simpa [leaves] using this.2.2⟩
  | node q l r, hwf, hf => by
    obtain ⟨lf, hlf⟩ := exists_mem_leaves (node q l r)
    have hqlf := lbl_prefix hwf lf hlf
    simp only [lbl] at hqlf
    have hx := hf lf hlf
    have h2 : (commonPrefix q x.lbl).length < x.lbl.length := by
      apply Classical.byContradiction; intro h
      exact hx.1 ((commonPrefix_eq_right_of_length_ge h ▸ commonPrefix_prefix_left q x.lbl).trans hqlf)
    unfold insert1
    by_cases h1 : (commonPrefix q x.lbl).length < q.length
    · simp only [h1, h2, if_true]
      have := split_spec (commonPrefix q x.lbl) (node q l r) (leaf x.lbl x.value x.ep) hwf trivial
        (commonPrefix_prefix_left _ _) (commonPrefix_prefix_right _ _) h1 h2
        (commonPrefix_next_ne _ _ h1 h2)
      exact ⟨this.1, this.2.1, by simpa [leaves] using this.2.2⟩
    · simp only [h1, if_false]
      have hcp := commonPrefix_eq_left_of_length_ge h1
      have hqx : q <+: x.lbl := hcp ▸ commonPrefix_prefix_right q x.lbl
      rw [hcp] at h2
      obtain ⟨hl, hr, wl, wr⟩ := hwf
      obtain ⟨xb, hxb⟩ : ∃ xb, x.lbl[q.length]? = some xb := ⟨_, List.getElem?_eq_getElem h2⟩
      have hqx' := snoc_prefix_of_getElem? hqx hxb
      rw [hxb]
      cases xb
      · have ih := insert1_spec x l wl (fun lf h => hf lf (by simp [leaves, h]))
        refine ⟨⟨?_, hr, ih.1, wr⟩, by simp [lbl, hcp], ?_⟩
        · rw [ih.2.1]; exact prefix_commonPrefix _ _ _ hl hqx'
        · simpa [leaves] using ih.2.2.append_right r.leaves
      · have ih := insert1_spec x r wr (fun lf h => hf lf (by simp [leaves, h]))
        refine ⟨⟨hl, ?_, wl, ih.1⟩, by simp [lbl, hcp], ?_⟩
        · rw [ih.2.1]; exact prefix_commonPrefix _ _ _ hr hqx'
        · simp only [leaves]
          exact (ih.2.2.append_left l.leaves).trans List.perm_middle


theorem pairwise : ∀ {t : CTree}, t.WF → t.leaves.Pairwise Incomp
  | leaf _ _ _, _ => by simp [leaves]
  | node q l r, hwf => by
    obtain ⟨hl, hr, wl, wr⟩ := hwf
    simp only [leaves]
    rw [List.pairwise_append]
    refine ⟨pairwise wl, pairwise wr, fun a ha b hb => ?_⟩
    exact snoc_prefix_incomparable (hl.trans (lbl_prefix wl a ha)) (hr.trans (lbl_prefix wr b hb))

/-- in a well-formed node, the label is the longest common prefix of the leaf labels -/
theorem prefix_node_lbl {q : BitStr} {l r : CTree} (hwf : (node q l r).WF) {p : BitStr}
    (hp : ∀ lf ∈ (node q l r).leaves, p <+: lf.lbl) : p <+: q := by
  obtain ⟨hl, hr, wl, wr⟩ := hwf
  obtain ⟨a, ha⟩ := exists_mem_leaves l
  obtain ⟨b, hb⟩ := exists_mem_leaves r
  have hqa := hl.trans (lbl_prefix wl a ha)
  have hqb := hr.trans (lbl_prefix wr b hb)
  have hpa := hp a (by simp [leaves, ha])
  have hpb := hp b (by simp [leaves, hb])
  rcases Nat.lt_or_ge q.length p.length with h | h
  · exfalso
    have h1 : q ++ [false] <+: p := List.prefix_of_prefix_length_le hqa hpa (by simp; omega)
    have h2 : q ++ [true] <+: p := List.prefix_of_prefix_length_le hqb hpb (by simp; omega)
    have := getElem?_of_snoc_prefix h1
    rw [getElem?_of_snoc_prefix h2] at this
    simp at this
  · exact List.prefix_of_prefix_length_le hpa (prefix_of_snoc_prefix hqa) h

theorem length_leaves_node (q : BitStr) (l r : CTree) : 2 ≤ (node q l r).leaves.length := by
  have := List.length_pos_iff.2 (leaves_ne_nil l)
  have := List.length_pos_iff.2 (leaves_ne_nil r)
  simp [leaves]; omega

theorem filter_leaves_node {q : BitStr} {l r : CTree} (hwf : (node q l r).WF) :
    (node q l r).leaves.filter (fun lf => lf.lbl[q.length]? == some false) = l.leaves ∧
    (node q l r).leaves.filter (fun lf => lf.lbl[q.length]? == some true) = r.leaves := by
  obtain ⟨hl, hr, wl, wr⟩ := hwf
  have h1 : ∀ lf ∈ l.leaves, lf.lbl[q.length]? = some false := fun lf h =>
    getElem?_of_snoc_prefix (hl.trans (lbl_prefix wl lf h))
  have h2 : ∀ lf ∈ r.leaves, lf.lbl[q.length]? = some true := fun lf h =>
    getElem?_of_snoc_prefix (hr.trans (lbl_prefix wr lf h))
  simp only [leaves, List.filter_append]
  constructor
  · rw [List.filter_eq_self.2 (fun lf h => by simp [h1 lf h]),
      List.filter_eq_nil_iff.2 (fun lf h => by simp [h2 lf h])]
    simp
  · rw [List.filter_eq_nil_iff.2 (fun lf h => by simp [h1 lf h]),
      List.filter_eq_self.2 (fun lf h => by simp [h2 lf h])]
    simp

theorem wf_unique : ∀ (t₁ t₂ : CTree), t₁.WF → t₂.WF → t₁.leaves.Perm t₂.leaves → t₁ = t₂
  | leaf q v e, leaf q' v' e', _, _, hp => by
    simp [leaves] at hp
    simp [hp]
  | leaf q v e, node q' l' r', _, _, hp => by
    have := hp.length_eq
    have := length_leaves_node q' l' r'
    simp [leaves] at *; omega
  | node q l r, leaf q' v' e', _, _, hp => by
    have := hp.length_eq
    have := length_leaves_node q l r
    simp [leaves] at *; omega
  | node q l r, node q' l' r', h₁, h₂, hp => by
    have hq : q = q' := by
      apply prefix_antisymm
      · exact prefix_node_lbl h₂ (fun lf h => lbl_prefix h₁ lf (hp.mem_iff.2 h))
      · exact prefix_node_lbl h₁ (fun lf h => lbl_prefix h₂ lf (hp.mem_iff.1 h))
    subst hq
    have f₁ := filter_leaves_node h₁
    have f₂ := filter_leaves_node h₂
    have hl : l = l' := wf_unique l l' h₁.2.2.1 h₂.2.2.1 (by
      rw [← f₁.1, ← f₂.1]; exact hp.filter _)
    have hr : r = r' := wf_unique r r' h₁.2.2.2 h₂.2.2.2 (by
      rw [← f₁.2, ← f₂.2]; exact hp.filter _)
    rw [hl, hr]

end Tree

/-! ### `CRoot` -/
namespace Root
open CRoot

theorem singleton_prefix_iff {b : Bool} {a : BitStr} : [b] <+: a ↔ a.head? = some b := by
  cases a <;> simp [List.cons_prefix_cons, eq_comm]

theorem insert1_spec (t : CRoot) (x : Leaf) (hwf : t.WF) (hne : x.lbl ≠ [])
    (hf : ∀ lf ∈ t.leaves, ¬ x.lbl <+: lf.lbl ∧ ¬ lf.lbl <+: x.lbl) :
    (t.insert1 x).WF ∧ (t.insert1 x).leaves.Perm (x :: t.leaves) := by
  obtain ⟨l, r⟩ := t
  obtain ⟨wl, wr⟩ := hwf
  simp only at wl wr
  unfold insert1
  split
  · next h => exact absurd h hne
  · next xs h =>
    have hx : [false] <+: x.lbl := by simp [h, List.cons_prefix_cons]
    cases l with
    | none =>
      refine ⟨⟨?_, wr⟩, ?_⟩
      · intro a ha; simp only [Option.some.injEq] at ha; subst ha; exact ⟨hx, trivial⟩
      · simp [leaves, CTree.leaves]
    | some a =>
      obtain ⟨hla, wa⟩ := wl a rfl
      have ih := Tree.insert1_spec x a wa (fun lf h => hf lf (by simp [leaves, h]))
      refine ⟨⟨?_, wr⟩, ?_⟩
      · intro a' ha'; simp only [Option.some.injEq] at ha'; subst ha'
        exact ⟨ih.2.1 ▸ prefix_commonPrefix _ _ _ hla hx, ih.1⟩
      · simpa [leaves] using ih.2.2.append_right _
  · next xs h =>
    have hx : [true] <+: x.lbl := by simp [h, List.cons_prefix_cons]
    cases r with
    | none =>
      refine ⟨⟨wl, ?_⟩, ?_⟩
      · intro a ha; simp only [Option.some.injEq] at ha; subst ha; exact ⟨hx, trivial⟩
      · simp only [leaves, Option.map_some, Option.getD_some, Option.map_none, Option.getD_none,
          CTree.leaves, List.append_nil]
        exact List.perm_append_comm
    | some b =>
      obtain ⟨hlb, wb⟩ := wr b rfl
      have ih := Tree.insert1_spec x b wb (fun lf h => hf lf (by simp [leaves, h]))
      refine ⟨⟨wl, ?_⟩, ?_⟩
      · intro a' ha'; simp only [Option.some.injEq] at ha'; subst ha'
        exact ⟨ih.2.1 ▸ prefix_commonPrefix _ _ _ hlb hx, ih.1⟩
      · simp only [leaves, Option.map_some, Option.getD_some]
        exact (ih.2.2.append_left _).trans List.perm_middle

theorem cons_prefix_incomparable {a b : BitStr} (ha : [false] <+: a) (hb : [true] <+: b) :
    ¬ a <+: b ∧ ¬ b <+: a :=
  snoc_prefix_incomparable (p := []) ha hb

theorem pairwise {t : CRoot} (hwf : t.WF) : t.leaves.Pairwise Incomp := by
  obtain ⟨l, r⟩ := t
  obtain ⟨wl, wr⟩ := hwf
  simp only at wl wr
  cases l with
  | none =>
    cases r with
    | none => simp [leaves]
    | some b => simpa [leaves] using Tree.pairwise (wr b rfl).2
  | some a =>
    cases r with
    | none => simpa [leaves] using Tree.pairwise (wl a rfl).2
    | some b =>
      simp only [leaves, Option.map_some, Option.getD_some]
      rw [List.pairwise_append]
      refine ⟨Tree.pairwise (wl a rfl).2, Tree.pairwise (wr b rfl).2, fun x hx y hy => ?_⟩
      exact cons_prefix_incomparable ((wl a rfl).1.trans (Tree.lbl_prefix (wl a rfl).2 x hx))
        ((wr b rfl).1.trans (Tree.lbl_prefix (wr b rfl).2 y hy))

theorem filter_leaves {t : CRoot} (hwf : t.WF) :
    t.leaves.filter (fun lf => lf.lbl.head? == some false) = (t.l.map CTree.leaves).getD [] ∧
    t.leaves.filter (fun lf => lf.lbl.head? == some true) = (t.r.map CTree.leaves).getD [] := by
  obtain ⟨l, r⟩ := t
  obtain ⟨wl, wr⟩ := hwf
  simp only at wl wr
  have h1 : ∀ lf ∈ (l.map CTree.leaves).getD [], lf.lbl.head? = some false := by
    intro lf h
    cases l with
    | none => simp at h
    | some a => exact singleton_prefix_iff.1 ((wl a rfl).1.trans (Tree.lbl_prefix (wl a rfl).2 lf h))
  have h2 : ∀ lf ∈ (r.map CTree.leaves).getD [], lf.lbl.head? = some true := by
    intro lf h
    cases r with
    | none => simp at h
    | some a => exact singleton_prefix_iff.1 ((wr a rfl).1.trans (Tree.lbl_prefix (wr a rfl).2 lf h))
  simp only [leaves, List.filter_append]
  constructor
  · rw [List.filter_eq_self.2 (fun lf h => by simp [h1 lf h]),
      List.filter_eq_nil_iff.2 (fun lf h => by simp [h2 lf h])]
    simp
  · rw [List.filter_eq_nil_iff.2 (fun lf h => by simp [h1 lf h]),
      List.filter_eq_self.2 (fun lf h => by simp [h2 lf h])]
    simp

theorem child_unique {o₁ o₂ : Option CTree} (h₁ : ∀ a, o₁ = some a → a.WF) (h₂ : ∀ a, o₂ = some a → a.WF)
    (hp : ((o₁.map CTree.leaves).getD []).Perm ((o₂.map CTree.leaves).getD [])) : o₁ = o₂ := by
  cases o₁ with
  | none =>
    cases o₂ with
    | none => rfl
    | some b => simp at hp; exact absurd hp (Tree.leaves_ne_nil b)
  | some a =>
    cases o₂ with
    | none => simp at hp; exact absurd hp (Tree.leaves_ne_nil a)
    | some b => rw [Tree.wf_unique a b (h₁ a rfl) (h₂ b rfl) (by simpa using hp)]

theorem wf_unique (t₁ t₂ : CRoot) (h₁ : t₁.WF) (h₂ : t₂.WF) (hp : t₁.leaves.Perm t₂.leaves) : t₁ = t₂ := by
  have f₁ := filter_leaves h₁
  have f₂ := filter_leaves h₂
  have hl : t₁.l = t₂.l := child_unique (fun a h => (h₁.1 a h).2) (fun a h => (h₂.1 a h).2) (by
    rw [← f₁.1, ← f₂.1]; exact hp.filter _)
  have hr : t₁.r = t₂.r := child_unique (fun a h => (h₁.2 a h).2) (fun a h => (h₂.2 a h).2) (by
    rw [← f₁.2, ← f₂.2]; exact hp.filter _)
  cases t₁; cases t₂; simp_all

theorem foldl_insert1_spec : ∀ (xs : List Leaf) (t : CRoot), t.WF →
    (t.leaves ++ xs).Pairwise Incomp → (∀ x ∈ xs, x.lbl ≠ []) →
    (xs.foldl insert1 t).WF ∧ (xs.foldl insert1 t).leaves.Perm (t.leaves ++ xs)
  | [], t, hwf, _, _ => ⟨hwf, by simp⟩
  | x :: xs, t, hwf, hpw, hne => by
    have hx : ∀ lf ∈ t.leaves, Incomp x lf := by
      rw [List.pairwise_append] at hpw
      intro lf h; exact (hpw.2.2 lf h x (by simp)).symm
    have s := insert1_spec t x hwf (hne x (by simp)) hx
    have hperm : ((t.insert1 x).leaves ++ xs).Perm (t.leaves ++ x :: xs) :=
      (s.2.append_right xs).trans List.perm_middle.symm
    have ih := foldl_insert1_spec xs (t.insert1 x) s.1
      ((hperm.pairwise_iff Incomp.symm).2 hpw) (fun y hy => hne y (by simp [hy]))
    exact ⟨ih.1, ih.2.trans hperm⟩

theorem empty_wf : empty.WF := by simp [empty, WF]

theorem ofLeaves_spec (xs : List Leaf) (hpf : xs.Pairwise Incomp) (hne : ∀ x ∈ xs, x.lbl ≠ []) :
    (ofLeaves xs).WF ∧ (ofLeaves xs).leaves.Perm xs := by
  simpa [ofLeaves, empty, leaves] using foldl_insert1_spec xs empty empty_wf (by simpa [empty, leaves] using hpf) hne

end Root

end Akd.Canon
