/-
Helper lemmas for the versioned node records (C13, C11).

Two groups:
* histories: lists sorted by a strictly increasing key (`key := TreeNode.lastEpoch`), the element that
  is "current at `t`" (last one with key `≤ t`);
* the record store: reads after writes, `writeNode` never fails.  (Self-contained twins of the lemmas
  in `Lemmas/InsertStore.lean`, so that the record-level theorems depend on `Rec.lean` only.)
-/
import AkdModel.Rec
namespace Akd.RecL
open Akd

/-! ### histories -/

section Hist
variable {α : Type} (key : α → Nat)

/-- a list with a last element is its `dropLast` followed by that element -/
theorem eq_dropLast_concat {l : List α} {a : α} (h : l.getLast? = some a) : l = l.dropLast ++ [a] := by
  obtain ⟨ys, rfl⟩ := List.getLast?_eq_some_iff.mp h
  rw [List.dropLast_concat]

/-- in a strictly increasing list every element before the last is below the last -/
theorem lt_last {l : List α} {last : α} (hp : l.Pairwise (fun a b => key a < key b))
    (hl : l.getLast? = some last) : ∀ a ∈ l.dropLast, key a < key last := by
  obtain ⟨ys, rfl⟩ := List.getLast?_eq_some_iff.mp hl
  rw [List.dropLast_concat]
  intro a ha
  exact (List.pairwise_append.mp hp).2.2 a ha last (List.mem_singleton.mpr rfl)

theorem pairwise_dropLast {l : List α} (hp : l.Pairwise (fun a b => key a < key b)) :
    l.dropLast.Pairwise (fun a b => key a < key b) := by
  cases h : l.getLast? with
  | none => rw [List.getLast?_eq_none_iff.mp h]; exact List.Pairwise.nil
  | some a =>
    obtain ⟨ys, rfl⟩ := List.getLast?_eq_some_iff.mp h
    rw [List.dropLast_concat]
    exact (List.pairwise_append.mp hp).1

/-- appending an element above the last keeps the list strictly increasing -/
theorem pairwise_concat {l : List α} {last n : α} (hp : l.Pairwise (fun a b => key a < key b))
    (hl : l.getLast? = some last) (hlt : key last < key n) :
    (l ++ [n]).Pairwise (fun a b => key a < key b) := by
  refine List.pairwise_append.mpr ⟨hp, List.pairwise_singleton _ _, ?_⟩
  intro a ha b hb
  rw [List.mem_singleton.mp hb]
  rw [eq_dropLast_concat hl] at ha
  rcases List.mem_append.mp ha with ha | ha
  · exact Nat.lt_trans (lt_last key hp hl a ha) hlt
  · rw [List.mem_singleton.mp ha]; exact hlt

/-- replacing the last element by one of the same key keeps the list strictly increasing -/
theorem pairwise_replaceLast {l : List α} {last n : α} (hp : l.Pairwise (fun a b => key a < key b))
    (hl : l.getLast? = some last) (heq : key n = key last) :
    (l.dropLast ++ [n]).Pairwise (fun a b => key a < key b) := by
  refine List.pairwise_append.mpr ⟨pairwise_dropLast key hp, List.pairwise_singleton _ _, ?_⟩
  intro a ha b hb
  rw [List.mem_singleton.mp hb, heq]
  exact lt_last key hp hl a ha

/-- a reader at or after the newest version sees the newest version -/
theorem current_of_last_le {l : List α} {last : α} {t : Nat}
    (hp : l.Pairwise (fun a b => key a < key b)) (hl : l.getLast? = some last) (ht : key last ≤ t) :
    (l.filter (fun v => key v ≤ t)).getLast? = some last := by
  have hall : l.filter (fun v => key v ≤ t) = l := by
    refine List.filter_eq_self.mpr ?_
    intro a ha
    rw [eq_dropLast_concat hl] at ha
    rcases List.mem_append.mp ha with ha | ha
    · have := lt_last key hp hl a ha
      exact decide_eq_true (by omega)
    · rw [List.mem_singleton.mp ha]; exact decide_eq_true ht
  rw [hall, hl]

/-- a reader between the last two versions sees the one before the newest -/
theorem current_of_prev_le {l : List α} {last q : α} {t : Nat}
    (hp : l.Pairwise (fun a b => key a < key b)) (hl : l.getLast? = some last)
    (hq : l.dropLast.getLast? = some q) (hqt : key q ≤ t) (ht : t < key last) :
    (l.filter (fun v => key v ≤ t)).getLast? = some q := by
  have hd : l.dropLast.filter (fun v => key v ≤ t) = l.dropLast :=
    List.filter_eq_self.mpr (fun a ha => by
      rw [eq_dropLast_concat hq] at ha
      rcases List.mem_append.mp ha with ha | ha
      · have := lt_last key (pairwise_dropLast key hp) hq a ha
        exact decide_eq_true (by omega)
      · rw [List.mem_singleton.mp ha]; exact decide_eq_true hqt)
  have hlast : [last].filter (fun v => key v ≤ t) = [] :=
    List.filter_eq_nil_iff.mpr (fun a ha => by
      rw [List.mem_singleton.mp ha]
      simp only [decide_eq_true_eq]; omega)
  conv => lhs; rw [eq_dropLast_concat hl, List.filter_append, hd, hlast, List.append_nil]
  exact hq

end Hist

/-! ### the record store -/

theorem map_get_set (m : NodeMap) (r : NodeRec) (k : NodeLabel) :
    NodeMap.get? (NodeMap.set m r) k = if k = r.label then some r else NodeMap.get? m k := by
  induction m with
  | nil =>
    simp only [NodeMap.set, NodeMap.get?]
    by_cases h : k = r.label
    · simp [h]
    · have h' : ¬ r.label = k := fun e => h e.symm
      simp [h, h']
  | cons kr rest ih =>
    obtain ⟨k', r'⟩ := kr
    simp only [NodeMap.set]
    by_cases h1 : k' = r.label
    · simp only [h1, if_true, NodeMap.get?]
      by_cases h : k = r.label
      · simp [h]
      · have h' : ¬ r.label = k := fun e => h e.symm
        simp [h, h']
    · simp only [h1, if_false, NodeMap.get?]
      by_cases h2 : k' = k
      · have h : ¬ k = r.label := fun e => h1 (h2.trans e)
        simp [h2, h]
      · simp [h2, ih]

/-- a record written under its own label (`r.label` is the key) is what is read back -/
theorem getRec_setRec (s : NodeStore) (r : NodeRec) (k : NodeLabel) :
    (s.setRec r).getRec k = if k = r.label then some r else s.getRec k := by
  unfold NodeStore.setRec NodeStore.getRec
  cases hs : s.inTxn
  · simp only [Bool.false_eq_true, if_false, map_get_set]
  · simp only [if_true, map_get_set]
    by_cases h : k = r.label
    · simp [h]
    · simp [h]

theorem getRec_setRec_self (s : NodeStore) (r : NodeRec) : (s.setRec r).getRec r.label = some r := by
  rw [getRec_setRec]; simp

theorem getRec_setRec_ne (s : NodeStore) (r : NodeRec) (k : NodeLabel) (h : k ≠ r.label) :
    (s.setRec r).getRec k = s.getRec k := by
  rw [getRec_setRec]; simp [h]

/-- `resolve` fails with `notFound` only -/
theorem resolve_cases (r : NodeRec) (t : Nat) :
    (∃ n, r.resolve t = .ok n) ∨ r.resolve t = .error .notFound := by
  simp only [NodeRec.resolve]
  split
  · cases r.previous with
    | none => exact .inr rfl
    | some p =>
      by_cases hp : p.lastEpoch > t
      · exact .inr (by simp [hp])
      · exact .inl ⟨p, by simp [hp]⟩
  · exact .inl ⟨_, rfl⟩

/-- `writeNode` of a new node stores the node without a previous version -/
theorem writeNode_new (s : NodeStore) (n : TreeNode) :
    s.writeNode n true = .ok (s.setRec ⟨n.label, n, none⟩) := rfl

/-- `writeNode` of an existing node: the previous version is what `resolve` returns one epoch back
(the same epoch at epoch 0), absent if that fails -/
theorem writeNode_old (s : NodeStore) (n : TreeNode) (r : NodeRec) (hr : s.getRec n.label = some r) :
    s.writeNode n false = .ok (s.setRec ⟨n.label, n,
      match r.resolve (if n.lastEpoch > 0 then n.lastEpoch - 1 else n.lastEpoch) with
      | .ok p => some p
      | .error _ => none⟩) := by
  unfold NodeStore.writeNode NodeStore.getNode
  simp only [Bool.false_eq_true, if_false, hr]
  generalize (if n.lastEpoch > 0 then n.lastEpoch - 1 else n.lastEpoch) = tgt
  rcases resolve_cases r tgt with ⟨p, hp⟩ | hp
  · rw [hp]
  · rw [hp]

/-- `writeNode` never fails; it replaces the record under `n.label` by one whose latest version is `n` -/
theorem writeNode_ok (s : NodeStore) (n : TreeNode) (isNew : Bool) :
    ∃ p, s.writeNode n isNew = .ok (s.setRec ⟨n.label, n, p⟩) := by
  cases isNew
  · cases hr : s.getRec n.label with
    | some r => exact ⟨_, writeNode_old s n r hr⟩
    | none =>
      refine ⟨none, ?_⟩
      unfold NodeStore.writeNode NodeStore.getNode
      simp only [Bool.false_eq_true, if_false, hr]
  · exact ⟨none, rfl⟩

end Akd.RecL
