/-
Helper lemmas for C09: the prefix-freeness check of the repaired auditor
(`Auditor.labelsPrefixFree`): sort by (normalised bytes, length), compare neighbours.
-/
import AkdModel.Verify
import AkdModel.Thm.C17
namespace Akd.Aud
open Akd NodeLabel

/-! ### normalised labels -/

theorem getPrefix_self_iff (l : NodeLabel) (h : l.len ≤ 256) : l.getPrefix l.len = l ↔ l.Normalised := by
  by_cases hlt : l.len < 256
  · constructor
    · intro e
      have := getPrefix_normalised l l.len hlt
      rwa [e] at this
    · intro hn
      have h1 : (l.getPrefix l.len).len = l.len := getPrefix_len l l.len hlt
      have h2 : (l.getPrefix l.len).val = l.val := by
        apply val_eq_of_bits256
        rw [bits256_getPrefix l l.len hlt]
        exact hn.symm
      generalize l.getPrefix l.len = g at h1 h2
      cases g; cases l
      simp_all
  · have h256 : l.len = 256 := by omega
    constructor
    · intro _
      unfold Normalised bits
      rw [h256, List.take_of_length_le (by simp [bits256_length])]
      simp
    · intro _
      exact getPrefix_of_ge l l.len (by omega)

theorem bits_len (l : NodeLabel) (h : l.len ≤ 256) : l.bits.length = l.len := by
  rw [bits_length]; omega

/-- a normalised label's 256 bits -/
theorem bits256_of_normalised (l : NodeLabel) (hn : l.Normalised) :
    l.bits256 = l.bits256.take l.len ++ List.replicate (256 - l.len) false := hn

theorem ofBits_nil' : ofBits [] = NodeLabel.root := by decide +kernel

theorem normalised_len0 (l : NodeLabel) (h0 : l.len = 0) (hn : l.Normalised) : l = NodeLabel.root := by
  have h1 := C17.ofBits_bits l (by omega) hn
  have h2 : l.bits = [] := by
    apply List.eq_nil_of_length_eq_zero
    rw [bits_length]; omega
  rw [h2, ofBits_nil'] at h1
  exact h1.symm

/-! ### the sort key -/

theorem toNat_replicate_false (k : Nat) : BitStr.toNat (List.replicate k false) = 0 := by
  induction k with
  | zero => rfl
  | succ k ih => simp [List.replicate_succ, BitStr.toNat, ih]

/-- first component of the sort key -/
def keyN (l : NodeLabel) : Nat := BitStr.toNat (l.getPrefix l.len).bits256

theorem keyLe_iff (a b : NodeLabel) :
    Auditor.keyLe a b = true ↔ keyN a < keyN b ∨ (keyN a = keyN b ∧ a.len ≤ b.len) := by
  unfold Auditor.keyLe keyN
  rw [cmpBytes_val, BitStr.lex_eq_compare _ _ (by simp [bits256_length])]
  rcases Nat.lt_trichotomy (BitStr.toNat (a.getPrefix a.len).bits256)
    (BitStr.toNat (b.getPrefix b.len).bits256) with h | h | h
  · simp [Nat.compare_eq_lt.mpr h, h]
  · simp [h]
  · rw [Nat.compare_eq_gt.mpr h]
    simp only [Bool.false_eq_true, false_iff]
    omega

theorem keyLe_total (a b : NodeLabel) (h : ¬ Auditor.keyLe a b = true) : Auditor.keyLe b a = true := by
  rw [keyLe_iff] at h ⊢; omega

theorem keyLe_trans (a b c : NodeLabel) (h1 : Auditor.keyLe a b = true) (h2 : Auditor.keyLe b c = true) :
    Auditor.keyLe a c = true := by
  rw [keyLe_iff] at h1 h2 ⊢; omega

theorem insertKey_perm (x : NodeLabel) (ys : List NodeLabel) : (Auditor.insertKey x ys).Perm (x :: ys) := by
  induction ys with
  | nil => simp [Auditor.insertKey]
  | cons y ys ih =>
    simp only [Auditor.insertKey]
    split
    · exact List.Perm.refl _
    · exact (List.Perm.cons y ih).trans (List.Perm.swap x y ys)

theorem insertKey_sorted (x : NodeLabel) (ys : List NodeLabel)
    (h : ys.Pairwise (fun a b => Auditor.keyLe a b = true)) :
    (Auditor.insertKey x ys).Pairwise (fun a b => Auditor.keyLe a b = true) := by
  induction ys with
  | nil => simp [Auditor.insertKey]
  | cons y ys ih =>
    rw [List.pairwise_cons] at h
    simp only [Auditor.insertKey]
    split
    · rename_i hle
      rw [List.pairwise_cons]
      refine ⟨fun z hz => ?_, List.pairwise_cons.mpr h⟩
      rcases List.mem_cons.mp hz with rfl | hz'
      · exact hle
      · exact keyLe_trans _ _ _ hle (h.1 z hz')
    · rename_i hle
      rw [List.pairwise_cons]
      refine ⟨fun z hz => ?_, ih h.2⟩
      have := (insertKey_perm x ys).mem_iff.mp hz
      rcases List.mem_cons.mp this with rfl | hz'
      · exact keyLe_total _ _ hle
      · exact h.1 z hz'

theorem sort_spec (ls : List NodeLabel) :
    (ls.foldr Auditor.insertKey []).Pairwise (fun a b => Auditor.keyLe a b = true) ∧
    (ls.foldr Auditor.insertKey []).Perm ls := by
  induction ls with
  | nil => simp
  | cons x xs ih =>
    rw [List.foldr_cons]
    exact ⟨insertKey_sorted x _ ih.1, (insertKey_perm x _).trans (List.Perm.cons x ih.2)⟩

/-! ### the key order on normalised labels and prefixes -/

/-- `keyLe` in terms of the 256 bits, for normalised labels -/
theorem keyLe_norm (a b : NodeLabel) (ha : a.len ≤ 256) (hb : b.len ≤ 256) (na : a.Normalised) (nb : b.Normalised) :
    Auditor.keyLe a b = true ↔
      BitStr.lex a.bits256 b.bits256 = .lt ∨ (a.bits256 = b.bits256 ∧ a.len ≤ b.len) := by
  unfold Auditor.keyLe
  rw [(getPrefix_self_iff a ha).mpr na, (getPrefix_self_iff b hb).mpr nb, cmpBytes_val]
  have hl : a.bits256.length = b.bits256.length := by simp [bits256_length]
  cases h : BitStr.lex a.bits256 b.bits256 with
  | lt => simp
  | eq =>
    have := (BitStr.lex_eq_iff _ _ hl).mp h
    simp [this]
  | gt =>
    have : a.bits256 ≠ b.bits256 := by
      intro e
      rw [(BitStr.lex_eq_iff _ _ hl).mpr e] at h
      cases h
    simp [this]

theorem keyLe_lex_ne_gt (a b : NodeLabel) (ha : a.len ≤ 256) (hb : b.len ≤ 256) (na : a.Normalised)
    (nb : b.Normalised) (h : Auditor.keyLe a b = true) : BitStr.lex a.bits256 b.bits256 ≠ .gt := by
  rcases (keyLe_norm a b ha hb na nb).mp h with h | ⟨h, _⟩
  · rw [h]; simp
  · rw [(BitStr.lex_eq_iff _ _ (by simp [bits256_length])).mpr h]; simp

/-- a label sorted between a label and one of its extensions extends that label too -/
theorem sandwich (a b c : NodeLabel) (ha : a.len ≤ 256) (hb : b.len ≤ 256) (hc : c.len ≤ 256)
    (na : a.Normalised) (nb : b.Normalised) (nc : c.Normalised)
    (hab : Auditor.keyLe a b = true) (hbc : Auditor.keyLe b c = true) (hac : a.bits <+: c.bits) :
    a.bits <+: b.bits := by
  have hla := bits_len a ha
  rw [prefix_bits_iff_take _ _ hc] at hac
  rw [prefix_bits_iff_take _ _ hb]
  rw [hla] at hac ⊢
  have h1 := BitStr.lex_take_ne_gt _ _ a.len (by simp [bits256_length]) (keyLe_lex_ne_gt a b ha hb na nb hab)
  have h2 := BitStr.lex_take_ne_gt _ _ a.len (by simp [bits256_length]) (keyLe_lex_ne_gt b c hb hc nb nc hbc)
  have hA : a.bits256.take a.len = a.bits := rfl
  rw [hac.2] at h2
  rw [hA] at h1
  have hlen : (b.bits256.take a.len).length = a.bits.length := by
    rw [hla]; simp [bits256_length]; omega
  have hmid : b.bits256.take a.len = a.bits := by
    rw [BitStr.lex_eq_compare _ _ hlen.symm, ne_eq, Nat.compare_eq_gt] at h1
    rw [BitStr.lex_eq_compare _ _ hlen, ne_eq, Nat.compare_eq_gt] at h2
    apply (BitStr.lex_eq_iff _ _ hlen).mp
    rw [BitStr.lex_eq_compare _ _ hlen, Nat.compare_eq_eq]
    omega
  refine ⟨?_, hmid⟩
  -- the length
  apply Classical.byContradiction
  intro hlt
  have hlt : b.len < a.len := by omega
  have hB : b.bits256 = a.bits256 := by
    have e1 : b.bits256 = b.bits256.take a.len ++ b.bits256.drop a.len := (List.take_append_drop _ _).symm
    have e2 : b.bits256.drop a.len = List.replicate (256 - a.len) false := by
      rw [bits256_of_normalised b nb, List.drop_append]
      have hl : (b.bits256.take b.len).length = b.len := by simp [bits256_length]; omega
      rw [hl, List.drop_of_length_le (by rw [hl]; omega), List.drop_replicate, List.nil_append]
      congr 1; omega
    rw [e1, e2, hmid, bits256_of_normalised a na]
    rfl
  rcases (keyLe_norm a b ha hb na nb).mp hab with h | ⟨_, h⟩
  · rw [(BitStr.lex_eq_iff _ _ (by simp [bits256_length])).mpr hB.symm] at h
    cases h
  · omega

/-- a label sorted before one of its prefixes is equal to it -/
theorem prefix_of_keyLe (a c : NodeLabel) (ha : a.len ≤ 256) (hc : c.len ≤ 256)
    (na : a.Normalised) (nc : c.Normalised)
    (hac : Auditor.keyLe a c = true) (hca : c.bits <+: a.bits) : a.bits <+: c.bits := by
  have hlc := bits_len c hc
  have hca' := hca
  rw [prefix_bits_iff_take _ _ ha, hlc] at hca'
  obtain ⟨hle, htake⟩ := hca'
  have hC : c.bits256.take c.len = c.bits := rfl
  -- the tail of `a` beyond `c.len` is zero
  have hdrop : a.bits256.drop c.len = List.replicate (256 - c.len) false := by
    have hne := keyLe_lex_ne_gt a c ha hc na nc hac
    have e1 : a.bits256 = c.bits ++ a.bits256.drop c.len := by
      rw [← htake]; exact (List.take_append_drop _ _).symm
    have e2 : c.bits256 = c.bits ++ List.replicate (256 - c.len) false := bits256_of_normalised c nc
    rw [e1, e2, BitStr.lex_append _ _ _ _ rfl, (BitStr.lex_eq_iff _ _ rfl).mpr rfl] at hne
    simp only [Ordering.then] at hne
    have hl : (a.bits256.drop c.len).length = (List.replicate (256 - c.len) false).length := by
      simp [bits256_length]
    apply (BitStr.lex_eq_iff _ _ hl).mp
    rw [BitStr.lex_eq_compare _ _ hl, toNat_replicate_false] at hne ⊢
    rw [ne_eq, Nat.compare_eq_gt] at hne
    rw [Nat.compare_eq_eq]
    omega
  have hAC : a.bits256 = c.bits256 := by
    rw [bits256_of_normalised c nc, hC, ← htake, ← hdrop, List.take_append_drop]
  rcases (keyLe_norm a c ha hc na nc).mp hac with h | ⟨_, h⟩
  · rw [(BitStr.lex_eq_iff _ _ (by simp [bits256_length])).mpr hAC] at h
    cases h
  · have : a.len = c.len := by omega
    have : a.bits = c.bits := by
      unfold bits
      rw [hAC, this]
    rw [this]
    exact List.prefix_refl _

/-! ### neighbours in the sorted list -/

theorem adjacentFree_iff : ∀ (L : List NodeLabel), (∀ l ∈ L, l.len ≤ 256 ∧ l.Normalised) →
    L.Pairwise (fun a b => Auditor.keyLe a b = true) →
    (Auditor.adjacentFree L = true ↔ L.Pairwise (fun a b => ¬ a.bits <+: b.bits ∧ ¬ b.bits <+: a.bits))
  | [], _, _ => by simp [Auditor.adjacentFree]
  | [a], _, _ => by simp [Auditor.adjacentFree]
  | a :: b :: rest, hN, hs => by
    have hNa := hN a (by simp)
    have hNb := hN b (by simp)
    have hN' : ∀ l ∈ b :: rest, l.len ≤ 256 ∧ l.Normalised := fun l hl => hN l (List.mem_cons_of_mem _ hl)
    rw [List.pairwise_cons] at hs
    have ih := adjacentFree_iff (b :: rest) hN' hs.2
    have hpre : a.isPrefixOf b = true ↔ a.bits <+: b.bits := C17.isPrefixOf_iff a b hNa.1 hNb.1
    simp only [Auditor.adjacentFree, Bool.and_eq_true, Bool.not_eq_true', ih]
    constructor
    · rintro ⟨h1, h2⟩
      have hnab : ¬ a.bits <+: b.bits := by
        intro h; rw [hpre.mpr h] at h1; cases h1
      rw [List.pairwise_cons]
      refine ⟨?_, h2⟩
      have claim1 : ∀ c ∈ b :: rest, ¬ a.bits <+: c.bits := by
        intro c hc hac
        have hNc := hN' c hc
        rcases List.mem_cons.mp hc with rfl | hc'
        · exact hnab hac
        · have hbc : Auditor.keyLe b c = true := (List.pairwise_cons.mp hs.2).1 c hc'
          exact hnab (sandwich a b c hNa.1 hNb.1 hNc.1 hNa.2 hNb.2 hNc.2 (hs.1 b (by simp)) hbc hac)
      intro c hc
      have hNc := hN' c hc
      exact ⟨claim1 c hc, fun hca =>
        claim1 c hc (prefix_of_keyLe a c hNa.1 hNc.1 hNa.2 hNc.2 (hs.1 c hc) hca)⟩
    · intro h
      rw [List.pairwise_cons] at h
      refine ⟨?_, h.2⟩
      have := (h.1 b (by simp)).1
      cases hp : a.isPrefixOf b with
      | false => rfl
      | true => exact absurd (hpre.mp hp) this

/-- the check added by the repair accepts exactly the well-formed prefix-free label sets -/
theorem labelsPrefixFree_iff (ls : List NodeLabel) :
    Auditor.labelsPrefixFree ls = true ↔
      (∀ l ∈ ls, l.len ≤ 256 ∧ l.Normalised) ∧
      ls.Pairwise (fun a b => ¬ a.bits <+: b.bits ∧ ¬ b.bits <+: a.bits) := by
  have hall : (ls.all (fun l => decide (l.len ≤ 256) && decide (l.getPrefix l.len = l)) = true) ↔
      ∀ l ∈ ls, l.len ≤ 256 ∧ l.Normalised := by
    simp only [List.all_eq_true, Bool.and_eq_true, decide_eq_true_eq]
    constructor
    · intro h l hl
      exact ⟨(h l hl).1, (getPrefix_self_iff l (h l hl).1).mp (h l hl).2⟩
    · intro h l hl
      exact ⟨(h l hl).1, (getPrefix_self_iff l (h l hl).1).mpr (h l hl).2⟩
  unfold Auditor.labelsPrefixFree
  rw [Bool.and_eq_true, hall]
  obtain ⟨hs, hp⟩ := sort_spec ls
  constructor
  · rintro ⟨hN, hadj⟩
    refine ⟨hN, ?_⟩
    have hN' : ∀ l ∈ ls.foldr Auditor.insertKey [], l.len ≤ 256 ∧ l.Normalised :=
      fun l hl => hN l (hp.mem_iff.mp hl)
    exact (hp.pairwise_iff (fun h => ⟨h.2, h.1⟩)).mp ((adjacentFree_iff _ hN' hs).mp hadj)
  · rintro ⟨hN, hpw⟩
    refine ⟨hN, ?_⟩
    have hN' : ∀ l ∈ ls.foldr Auditor.insertKey [], l.len ≤ 256 ∧ l.Normalised :=
      fun l hl => hN l (hp.mem_iff.mp hl)
    exact (adjacentFree_iff _ hN' hs).mpr ((hp.pairwise_iff (fun h => ⟨h.2, h.1⟩)).mpr hpw)

end Akd.Aud
