/-
C19 helper lemmas for blob names: raw string positions on `String.ofList`, `String.splitOn` with a
one-character separator, decimal and hex round trips.
-/
import AkdModel.Blob
namespace Akd.Blob
open String (Pos.Raw)

def utf8Len : List Char → Nat
  | [] => 0
  | c :: cs => c.utf8Size + utf8Len cs

theorem utf8Len_append (a b : List Char) : utf8Len (a ++ b) = utf8Len a + utf8Len b := by
  induction a with
  | nil => simp [utf8Len]
  | cons c cs ih => simp [utf8Len, ih, Nat.add_assoc]

theorem utf8ByteSize_ofList (cs : List Char) : (String.ofList cs).utf8ByteSize = utf8Len cs := by
  induction cs with
  | nil => rfl
  | cons c cs ih =>
    rw [String.ofList_cons, String.utf8ByteSize_append, String.utf8ByteSize_singleton, ih]; rfl

theorem utf8Len_eq_zero (cs : List Char) (h : utf8Len cs = 0) : cs = [] := by
  cases cs with
  | nil => rfl
  | cons c cs =>
    have := Char.utf8Size_pos c
    simp only [utf8Len] at h; omega

theorem pos_add_char (i : Nat) (c : Char) : (⟨i⟩ : Pos.Raw) + c = ⟨i + c.utf8Size⟩ := rfl

theorem utf8GetAux_of_valid (cs cs' : List Char) (i p : Nat) (hp : i + utf8Len cs = p) :
    Pos.Raw.utf8GetAux (cs ++ cs') ⟨i⟩ ⟨p⟩ = cs'.headD default := by
  induction cs generalizing i with
  | nil =>
    simp only [utf8Len, Nat.add_zero] at hp
    subst hp
    cases cs' with
    | nil => rfl
    | cons c cs' => simp [Pos.Raw.utf8GetAux]
  | cons c cs ih =>
    have hpos := Char.utf8Size_pos c
    simp only [utf8Len] at hp
    have hne : (⟨i⟩ : Pos.Raw) ≠ ⟨p⟩ := by
      intro h; injection h with h; omega
    simp only [List.cons_append, Pos.Raw.utf8GetAux, if_neg hne, pos_add_char]
    exact ih (i + c.utf8Size) (by omega)

theorem get_of_valid (cs cs' : List Char) :
    Pos.Raw.get (String.ofList (cs ++ cs')) ⟨utf8Len cs⟩ = cs'.headD default := by
  unfold Pos.Raw.get
  rw [String.toList_ofList]
  exact utf8GetAux_of_valid cs cs' 0 _ (by simp)

theorem next_of_valid (cs : List Char) (c : Char) (cs' : List Char) :
    Pos.Raw.next (String.ofList (cs ++ c :: cs')) ⟨utf8Len cs⟩ = ⟨utf8Len cs + c.utf8Size⟩ := by
  unfold Pos.Raw.next
  rw [get_of_valid]
  rfl

theorem atEnd_of_valid (cs cs' : List Char) :
    Pos.Raw.atEnd (String.ofList (cs ++ cs')) ⟨utf8Len cs⟩ = decide (cs' = []) := by
  unfold Pos.Raw.atEnd
  simp only [utf8ByteSize_ofList, utf8Len_append]
  by_cases h : cs' = []
  · subst h; simp [utf8Len]
  · have : utf8Len cs' ≠ 0 := fun h0 => h (utf8Len_eq_zero _ h0)
    simp only [h, decide_false, decide_eq_false_iff_not]
    omega

theorem go₂_of_valid (m r : List Char) (i e : Nat) (he : i + utf8Len m = e) :
    Pos.Raw.extract.go₂ (m ++ r) ⟨i⟩ ⟨e⟩ = m := by
  induction m generalizing i with
  | nil =>
    simp only [utf8Len, Nat.add_zero] at he
    subst he
    cases r with
    | nil => rfl
    | cons c r => simp [Pos.Raw.extract.go₂]
  | cons c m ih =>
    have hpos := Char.utf8Size_pos c
    simp only [utf8Len] at he
    have hne : (⟨i⟩ : Pos.Raw) ≠ ⟨e⟩ := by
      intro h; injection h with h; omega
    simp only [List.cons_append, Pos.Raw.extract.go₂, if_neg hne, pos_add_char]
    rw [ih (i + c.utf8Size) (by omega)]

theorem go₁_of_valid (l m r : List Char) (i b e : Nat) (hb : i + utf8Len l = b) (he : b + utf8Len m = e) :
    Pos.Raw.extract.go₁ (l ++ m ++ r) ⟨i⟩ ⟨b⟩ ⟨e⟩ = m := by
  induction l generalizing i with
  | nil =>
    simp only [utf8Len, Nat.add_zero] at hb
    subst hb
    cases m with
    | nil =>
      cases r with
      | nil => rfl
      | cons c r =>
        simp only [utf8Len, Nat.add_zero] at he
        subst he
        simp [Pos.Raw.extract.go₁, Pos.Raw.extract.go₂]
    | cons c m =>
      simp only [List.nil_append, List.cons_append, Pos.Raw.extract.go₁, if_true]
      exact go₂_of_valid (c :: m) r i e he
  | cons c l ih =>
    have hpos := Char.utf8Size_pos c
    simp only [utf8Len] at hb
    have hne : (⟨i⟩ : Pos.Raw) ≠ ⟨b⟩ := by
      intro h; injection h with h; omega
    simp only [List.cons_append, Pos.Raw.extract.go₁, if_neg hne, pos_add_char]
    exact ih (i + c.utf8Size) (by omega)

theorem extract_of_valid (l m r : List Char) :
    Pos.Raw.extract (String.ofList (l ++ m ++ r)) ⟨utf8Len l⟩ ⟨utf8Len l + utf8Len m⟩ = String.ofList m := by
  unfold Pos.Raw.extract
  simp only [String.toList_ofList]
  by_cases hm : m = []
  · subst hm; simp [utf8Len]
  · have : utf8Len m ≠ 0 := fun h0 => hm (utf8Len_eq_zero _ h0)
    have h2 : ¬ (utf8Len l ≥ utf8Len l + utf8Len m) := by omega
    rw [if_neg h2]
    have := go₁_of_valid l m r 0 (utf8Len l) (utf8Len l + utf8Len m) (by simp) rfl
    exact congrArg String.ofList this


/-! ### `splitOn` with a one-character separator -/

def splitChars (c0 : Char) : List Char → List Char → List (List Char)
  | [], cur => [cur]
  | c :: cs, cur => if c = c0 then cur :: splitChars c0 cs [] else splitChars c0 cs (cur ++ [c])

theorem sep_get (c0 : Char) : Pos.Raw.get (String.ofList [c0]) 0 = c0 :=
  get_of_valid [] [c0]

theorem sep_next (c0 : Char) : Pos.Raw.next (String.ofList [c0]) 0 = ⟨c0.utf8Size⟩ := by
  have := next_of_valid [] c0 []
  simpa [utf8Len] using this

theorem sep_atEnd (c0 : Char) : Pos.Raw.atEnd (String.ofList [c0]) ⟨c0.utf8Size⟩ = true := by
  have := atEnd_of_valid [c0] []
  simpa [utf8Len] using this

theorem splitOnAux_spec (c0 : Char) (R : List Char) : ∀ (L M : List Char) (r : List String),
    (String.ofList (L ++ M ++ R)).splitOnAux (String.ofList [c0]) ⟨utf8Len L⟩ ⟨utf8Len L + utf8Len M⟩ 0 r =
      r.reverse ++ (splitChars c0 R M).map String.ofList := by
  induction R with
  | nil =>
    intro L M r
    rw [String.splitOnAux.eq_1]
    have h1 := atEnd_of_valid (L ++ M) []
    rw [utf8Len_append] at h1
    rw [h1]
    have h2 := extract_of_valid L M []
    simp only [decide_true, if_true, h2, splitChars, List.reverse_cons, List.map_cons, List.map_nil]
  | cons c R ih =>
    intro L M r
    rw [String.splitOnAux.eq_1]
    have h1 := atEnd_of_valid (L ++ M) (c :: R)
    have h2 := get_of_valid (L ++ M) (c :: R)
    have h3 := next_of_valid (L ++ M) c R
    rw [utf8Len_append] at h1 h2 h3
    simp only [List.append_assoc] at h1 h2 h3 ⊢
    rw [h1]
    simp only [reduceCtorEq, decide_false, Bool.false_eq_true, if_false, h2, List.headD_cons, sep_get]
    by_cases hc : c = c0
    · subst hc
      simp only [beq_self_eq_true, if_true, h3, sep_next, sep_atEnd, Pos.Raw.unoffsetBy, Nat.add_sub_cancel]
      have h4 := extract_of_valid L M (c :: R)
      simp only [List.append_assoc] at h4
      rw [h4]
      have h5 := ih (L ++ M ++ [c]) [] (String.ofList M :: r)
      simp only [utf8Len_append, utf8Len, Nat.add_zero, List.append_assoc, List.append_nil,
        List.cons_append, List.nil_append, ← Nat.add_assoc] at h5
      rw [h5]
      simp [splitChars]
    · have hb : (c == c0) = false := by simpa using hc
      simp only [hb, Bool.false_eq_true, if_false, Pos.Raw.unoffsetBy]
      have h6 : ((0 : Pos.Raw).byteIdx) = 0 := rfl
      simp only [h6, Nat.sub_zero, h3]
      have h5 := ih L (M ++ [c]) r
      simp only [utf8Len_append, utf8Len, Nat.add_zero, List.append_assoc, List.cons_append,
        List.nil_append, ← Nat.add_assoc] at h5
      rw [h5]
      simp [splitChars, hc]

theorem splitOn_single (c0 : Char) (cs : List Char) :
    (String.ofList cs).splitOn (String.ofList [c0]) = (splitChars c0 cs []).map String.ofList := by
  unfold String.splitOn
  have hne : (String.ofList [c0] == "") = false := by
    rw [beq_eq_false_iff_ne]
    intro h
    have := congrArg String.toList h
    simp at this
  rw [hne]
  have := splitOnAux_spec c0 cs [] [] []
  simpa [utf8Len] using this

theorem splitChars_append (c0 : Char) (a rest cur : List Char) (h : c0 ∉ a) :
    splitChars c0 (a ++ rest) cur = splitChars c0 rest (cur ++ a) := by
  induction a generalizing cur with
  | nil => simp
  | cons c a ih =>
    have hc : ¬ c = c0 := fun e => h (e ▸ List.mem_cons_self)
    simp only [List.cons_append, splitChars, if_neg hc]
    rw [ih _ (fun hm => h (List.mem_cons_of_mem _ hm))]
    simp

theorem splitChars_three (c0 : Char) (a b c : List Char) (ha : c0 ∉ a) (hb : c0 ∉ b) (hc : c0 ∉ c) :
    splitChars c0 (a ++ c0 :: (b ++ c0 :: c)) [] = [a, b, c] := by
  rw [splitChars_append _ _ _ _ ha]
  simp only [splitChars, if_true, List.nil_append]
  rw [splitChars_append _ _ _ _ hb]
  simp only [splitChars, if_true, List.nil_append]
  have := splitChars_append c0 c [] [] hc
  rw [List.append_nil] at this
  rw [this]
  simp [splitChars]


/-! ### decimal epoch -/

theorem isDigit_range (c : Char) (h : c.isDigit = true) : (decide ('0' ≤ c) && decide (c ≤ '9')) = true := by
  simp only [Char.isDigit, Bool.and_eq_true, decide_eq_true_eq] at h ⊢
  exact ⟨Char.le_def.mpr h.1, Char.le_def.mpr h.2⟩

theorem foldl_digits (ds : List Char) : ∀ init,
    List.foldl (fun acc c => acc * 10 + (c.toNat - '0'.toNat)) init ds = Nat.ofDigitChars 10 ds init := by
  induction ds with
  | nil => intro init; simp
  | cons c ds ih => intro init; rw [List.foldl_cons, ih, Nat.ofDigitChars_cons, Nat.mul_comm]

theorem parseU64_of_digits (s : String) (ds : List Char) (hs : s.toList = ds) (hne : ds ≠ [])
    (hdig : ∀ c ∈ ds, c.isDigit = true) (hv : Nat.ofDigitChars 10 ds 0 < 2 ^ 64) :
    parseU64? s = some (Nat.ofDigitChars 10 ds 0) := by
  unfold parseU64?
  rw [hs]
  have hnp : ∀ rest : List Char, ds = '+' :: rest → False := by
    intro rest heq
    have := hdig '+' (by rw [heq]; exact List.mem_cons_self)
    exact absurd this (by decide)
  -- the matcher's second equation, its side condition discharged by `hnp`
  simp only []
  have h1 : ds.isEmpty = false := by
    cases ds with
    | nil => exact absurd rfl hne
    | cons _ _ => rfl
  have h2 : (ds.all fun c => decide ('0' ≤ c) && decide (c ≤ '9')) = true := by
    rw [List.all_eq_true]
    exact fun c hc => isDigit_range c (hdig c hc)
  rw [h1, h2, foldl_digits]
  simp [hv]

theorem parseU64_toString (n : Nat) (h : n < 2 ^ 64) : parseU64? (toString n) = some n := by
  have := parseU64_of_digits (toString n) (Nat.toDigits 10 n)
    (by rw [Nat.toString_eq_repr, Nat.toList_repr]) Nat.toDigits_ne_nil
    (fun c hc => Nat.isDigit_of_mem_toDigits (by decide) (by decide) hc)
    (by rw [Nat.ofDigitChars_ten_toDigits]; exact h)
  rw [this, Nat.ofDigitChars_ten_toDigits]

/-! ### hex digests -/

theorem hexDigit_hexChar : ∀ k, k < 16 → hexDigitAny? (Wire.hexChar k) = some k := by decide

theorem hexChar_ne_slash : ∀ k, k < 16 → Wire.hexChar k ≠ '/' := by decide

def hexChars (bs : List UInt8) : List Char :=
  bs.foldr (fun b acc => Wire.hexChar (b.toNat / 16) :: Wire.hexChar (b.toNat % 16) :: acc) []

theorem hexLower_eq (bs : List UInt8) : hexLower bs = String.ofList (hexChars bs) := rfl

theorem hexDecodeGo_hexChars (bs : List UInt8) : ∀ acc, hexDecodeGo (hexChars bs) acc = some (acc.reverse ++ bs) := by
  induction bs with
  | nil => intro acc; simp [hexChars, hexDecodeGo]
  | cons b bs ih =>
    intro acc
    have hb : b.toNat < 256 := b.toNat_lt
    have h1 := hexDigit_hexChar (b.toNat / 16) (by omega)
    have h2 := hexDigit_hexChar (b.toNat % 16) (by omega)
    have h3 : UInt8.ofNat (b.toNat / 16 * 16 + b.toNat % 16) = b := by
      have : b.toNat / 16 * 16 + b.toNat % 16 = b.toNat := by omega
      rw [this]; exact UInt8.ofNat_toNat
    show hexDecodeGo (Wire.hexChar (b.toNat / 16) :: Wire.hexChar (b.toNat % 16) :: hexChars bs) acc = _
    simp only [hexDecodeGo, h1, h2, Option.bind_eq_bind, Option.bind_some, h3]
    rw [ih]
    simp

theorem digest_hexLower (bs : List UInt8) (h : bs.length = 32) : digest? (hexLower bs) = some bs := by
  unfold digest?
  rw [hexLower_eq, String.toList_ofList, hexDecodeGo_hexChars]
  simp [h]

theorem slash_not_mem_hexChars (bs : List UInt8) : '/' ∉ hexChars bs := by
  induction bs with
  | nil => simp [hexChars]
  | cons b bs ih =>
    have hb : b.toNat < 256 := b.toNat_lt
    have h1 := hexChar_ne_slash (b.toNat / 16) (by omega)
    have h2 := hexChar_ne_slash (b.toNat % 16) (by omega)
    show '/' ∉ Wire.hexChar (b.toNat / 16) :: Wire.hexChar (b.toNat % 16) :: hexChars bs
    simp only [List.mem_cons, not_or]
    exact ⟨fun e => h1 e.symm, fun e => h2 e.symm, ih⟩


/-! ### the name -/

theorem slash_not_mem_digits (n : Nat) : '/' ∉ Nat.toDigits 10 n := by
  intro h
  have := Nat.isDigit_of_mem_toDigits (b := 10) (by decide) (by decide) h
  exact absurd this (by decide)

theorem render_eq (n : Name) : render n =
    String.ofList (Nat.toDigits 10 n.epoch ++ '/' :: (hexChars n.previous ++ '/' :: hexChars n.current)) := by
  have hs : ("/" : String) = String.ofList ['/'] := rfl
  show toString n.epoch ++ "/" ++ hexLower n.previous ++ "/" ++ hexLower n.current = _
  rw [Nat.toString_eq_ofList_toDigits, hexLower_eq, hexLower_eq, hs]
  simp only [← String.ofList_append]
  simp

theorem parse_render (n : Name) (he : n.epoch < 2 ^ 64) (hp : n.previous.length = 32)
    (hc : n.current.length = 32) : parse? (render n) = some n := by
  have hs : ("/" : String) = String.ofList ['/'] := rfl
  have hsplit : (render n).splitOn "/" = [toString n.epoch, hexLower n.previous, hexLower n.current] := by
    rw [render_eq, hs, splitOn_single,
      splitChars_three '/' _ _ _ (slash_not_mem_digits _) (slash_not_mem_hexChars _) (slash_not_mem_hexChars _)]
    simp [hexLower_eq, Nat.repr_eq_ofList_toDigits]
  unfold parse?
  rw [hsplit]
  simp only [parseU64_toString n.epoch he, digest_hexLower _ hp, digest_hexLower _ hc]
  rfl

end Akd.Blob
