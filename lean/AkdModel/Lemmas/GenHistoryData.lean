/-
Key history, part 1 (data): the value states `Dir.keyHistory` collects for a label — filtered by
name and epoch, sorted by decreasing epoch, cut to the newest `n` — are exactly the entries of
`C07.expected`; the version numbers of that list and their minimum / maximum.
-/
import AkdModel.Thm.C01c
import AkdModel.Thm.C07
import AkdModel.Lemmas.GenLookup
namespace Akd.Gen
open Akd

/-- the specification entry a value state stands for -/
def verOf (s : ValueState) : Spec.Ver := ⟨s.version, s.value, s.epoch⟩

/-! ### insertion sort by decreasing epoch -/

theorem mem_insertDesc (s x : ValueState) : ∀ l : List ValueState, x ∈ Dir.insertDesc s l ↔ x = s ∨ x ∈ l
  | [] => by simp [Dir.insertDesc]
  | y :: ys => by
    unfold Dir.insertDesc
    split
    · simp
    · simp only [List.mem_cons, mem_insertDesc s x ys]
      constructor
      · rintro (h | h | h)
        · exact Or.inr (Or.inl h)
        · exact Or.inl h
        · exact Or.inr (Or.inr h)
      · rintro (h | h | h)
        · exact Or.inr (Or.inl h)
        · exact Or.inl h
        · exact Or.inr (Or.inr h)

theorem insertDesc_sorted (s : ValueState) : ∀ l : List ValueState,
    l.Pairwise (fun a b => a.epoch > b.epoch) → (∀ x ∈ l, x.epoch ≠ s.epoch) →
    (Dir.insertDesc s l).Pairwise (fun a b => a.epoch > b.epoch)
  | [], _, _ => by simp [Dir.insertDesc]
  | y :: ys, hp, hne => by
    unfold Dir.insertDesc
    have hy : ∀ {b}, b ∈ ys → y.epoch > b.epoch := fun hb => List.rel_of_pairwise_cons hp hb
    split
    · rename_i hgt
      refine List.Pairwise.cons ?_ hp
      intro b hb
      rcases List.mem_cons.1 hb with rfl | hb
      · exact hgt
      · have := hy hb; omega
    · rename_i hle
      refine List.Pairwise.cons ?_ (insertDesc_sorted s ys hp.of_cons (fun x hx => hne x (List.mem_cons_of_mem _ hx)))
      intro b hb
      rcases (mem_insertDesc s b ys).1 hb with rfl | hb
      · have := hne y List.mem_cons_self; omega
      · exact hy hb

theorem sortDesc_spec : ∀ F : List ValueState, F.Pairwise (fun a b => a.epoch ≠ b.epoch) →
    (F.foldr Dir.insertDesc []).Pairwise (fun a b => a.epoch > b.epoch) ∧
    ∀ x, x ∈ F.foldr Dir.insertDesc [] ↔ x ∈ F
  | [], _ => by simp
  | s :: F, hp => by
    obtain ⟨h1, h2⟩ := sortDesc_spec F hp.of_cons
    simp only [List.foldr_cons]
    refine ⟨insertDesc_sorted s _ h1 (fun x hx => ?_), fun x => ?_⟩
    · exact (List.rel_of_pairwise_cons hp ((h2 x).1 hx)).symm
    · rw [mem_insertDesc, h2]; simp

/-- two lists sorted strictly (by a key) with the same members are equal -/
theorem eq_of_strict_sorted {α} (f : α → Nat) : ∀ l₁ l₂ : List α,
    l₁.Pairwise (fun a b => f a > f b) → l₂.Pairwise (fun a b => f a > f b) →
    (∀ x, x ∈ l₁ ↔ x ∈ l₂) → l₁ = l₂
  | [], [], _, _, _ => rfl
  | [], b :: l₂, _, _, h => by have := (h b).2 List.mem_cons_self; cases this
  | a :: l₁, [], _, _, h => by have := (h a).1 List.mem_cons_self; cases this
  | a :: l₁, b :: l₂, h₁, h₂, h => by
    have ha : ∀ {x}, x ∈ l₁ → f a > f x := fun hx => List.rel_of_pairwise_cons h₁ hx
    have hb : ∀ {x}, x ∈ l₂ → f b > f x := fun hx => List.rel_of_pairwise_cons h₂ hx
    have hab : a = b := by
      rcases List.mem_cons.1 ((h a).1 List.mem_cons_self) with e | e
      · exact e
      · rcases List.mem_cons.1 ((h b).2 List.mem_cons_self) with e' | e'
        · exact e'.symm
        · have := ha e'; have := hb e; omega
    subst hab
    congr 1
    refine eq_of_strict_sorted f l₁ l₂ h₁.of_cons h₂.of_cons (fun x => ?_)
    constructor
    · intro hx
      rcases List.mem_cons.1 ((h x).1 (List.mem_cons_of_mem _ hx)) with e | e
      · subst e; have := ha hx; omega
      · exact e
    · intro hx
      rcases List.mem_cons.1 ((h x).2 (List.mem_cons_of_mem _ hx)) with e | e
      · subst e; have := hb hx; omega
      · exact e

/-- the sorted value states of a label are its versions, newest first -/
theorem sorted_states_eq (d : Dir) (T : Spec.Table) (E : Nat) (hm : Pub.SMatch d.states d.vrf T) (u : Bytes)
    (hV : Pub.VersOK (T.get u)) (hE : ∀ v ∈ T.get u, v.epoch ≤ E) :
    ((((d.states.filter (fun s => s.username = u)).filter (fun s => s.epoch ≤ E)).foldr Dir.insertDesc []).map verOf)
      = (T.get u).reverse := by
  have hF : ∀ s, s ∈ (d.states.filter (fun s => s.username = u)).filter (fun s => s.epoch ≤ E) ↔
      s ∈ d.states ∧ s.username = u ∧ s.epoch ≤ E := by
    intro s
    simp only [List.mem_filter, decide_eq_true_eq, and_assoc]
  have hpw : ((d.states.filter (fun s => s.username = u)).filter (fun s => s.epoch ≤ E)).Pairwise
      (fun a b => a.epoch ≠ b.epoch) := by
    have h0 := (hm.2.2.filter (fun s => s.username = u)).filter (fun s => s.epoch ≤ E)
    have hmem : ∀ a ∈ (d.states.filter (fun s => s.username = u)).filter (fun s => s.epoch ≤ E), a.username = u :=
      fun a ha => ((hF a).1 ha).2.1
    exact h0.imp_of_mem (fun {a b} ha hb hab he => hab ⟨(hmem a ha).trans (hmem b hb).symm, he⟩)
  obtain ⟨hs1, hs2⟩ := sortDesc_spec _ hpw
  apply eq_of_strict_sorted (fun v : Spec.Ver => v.epoch)
  · rw [List.pairwise_map]
    exact hs1
  · rw [List.pairwise_reverse]
    exact hV.2
  · intro x
    rw [List.mem_map, List.mem_reverse]
    constructor
    · rintro ⟨s, hs, rfl⟩
      obtain ⟨hs', hsu, -⟩ := (hF s).1 ((hs2 s).1 hs)
      obtain ⟨v, hv, h1, h2, h3, -⟩ := hm.1 s hs'
      rw [hsu] at hv
      have : verOf s = v := by
        cases v
        simp only at h1 h2 h3
        simp only [verOf, h1, h2, h3]
      rw [this]; exact hv
    · intro hx
      obtain ⟨s, hs, hsu, h1, h2, h3⟩ := hm.2.1 u x hx
      refine ⟨s, (hs2 s).2 ((hF s).2 ⟨hs, hsu, by rw [h2]; exact hE x hx⟩), ?_⟩
      cases x
      simp only at h1 h2 h3
      simp only [verOf, h1, h2, h3]

/-! ### minimum / maximum by `foldl` -/

theorem foldl_min_spec : ∀ (l : List Nat) (a : Nat),
    (l.foldl min a = a ∨ l.foldl min a ∈ l) ∧ l.foldl min a ≤ a ∧ ∀ x ∈ l, l.foldl min a ≤ x
  | [], a => by simp
  | y :: l, a => by
    obtain ⟨h1, h2, h3⟩ := foldl_min_spec l (min a y)
    simp only [List.foldl_cons, List.mem_cons]
    refine ⟨?_, by omega, ?_⟩
    · rcases h1 with h | h
      · rcases Nat.le_total a y with hay | hay
        · left; rw [h]; exact Nat.min_eq_left hay
        · right; left; rw [h]; exact Nat.min_eq_right hay
      · exact Or.inr (Or.inr h)
    · intro x hx
      rcases hx with rfl | hx
      · omega
      · exact h3 x hx

theorem foldl_max_spec : ∀ (l : List Nat) (a : Nat),
    (l.foldl max a = a ∨ l.foldl max a ∈ l) ∧ a ≤ l.foldl max a ∧ ∀ x ∈ l, x ≤ l.foldl max a
  | [], a => by simp
  | y :: l, a => by
    obtain ⟨h1, h2, h3⟩ := foldl_max_spec l (max a y)
    simp only [List.foldl_cons, List.mem_cons]
    refine ⟨?_, by omega, ?_⟩
    · rcases h1 with h | h
      · rcases Nat.le_total a y with hay | hay
        · right; left; rw [h]; exact Nat.max_eq_right hay
        · left; rw [h]; exact Nat.max_eq_left hay
      · exact Or.inr (Or.inr h)
    · intro x hx
      rcases hx with rfl | hx
      · omega
      · exact h3 x hx

/-- a list of version numbers `L, L-1, …, L-k+1` -/
structure DescFrom (L : Nat) (xs : List Nat) : Prop where
  pos : 1 ≤ xs.length
  le : xs.length ≤ L
  get : ∀ i (h : i < xs.length), xs[i] = L - i

theorem consecutiveDecreasing_of_getElem : ∀ (l : List Nat),
    (∀ i (h : i + 1 < l.length), l[i + 1] + 1 = l[i]) → Verify.consecutiveDecreasing l = true
  | [], _ => rfl
  | [_], _ => rfl
  | a :: b :: rest, h => by
    simp only [Verify.consecutiveDecreasing, Bool.and_eq_true, beq_iff_eq]
    refine ⟨by simpa using h 0 (by simp), consecutiveDecreasing_of_getElem (b :: rest) (fun i hi => ?_)⟩
    have := h (i + 1) (by simpa using hi)
    simpa using this

theorem DescFrom.consecutive {L : Nat} {xs : List Nat} (h : DescFrom L xs) :
    Verify.consecutiveDecreasing xs = true := by
  apply consecutiveDecreasing_of_getElem
  intro i hi
  rw [h.get (i + 1) hi, h.get i (by omega)]
  have := h.le
  omega

theorem DescFrom.mem {L : Nat} {xs : List Nat} (h : DescFrom L xs) {x : Nat} (hx : x ∈ xs) :
    L + 1 - xs.length ≤ x ∧ x ≤ L := by
  obtain ⟨i, hi, rfl⟩ := List.getElem_of_mem hx
  rw [h.get i hi]
  have := h.le
  omega

/-- minimum and maximum of such a list, computed the way directory and verifier do -/
theorem DescFrom.min_max {L v0 : Nat} {rest : List Nat} (h : DescFrom L (v0 :: rest)) :
    (v0 :: rest).foldl min v0 = L + 1 - (v0 :: rest).length ∧ (v0 :: rest).foldl max v0 = L := by
  have h0 : v0 = L := h.get 0 (Nat.zero_lt_succ _)
  have hlast : L + 1 - (v0 :: rest).length ∈ (v0 :: rest) := by
    have hi : (v0 :: rest).length - 1 < (v0 :: rest).length := by have := h.pos; omega
    have := h.get _ hi
    have hle := h.le
    have e : L + 1 - (v0 :: rest).length = L - ((v0 :: rest).length - 1) := by omega
    rw [e, ← this]
    exact List.getElem_mem hi
  constructor
  · obtain ⟨h1, h2, h3⟩ := foldl_min_spec (v0 :: rest) v0
    have hle := h3 _ hlast
    have hge : L + 1 - (v0 :: rest).length ≤ (v0 :: rest).foldl min v0 := by
      rcases h1 with e | e
      · rw [e]; exact (h.mem List.mem_cons_self).1
      · exact (h.mem e).1
    omega
  · obtain ⟨h1, h2, h3⟩ := foldl_max_spec (v0 :: rest) v0
    rcases h1 with e | e
    · rw [e]; exact h0
    · have := (h.mem e).2; omega

/-! ### the expected answer -/

theorem expected_descFrom (vs : List Spec.Ver) (hV : Pub.VersOK vs) (hne : vs ≠ [])
    (p : HistoryParams) (hp : ∀ n, p = .mostRecent n → 1 ≤ n) :
    DescFrom vs.length ((C07.expected vs p).map (·.version)) := by
  have hpos : 1 ≤ vs.length := by
    cases vs with
    | nil => exact absurd rfl hne
    | cons _ _ => simp
  have hlen := C07.expected_length vs p
  have hk : (C07.expected vs p).length ≤ vs.length := by
    rw [hlen]
    cases p with
    | complete => exact Nat.le_refl _
    | mostRecent r => simp only; omega
  refine ⟨?_, ?_, ?_⟩
  · rw [List.length_map, hlen]
    cases p with
    | complete => exact hpos
    | mostRecent r => have := hp r rfl; simp only; omega
  · rw [List.length_map]; exact hk
  · intro i hi
    rw [List.length_map] at hi
    obtain ⟨h', e⟩ := C07.expected_getElem vs p i hi
    rw [List.getElem_map, e, hV.1 _ h']
    omega

theorem expected_mem (vs : List Spec.Ver) (p : HistoryParams) {v : Spec.Ver} (h : v ∈ C07.expected vs p) : v ∈ vs := by
  cases p with
  | complete => simpa [C07.expected] using h
  | mostRecent r =>
    simp only [C07.expected] at h
    exact List.mem_reverse.1 (List.mem_of_mem_take h)

theorem expected_sorted (vs : List Spec.Ver) (hV : Pub.VersOK vs) (p : HistoryParams) :
    (C07.expected vs p).Pairwise (fun a b => a.epoch > b.epoch) := by
  have h : vs.reverse.Pairwise (fun a b => a.epoch > b.epoch) := by
    rw [List.pairwise_reverse]; exact hV.2
  cases p with
  | complete => exact h
  | mostRecent r => exact h.sublist (List.take_sublist r _)

end Akd.Gen
