/-
`Directory::batch_lookup` (directory.rs:392-431): the lookup infos of ALL labels are gathered first (latest
state at or before the current epoch and the three VRF node labels; the call fails if any label has none),
the nodes are preloaded (no observable effect), the root hash is computed once, and then one proof per label
is produced by `lookup_with_info`.
-/
import AkdModel.Dir
namespace Akd
namespace Dir

/-- `LookupInfo` (helper_structs.rs): the state served and the node labels derived from it -/
structure LookupInfo where
  st : ValueState
  mv : Nat
  le : NodeLabel
  lm : NodeLabel
  ln : NodeLabel

/-- `get_lookup_info` / `build_lookup_info` (directory.rs:433-466) -/
def lookupInfo (d : Dir) (cur : Nat) (u : Bytes) : Except DErr LookupInfo := do
  let some st := d.stateLeq u cur | throw .notFound
  let ver := st.version
  let mv := markerVersion ver
  let le ← d.vrfLabel u true ver
  let lm ← d.vrfLabel u true mv
  let ln ← d.vrfLabel u false ver
  return ⟨st, mv, le, lm, ln⟩

/-- `lookup_with_info` (directory.rs:302-368) -/
def lookupWithInfo (c : Cfg) (d : Dir) (azks : Azks) (u : Bytes) (i : LookupInfo) : Except DErr LookupProof := do
  let pe ← liftT (d.nodes.membershipProof c azks i.le)
  let pm ← liftT (d.nodes.membershipProof c azks i.lm)
  let pn ← liftT (d.nodes.nonMembershipProof c azks i.ln)
  return ⟨i.st.epoch, i.st.value, i.st.version, some ⟨u, true, i.st.version⟩, pe, some ⟨u, true, i.mv⟩, pm,
          some ⟨u, false, i.st.version⟩, pn, c.nonce d.commitmentKey i.le i.st.version i.st.value⟩

/-- `batch_lookup` -/
def batchLookup (c : Cfg) (d : Dir) (us : List Bytes) : Except DErr (List LookupProof × Nat × Dig) := do
  let some azks := d.azks | throw .notFound
  let cur := azks.latestEpoch
  let infos ← us.mapM (fun u => do let i ← d.lookupInfo cur u; pure (u, i))
  let h ← liftT (d.nodes.rootHash c azks)
  let ps ← infos.mapM (fun (u, i) => d.lookupWithInfo c azks u i)
  return (ps, cur, h)

end Dir
end Akd
