/-
L7 — the wire: proto2 encoding of the proof messages (`akd_core/src/proto/specs/types.proto`),
the parsing discipline of the generated `merge_from` code (rust-protobuf 3.7: match on the full tag,
unknown fields skipped, optional scalar last-wins, repeated append, singular message REPLACED,
varint32 at most 5 bytes with last byte ≤ 0x0f, varint64 at most 10 bytes with last byte ≤ 1,
recursion limit 100), and the typed conversions of `akd_core/src/proto/mod.rs`
(required fields, label ≤ 32 bytes and ≤ 256 bits, 32-byte digests, direction masked with 0xF,
exactly two children, first sibling only).  Everything is over concrete bytes.  No imports.
-/
namespace Akd.Proto

abbrev Bytes := List UInt8

/-! ### varints, tags -/

/-- `decode_varint_full` for `u64` (varint/decode.rs): at most 10 bytes, the 10th ≤ 1 -/
def readVarint64 (bs : Bytes) : Option (Nat × Bytes) :=
  let rec go (i : Nat) (acc : Nat) : Bytes → Nat → Option (Nat × Bytes)
    | _, 0 => none
    | [], _ => none
    | b :: rest, fuel + 1 =>
      if i = 9 then
        if b.toNat > 1 then none else some (acc ||| (b.toNat <<< (7 * i)), rest)
      else
        let acc := acc ||| ((b.toNat &&& 0x7f) <<< (7 * i))
        if b.toNat < 0x80 then some (acc, rest) else go (i + 1) acc rest fuel
  go 0 0 bs 10

/-- `decode_varint_full` for `u32`: at most 5 bytes, the 5th ≤ 0x0f -/
def readVarint32 (bs : Bytes) : Option (Nat × Bytes) :=
  let rec go (i : Nat) (acc : Nat) : Bytes → Nat → Option (Nat × Bytes)
    | _, 0 => none
    | [], _ => none
    | b :: rest, fuel + 1 =>
      if i = 4 then
        if b.toNat > 0x0f then none else some (acc ||| (b.toNat <<< (7 * i)), rest)
      else
        let acc := acc ||| ((b.toNat &&& 0x7f) <<< (7 * i))
        if b.toNat < 0x80 then some (acc, rest) else go (i + 1) acc rest fuel
  go 0 0 bs 5

/-- canonical varint writer -/
def writeVarint (n : Nat) : Bytes :=
  let rec go (n : Nat) : Nat → Bytes
    | 0 => []
    | fuel + 1 => if n < 0x80 then [UInt8.ofNat n] else UInt8.ofNat ((n &&& 0x7f) ||| 0x80) :: go (n >>> 7) fuel
  go n 10

inductive WireType where
  | varint | fixed64 | lengthDelimited | startGroup | endGroup | fixed32
deriving DecidableEq

def wireTypeOf? : Nat → Option WireType
  | 0 => some .varint | 1 => some .fixed64 | 2 => some .lengthDelimited
  | 3 => some .startGroup | 4 => some .endGroup | 5 => some .fixed32
  | _ => none

/-- `Tag::new`: field number ≠ 0, wire type ≤ 5 -/
def unpackTag? (v : Nat) : Option (Nat × WireType) :=
  match wireTypeOf? (v &&& 7) with
  | some wt => if v >>> 3 = 0 then none else some (v >>> 3, wt)
  | none => none

/-- the input stream: the bytes up to the end of the data, and the number of bytes that may
still be consumed before the innermost limit (`push_limit`); the top level has no limit -/
structure In where
  bytes : Bytes
  lim : Nat

def In.eof (i : In) : Bool := i.bytes.isEmpty || i.lim = 0

/-- what is visible: up to the limit -/
def In.visible (i : In) : Bytes := i.bytes.take i.lim

def In.advance (i : In) (rest : Bytes) : In :=
  ⟨rest, i.lim - (i.visible.length - rest.length)⟩

def In.varint64 (i : In) : Option (Nat × In) :=
  match readVarint64 i.visible with
  | some (v, rest) => some (v, ⟨i.bytes.drop (i.visible.length - rest.length), i.lim - (i.visible.length - rest.length)⟩)
  | none => none

def In.varint32 (i : In) : Option (Nat × In) :=
  match readVarint32 i.visible with
  | some (v, rest) => some (v, ⟨i.bytes.drop (i.visible.length - rest.length), i.lim - (i.visible.length - rest.length)⟩)
  | none => none

/-- exactly `n` bytes, within the limit and the data -/
def In.take (i : In) (n : Nat) : Option (Bytes × In) :=
  if n > i.lim || n > i.bytes.length then none
  else some (i.bytes.take n, ⟨i.bytes.drop n, i.lim - n⟩)

/-- `skip_field` (coded_input_stream/mod.rs:554-568) with `skip_group` (513-529); `level` is the
recursion level (limit 100, shared with nested messages) -/
def skipField : Nat → Nat → WireType → In → Option In
  | 0, _, _, _ => none
  | _, _, .varint, i => (i.varint64).map (·.2)
  | _, _, .fixed64, i => (i.take 8).map (·.2)
  | _, _, .fixed32, i => (i.take 4).map (·.2)
  | _, _, .lengthDelimited, i =>
    match i.varint32 with
    | some (len, i') => (i'.take len).map (·.2)
    | none => none
  | _, _, .endGroup, _ => none
  | fuel + 1, level, .startGroup, i =>
    if level ≥ 100 then none
    else
      -- skip_group: until end of input or the end-group tag
      let rec loop : Nat → In → Option In
        | 0, _ => none
        | k + 1, i =>
          if i.eof then some i
          else
            match i.varint32 with
            | none => none
            | some (t, i') =>
              match unpackTag? t with
              | none => none
              | some (_, .endGroup) => some i'
              | some (_, wt) =>
                match skipField fuel (level + 1) wt i' with
                | some i'' => loop k i''
                | none => none
      loop (i.bytes.length + 1) i

/-- `rt::unknown_or_group::skip_group`, used by the generated code for an unknown START-GROUP field of a
message: unlike the stream's own `skip_group` it must find the end-group tag (end of input is an
error) and does not count as a recursion level; groups nested inside go through `skipField` -/
def skipGroupStrict (level : Nat) : Nat → In → Option In
  | 0, _ => none
  | k + 1, i =>
    match i.varint32 with
    | none => none
    | some (t, i') =>
      match unpackTag? t with
      | none => none
      | some (_, .endGroup) => some i'
      | some (_, wt) =>
        match skipField 300 level wt i' with
        | some i'' => skipGroupStrict level k i''
        | none => none

/-- `read_unknown_or_skip_group` -/
def skipUnknown (level : Nat) (wt : WireType) (i : In) : Option In :=
  match wt with
  | .startGroup => skipGroupStrict level (i.bytes.length + 1) i
  | _ => skipField 300 level wt i

/-! ### generic messages -/

inductive MsgTy where
  | nodeLabel | azksElement | siblingProof | membershipProof | nonMembershipProof
  | lookupProof | updateProof | historyProof | singleAppendOnly | appendOnly
deriving DecidableEq

inductive Kind where
  | bytes | uint32 | uint64 | msg (ty : MsgTy)
deriving DecidableEq

structure FieldSpec where
  num : Nat
  kind : Kind
  repeated : Bool

/-- `types.proto` -/
def schema : MsgTy → List FieldSpec
  | .nodeLabel => [⟨1, .bytes, false⟩, ⟨2, .uint32, false⟩]
  | .azksElement => [⟨1, .msg .nodeLabel, false⟩, ⟨2, .bytes, false⟩]
  | .siblingProof => [⟨1, .msg .nodeLabel, false⟩, ⟨2, .msg .azksElement, true⟩, ⟨3, .uint32, false⟩]
  | .membershipProof => [⟨1, .msg .nodeLabel, false⟩, ⟨2, .bytes, false⟩, ⟨3, .msg .siblingProof, true⟩]
  | .nonMembershipProof => [⟨1, .msg .nodeLabel, false⟩, ⟨2, .msg .nodeLabel, false⟩,
      ⟨3, .msg .azksElement, true⟩, ⟨4, .msg .membershipProof, false⟩]
  | .lookupProof => [⟨1, .uint64, false⟩, ⟨2, .bytes, false⟩, ⟨3, .uint64, false⟩, ⟨4, .bytes, false⟩,
      ⟨5, .msg .membershipProof, false⟩, ⟨6, .bytes, false⟩, ⟨7, .msg .membershipProof, false⟩,
      ⟨8, .bytes, false⟩, ⟨9, .msg .nonMembershipProof, false⟩, ⟨10, .bytes, false⟩]
  | .updateProof => [⟨1, .uint64, false⟩, ⟨2, .bytes, false⟩, ⟨3, .uint64, false⟩, ⟨4, .bytes, false⟩,
      ⟨5, .msg .membershipProof, false⟩, ⟨6, .bytes, false⟩, ⟨7, .msg .membershipProof, false⟩, ⟨8, .bytes, false⟩]
  | .historyProof => [⟨1, .msg .updateProof, true⟩, ⟨2, .bytes, true⟩, ⟨3, .msg .membershipProof, true⟩,
      ⟨4, .bytes, true⟩, ⟨5, .msg .nonMembershipProof, true⟩]
  | .singleAppendOnly => [⟨1, .msg .azksElement, true⟩, ⟨2, .msg .azksElement, true⟩]
  | .appendOnly => [⟨1, .msg .singleAppendOnly, true⟩, ⟨2, .uint64, true⟩]

/-- a parsed message: per known field number the values present, in order of appearance
(a singular field keeps only the last one) -/
inductive PVal where
  | bytes (bs : Bytes)
  | num (n : Nat)
  | msg (fields : List (Nat × List PVal))

abbrev PMsg := List (Nat × List PVal)

def PMsg.get (m : PMsg) (num : Nat) : List PVal :=
  match m with
  | [] => []
  | (n, vs) :: rest => if n = num then vs else PMsg.get rest num

def PMsg.put (m : PMsg) (num : Nat) (vs : List PVal) : PMsg :=
  match m with
  | [] => [(num, vs)]
  | (n, old) :: rest => if n = num then (n, vs) :: rest else (n, old) :: PMsg.put rest num vs

def findSpec (ty : MsgTy) (num : Nat) : Option FieldSpec := (schema ty).find? (fun f => f.num = num)

def wireOf : Kind → WireType
  | .bytes => .lengthDelimited | .uint32 => .varint | .uint64 => .varint | .msg _ => .lengthDelimited

/-- packed repeated `uint64` (the generated code accepts tag 18 for `AppendOnlyProof.epochs`):
`read_repeated_packed_uint64_into` reads a length, pushes a limit, reads varints until the limit -/
def readPacked : Nat → In → Option (List PVal × In)
  | 0, _ => none
  | fuel + 1, i =>
    if i.eof then some ([], i)
    else
      match i.varint64 with
      | none => none
      | some (v, i') => (readPacked fuel i').map (fun (vs, r) => (PVal.num v :: vs, r))

/-- after a limited region of declared length `len` that started at `start`: the outer stream -/
def popLimit (start : In) (len : Nat) (inner : In) : In :=
  ⟨inner.bytes, start.lim - len + inner.lim⟩

/-- the generated `merge_from` loop.  `fuel` bounds the nesting for termination; `level` is the
recursion level of `merge_message` (limit 100). -/
def parseMsg : Nat → Nat → MsgTy → In → Option (PMsg × In)
  | 0, _, _, _ => none
  | fuel + 1, level, ty, input =>
    let rec loop : Nat → In → PMsg → Option (PMsg × In)
      | 0, _, _ => none
      | k + 1, i, acc =>
        if i.eof then some (acc, i)
        else
        match i.varint32 with
        | none => none
        | some (t, rest) =>
          match unpackTag? t with
          | none => none
          | some (num, wt) =>
            let known : Option FieldSpec :=
              match findSpec ty num with
              | some f => if wireOf f.kind = wt then some f else none
              | none => none
            match known with
            | some f =>
              let value : Option (PVal × In) :=
                match f.kind with
                | .bytes =>
                  match rest.varint32 with
                  | some (len, r2) => (r2.take len).map fun (b, r3) => (PVal.bytes b, r3)
                  | none => none
                | .uint32 => (rest.varint32).map fun (v, r) => (PVal.num v, r)
                | .uint64 => (rest.varint64).map fun (v, r) => (PVal.num v, r)
                | .msg sub =>
                  -- `merge_message`: recursion check, length as varint64, `push_limit` (only an
                  -- increase over the enclosing limit is an error), nested `merge_from`, `pop_limit`
                  if level ≥ 100 then none
                  else
                  match rest.varint64 with
                  | some (len, r2) =>
                    if len > r2.lim then none
                    else
                      match parseMsg fuel (level + 1) sub ⟨r2.bytes, len⟩ with
                      | some (m, inner) => some (PVal.msg m, popLimit r2 len inner)
                      | none => none
                  | none => none
              match value with
              | none => none
              | some (v, rest') =>
                let old := acc.get num
                loop k rest' (acc.put num (if f.repeated then old ++ [v] else [v]))
            | none =>
              let skip : Option (PMsg × In) :=
                match skipUnknown level wt rest with
                | some rest' => loop k rest' acc
                | none => none
              -- packed encoding of the repeated uint64 field
              match findSpec ty num with
              | some ⟨_, .uint64, true⟩ =>
                if wt = .lengthDelimited then
                  match rest.varint64 with
                  | some (len, r2) =>
                    if len > r2.lim then none
                    else
                      match readPacked (r2.bytes.length + 1) ⟨r2.bytes, len⟩ with
                      | some (vs, inner) => loop k (popLimit r2 len inner) (acc.put num (acc.get num ++ vs))
                      | none => none
                  | none => none
                else skip
              | _ => skip
    loop (input.bytes.length + 1) input []

/-- `Message::parse_from_bytes`: no limit at the top level -/
def parseBytes (ty : MsgTy) (bs : Bytes) : Option PMsg :=
  (parseMsg 120 0 ty ⟨bs, 2 ^ 64⟩).map (·.1)

def lenDelim (body : Bytes) : Bytes := writeVarint body.length ++ body

/-- the canonical writer (`write_to_with_cached_sizes`): fields in schema order; `fuel` bounds the
nesting depth (the schema nests 6 deep) -/
def writeMsgF : Nat → MsgTy → PMsg → Bytes
  | 0, _, _ => []
  | fuel + 1, ty, m =>
    (schema ty).flatMap fun f =>
      (m.get f.num).flatMap fun v =>
        let tag := writeVarint (f.num * 8 + (match wireOf f.kind with | .varint => 0 | _ => 2))
        match v, f.kind with
        | .bytes b, .bytes => tag ++ lenDelim b
        | .num n, .uint32 => tag ++ writeVarint n
        | .num n, .uint64 => tag ++ writeVarint n
        | .msg sub, .msg sty => tag ++ lenDelim (writeMsgF fuel sty sub)
        | _, _ => []

def writeMsg (ty : MsgTy) (m : PMsg) : Bytes := writeMsgF 12 ty m

/-! ### typed layer (`proto/mod.rs`) -/

structure WLabel where
  val : Bytes      -- 32 bytes
  len : Nat
deriving DecidableEq

structure WElement where
  label : WLabel
  value : Bytes    -- 32 bytes
deriving DecidableEq

structure WSibling where
  label : WLabel
  sibling : WElement
  direction : Nat  -- 0 = left, 1 = right
deriving DecidableEq

structure WMembership where
  label : WLabel
  hashVal : Bytes
  siblings : List WSibling
deriving DecidableEq

structure WNonMembership where
  label : WLabel
  longestPrefix : WLabel
  child0 : WElement
  child1 : WElement
  mp : WMembership
deriving DecidableEq

structure WLookup where
  epoch : Nat
  value : Bytes
  version : Nat
  existenceVrf : Bytes
  existence : WMembership
  markerVrf : Bytes
  marker : WMembership
  freshnessVrf : Bytes
  freshness : WNonMembership
  nonce : Bytes
deriving DecidableEq

structure WUpdate where
  epoch : Nat
  value : Bytes
  version : Nat
  existenceVrf : Bytes
  existence : WMembership
  previousVrf : Option Bytes
  previous : Option WMembership
  nonce : Bytes
deriving DecidableEq

structure WHistory where
  updates : List WUpdate
  pastVrf : List Bytes
  past : List WMembership
  futureVrf : List Bytes
  future : List WNonMembership
deriving DecidableEq

structure WSingle where
  inserted : List WElement
  unchanged : List WElement
deriving DecidableEq

structure WAppendOnly where
  proofs : List WSingle
  epochs : List Nat
deriving DecidableEq

/-- `encode_minimum_label`: trailing zero bytes dropped -/
def minimize (v : Bytes) : Bytes := (v.reverse.dropWhile (· = 0)).reverse

/-- `decode_minimized_label`: padded with zeros to 32 bytes -/
def pad32 (v : Bytes) : Bytes := v ++ List.replicate (32 - v.length) 0

def one (v : PVal) : List PVal := [v]

def encLabel (l : WLabel) : PMsg := [(1, [.bytes (minimize l.val)]), (2, [.num l.len])]
def encElement (e : WElement) : PMsg := [(1, [.msg (encLabel e.label)]), (2, [.bytes e.value])]
def encSibling (s : WSibling) : PMsg :=
  [(1, [.msg (encLabel s.label)]), (2, [.msg (encElement s.sibling)]), (3, [.num s.direction])]
def encMembership (p : WMembership) : PMsg :=
  [(1, [.msg (encLabel p.label)]), (2, [.bytes p.hashVal]), (3, p.siblings.map fun s => .msg (encSibling s))]
def encNonMembership (p : WNonMembership) : PMsg :=
  [(1, [.msg (encLabel p.label)]), (2, [.msg (encLabel p.longestPrefix)]),
   (3, [.msg (encElement p.child0), .msg (encElement p.child1)]), (4, [.msg (encMembership p.mp)])]
def encLookup (p : WLookup) : PMsg :=
  [(1, [.num p.epoch]), (2, [.bytes p.value]), (3, [.num p.version]), (4, [.bytes p.existenceVrf]),
   (5, [.msg (encMembership p.existence)]), (6, [.bytes p.markerVrf]), (7, [.msg (encMembership p.marker)]),
   (8, [.bytes p.freshnessVrf]), (9, [.msg (encNonMembership p.freshness)]), (10, [.bytes p.nonce])]
def encUpdate (p : WUpdate) : PMsg :=
  [(1, [.num p.epoch]), (2, [.bytes p.value]), (3, [.num p.version]), (4, [.bytes p.existenceVrf]),
   (5, [.msg (encMembership p.existence)]),
   (6, match p.previousVrf with | some b => [.bytes b] | none => []),
   (7, match p.previous with | some m => [.msg (encMembership m)] | none => []),
   (8, [.bytes p.nonce])]
def encHistory (p : WHistory) : PMsg :=
  [(1, p.updates.map fun u => .msg (encUpdate u)), (2, p.pastVrf.map .bytes),
   (3, p.past.map fun m => .msg (encMembership m)), (4, p.futureVrf.map .bytes),
   (5, p.future.map fun m => .msg (encNonMembership m))]
def encSingle (p : WSingle) : PMsg :=
  [(1, p.inserted.map fun e => .msg (encElement e)), (2, p.unchanged.map fun e => .msg (encElement e))]
def encAppendOnly (p : WAppendOnly) : PMsg :=
  [(1, p.proofs.map fun s => .msg (encSingle s)), (2, p.epochs.map .num)]

/-! conversions back (`TryFrom`); `none` = `ConversionError` -/

def reqBytes (m : PMsg) (n : Nat) : Option Bytes :=
  match m.get n with | [.bytes b] => some b | _ => none
def reqNum (m : PMsg) (n : Nat) : Option Nat :=
  match m.get n with | [.num v] => some v | _ => none
def reqMsg (m : PMsg) (n : Nat) : Option PMsg :=
  match m.get n with | [.msg s] => some s | _ => none
def optBytes (m : PMsg) (n : Nat) : Option (Option Bytes) :=
  match m.get n with | [] => some none | [.bytes b] => some (some b) | _ => none

def decLabel (m : PMsg) : Option WLabel := do
  let len ← reqNum m 2
  let v ← reqBytes m 1
  if v.length > 32 then none
  else if len > 256 then none
  else some ⟨pad32 v, len⟩

def digest32 (b : Bytes) : Option Bytes := if b.length = 32 then some b else none

def decElement (m : PMsg) : Option WElement := do
  let l ← reqMsg m 1
  let v ← reqBytes m 2
  let label ← decLabel l
  let value ← digest32 v
  some ⟨label, value⟩

def msgsOf (vs : List PVal) : Option (List PMsg) :=
  vs.mapM fun v => match v with | .msg s => some s | _ => none
def bytesOf (vs : List PVal) : Option (List Bytes) :=
  vs.mapM fun v => match v with | .bytes b => some b | _ => none
def numsOf (vs : List PVal) : Option (List Nat) :=
  vs.mapM fun v => match v with | .num n => some n | _ => none

def decSibling (m : PMsg) : Option WSibling := do
  let d ← reqNum m 3
  let l ← reqMsg m 1
  let label ← decLabel l
  let sibs ← msgsOf (m.get 2)
  let first ← sibs.head?
  let dir := d &&& 0xF
  if dir > 1 then none
  else
    let s ← decElement first
    some ⟨label, s, dir⟩

def decMembership (m : PMsg) : Option WMembership := do
  let l ← reqMsg m 1
  let h ← reqBytes m 2
  let label ← decLabel l
  let hv ← digest32 h
  let sibs ← msgsOf (m.get 3)
  let siblings ← sibs.mapM decSibling
  some ⟨label, hv, siblings⟩

def decNonMembership (m : PMsg) : Option WNonMembership := do
  let l ← reqMsg m 1
  let lp ← reqMsg m 2
  let mp ← reqMsg m 4
  let label ← decLabel l
  let longestPrefix ← decLabel lp
  let mp ← decMembership mp
  let cs ← msgsOf (m.get 3)
  let children ← cs.mapM decElement
  match children with
  | [c0, c1] => some ⟨label, longestPrefix, c0, c1, mp⟩
  | _ => none

def decLookup (m : PMsg) : Option WLookup := do
  let epoch ← reqNum m 1
  let value ← reqBytes m 2
  let version ← reqNum m 3
  let ev ← reqBytes m 4
  let ep ← reqMsg m 5
  let mv ← reqBytes m 6
  let mp ← reqMsg m 7
  let fv ← reqBytes m 8
  let fp ← reqMsg m 9
  let nonce ← reqBytes m 10
  let existence ← decMembership ep
  let marker ← decMembership mp
  let freshness ← decNonMembership fp
  some ⟨epoch, value, version, ev, existence, mv, marker, fv, freshness, nonce⟩

def decUpdate (m : PMsg) : Option WUpdate := do
  let epoch ← reqNum m 1
  let value ← reqBytes m 2
  let version ← reqNum m 3
  let ev ← reqBytes m 4
  let ep ← reqMsg m 5
  let nonce ← reqBytes m 8
  let pv ← optBytes m 6
  let pp : Option WMembership ← match m.get 7 with
    | [] => some none
    | [.msg s] => (decMembership s).map some
    | _ => none
  let existence ← decMembership ep
  some ⟨epoch, value, version, ev, existence, pv, pp, nonce⟩

def decHistory (m : PMsg) : Option WHistory := do
  let ups ← msgsOf (m.get 1)
  let updates ← ups.mapM decUpdate
  let pastVrf ← bytesOf (m.get 2)
  let pm ← msgsOf (m.get 3)
  let past ← pm.mapM decMembership
  let futureVrf ← bytesOf (m.get 4)
  let fm ← msgsOf (m.get 5)
  let future ← fm.mapM decNonMembership
  some ⟨updates, pastVrf, past, futureVrf, future⟩

def decSingle (m : PMsg) : Option WSingle := do
  let i ← msgsOf (m.get 1)
  let inserted ← i.mapM decElement
  let u ← msgsOf (m.get 2)
  let unchanged ← u.mapM decElement
  some ⟨inserted, unchanged⟩

def decAppendOnly (m : PMsg) : Option WAppendOnly := do
  let ps ← msgsOf (m.get 1)
  let proofs ← ps.mapM decSingle
  let epochs ← numsOf (m.get 2)
  some ⟨proofs, epochs⟩

/-- bytes → typed value → canonical bytes (what `pb.dec` observes); the outer `Option` is the
parser, the inner one the conversion -/
def roundtripBytes (ty : MsgTy) (bs : Bytes) : Option (Option Bytes) :=
  match parseBytes ty bs with
  | none => none
  | some m =>
    some (match ty with
      | .nodeLabel => (decLabel m).map fun x => writeMsg ty (encLabel x)
      | .azksElement => (decElement m).map fun x => writeMsg ty (encElement x)
      | .siblingProof => (decSibling m).map fun x => writeMsg ty (encSibling x)
      | .membershipProof => (decMembership m).map fun x => writeMsg ty (encMembership x)
      | .nonMembershipProof => (decNonMembership m).map fun x => writeMsg ty (encNonMembership x)
      | .lookupProof => (decLookup m).map fun x => writeMsg ty (encLookup x)
      | .updateProof => (decUpdate m).map fun x => writeMsg ty (encUpdate x)
      | .historyProof => (decHistory m).map fun x => writeMsg ty (encHistory x)
      | .singleAppendOnly => (decSingle m).map fun x => writeMsg ty (encSingle x)
      | .appendOnly => (decAppendOnly m).map fun x => writeMsg ty (encAppendOnly x))

def tyOfName? : String → Option MsgTy
  | "label" => some .nodeLabel | "element" => some .azksElement | "sibling" => some .siblingProof
  | "membership" => some .membershipProof | "nonmembership" => some .nonMembershipProof
  | "lookup" => some .lookupProof | "update" => some .updateProof | "history" => some .historyProof
  | "single" => some .singleAppendOnly | "appendonly" => some .appendOnly
  | _ => none

end Akd.Proto
