/-
L0 — marker versions.  Mirrors `akd_core/src/utils.rs:15-193` statement by
statement.  `u64` is `Nat`; `x & !m` with `m = 2^(i+1)-1` is written
`(x >>> (i+1)) <<< (i+1)` (same value on `u64`, checked by the correspondence
run over the whole `u64` range).  `none` stands for a Rust panic.
-/
namespace Akd.Marker

/-- `MARKER_VERSION_SKIPLIST` (utils.rs:15). -/
def skiplist : List Nat := [1, 2, 4, 16, 256, 65536, 4294967296]

/-- `get_marker_version_log2` (utils.rs:26-32); panics on 0. -/
def log2? (v : Nat) : Option Nat := if v = 0 then none else some (Nat.log2 v)

/-- `get_bit_length` (utils.rs:35-41): `64 - leading_zeros`. -/
def bitLength (v : Nat) : Nat := if v = 0 then 0 else Nat.log2 v + 1

/-- `find_max_index_in_skiplist` (utils.rs:181-193); panics below the first element. -/
def findMaxIndex? (x : Nat) : Option Nat :=
  if x < 1 then none else some ((skiplist.takeWhile (· ≤ x)).length - 1)

/-- push unless equal to the last pushed element (the `is_empty() || != last` guards). -/
def pushDedup (acc : List Nat) (v : Nat) : List Nat :=
  match acc.getLast? with
  | some l => if v ≠ l then acc ++ [v] else acc
  | none => acc ++ [v]

/-- utils.rs:104-132. -/
def past? (start : Nat) : Option (List Nat) := do
  let idx ← findMaxIndex? start
  let sk := skiplist.getD idx 0
  let p0 : List Nat := if sk ≠ start then [sk] else []
  let l ← log2? start
  let p2 := 1 <<< l
  let p1 := if p2 ≠ start then pushDedup p0 p2 else p0
  let n := bitLength start
  -- for i in (0..n).rev()
  pure <| (List.range n).reverse.foldl (fun acc i =>
    let shift := 1 <<< i
    if start &&& shift ≠ 0 then
      let pv := (start >>> (i + 1)) <<< (i + 1)
      if pv ≠ 0 then pushDedup acc pv else acc
    else acc) p1

/-- utils.rs:135-149: the zero-bit fills, low bit first. -/
def futureFills (endV epoch : Nat) : List Nat :=
  let n := bitLength endV
  ((List.range n).foldl (fun (st : Nat × List Nat) i =>
    let shift := 1 <<< i
    if endV &&& shift = 0 then
      let fv := ((st.1 ||| shift) >>> i) <<< i
      (fv, if fv ≤ epoch then st.2 ++ [fv] else st.2)
    else st) (endV, [])).2

/-- utils.rs:157-164: powers of two from `next` to `final`, stopping at the slice head. -/
def futurePowers (slice : List Nat) (next final : Nat) : List Nat :=
  ((List.range (final + 1 - next)).foldl (fun (st : Bool × List Nat) k =>
    if st.1 then st else
      let v := 1 <<< (next + k)
      match slice.head? with
      | some h => if v ≥ h then (true, st.2) else (false, st.2 ++ [v])
      | none => (false, st.2 ++ [v])) (false, [])).2

/-- utils.rs:135-165. The slice expression panics when its start exceeds its end. -/
def future? (endV epoch : Nat) : Option (List Nat) := do
  let fills := futureFills endV epoch
  let ei ← findMaxIndex? endV
  let pi ← findMaxIndex? epoch
  if ei > pi then none
  let slice := (skiplist.drop (ei + 1)).take (pi - ei)
  let l ← log2? endV
  let f ← log2? epoch
  pure (fills ++ futurePowers slice (l + 1) f ++ slice)

/-- `get_marker_versions` (utils.rs:98-168). -/
def markers? (start endV epoch : Nat) : Option (List Nat × List Nat) := do
  let p ← past? start
  let f ← future? endV epoch
  pure (p, f)

end Akd.Marker
