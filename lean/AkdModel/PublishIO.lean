/-
L5 — `Directory::publish` (directory.rs:104-265) as a program over the storage manager,
with the tree insertion abstracted to an ARBITRARY sequence of reads and writes.
`faultAt = some k` makes the k-th database-touching step of the run fail.
-/
import AkdModel.Store
namespace Akd.Store

/-- what the insertion and the surrounding code may do to storage -/
inductive IOp where
  | get (k : Key)
  | batchGet (ks : List Key)
  | set (r : Rec)
  | userVersions (us : List Nat) (f : Flag)

def IOp.toOp (fail : Bool) : IOp → Op
  | .get k => .get k fail
  | .batchGet ks => .batchGet ks fail
  | .set r => .set r fail
  | .userVersions us f => .userVersions us f fail

structure PublishProg where
  /-- reads before the transaction: the epoch record, the user versions (directory.rs:120-139) -/
  pre : List IOp
  /-- the insertion: any reads and writes, inside the transaction (directory.rs:224-238) -/
  ins : List IOp
  /-- the epoch record and the new value states (directory.rs:241-245) -/
  final : List Rec
  /-- the root node key read for the returned root hash -/
  rootKey : Key

/-- run ops until one errs; `n` counts database-touching steps so far.  Returns the state, the new
counter and whether an error occurred. -/
def runIOps (p : Params) (faultAt : Option Nat) : State → Nat → List IOp → State × Nat × Bool
  | s, n, [] => (s, n, false)
  | s, n, o :: rest =>
    let fail := faultAt = some n
    let (s', obs) := step p s (o.toOp fail)
    if obs = .err then (s', n + 1, true) else runIOps p faultAt s' (n + 1) rest

inductive Outcome where
  | ok | err | refused
deriving DecidableEq

/-- `publish` with the root hash computed from the transaction before committing
(repaired order, fix D9). -/
def publishIO (p : Params) (s : State) (g : PublishProg) (faultAt : Option Nat) : State × Outcome :=
  let (s, n, e) := runIOps p faultAt s 0 g.pre
  if e then (s, .err)
  else
    let (s, started) := s.begin
    if started ≠ .bool true then (s, .refused)
    else
      let (s, n, e) := runIOps p faultAt s n g.ins
      if e then ((s.rollback).1, .err)
      else
        let (s, _) := s.batchSet p g.final false
        -- root hash, still inside the transaction
        let (s, obs) := s.get g.rootKey (faultAt = some n)
        if obs = .err then ((s.rollback).1, .err)
        else
          let (s, obs) := s.commit p (faultAt = some (n + 1))
          if obs = .err then ((s.rollback).1, .err) else (s, .ok)

/-- the order at the pinned commit: commit first, then read the root (defect D9) -/
def publishIOLegacy (p : Params) (s : State) (g : PublishProg) (faultAt : Option Nat) : State × Outcome :=
  let (s, n, e) := runIOps p faultAt s 0 g.pre
  if e then (s, .err)
  else
    let (s, started) := s.begin
    if started ≠ .bool true then (s, .refused)
    else
      let (s, n, e) := runIOps p faultAt s n g.ins
      if e then ((s.rollback).1, .err)
      else
        let (s, _) := s.batchSet p g.final false
        let (s, obs) := s.commit p (faultAt = some n)
        if obs = .err then ((s.rollback).1, .err)
        else
          let (s, obs) := s.get g.rootKey (faultAt = some (n + 1))
          if obs = .err then (s, .err) else (s, .ok)

end Akd.Store
