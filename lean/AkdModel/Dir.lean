/-
L4 — the directory: publish / lookup / key history / audit (generation side).
Mirrors `akd/src/directory.rs:104-848` over the node store of `Rec.lean`/`Insert.lean`
and a value-state table (`storage/memory.rs:183-277`).
The VRF is an oracle table filled by the harness from the real `HardCodedAkdVRF`.
-/
import AkdModel.Insert
import AkdModel.Marker
namespace Akd

abbrev Bytes := List UInt8

/-- `ValueState` (storage/types.rs). -/
structure ValueState where
  username : Bytes
  epoch : Nat
  version : Nat
  label : NodeLabel
  value : Bytes
deriving DecidableEq

/-- the VRF contract: a proof is identified by the input it was honestly generated for
(completeness + unique output); `none` stands for bytes that are no honest proof -/
structure VrfClaim where
  username : Bytes
  fresh : Bool
  version : Nat
deriving DecidableEq

abbrev VrfProof := Option VrfClaim

/-- oracle entries `(username, fresh, version) ↦ node label` -/
abbrev VrfTable := List (VrfClaim × NodeLabel)

def VrfTable.get? (t : VrfTable) (k : VrfClaim) : Option NodeLabel :=
  match t with
  | [] => none
  | (k', l) :: rest => if k' = k then some l else VrfTable.get? rest k

structure LookupProof where
  epoch : Nat
  value : Bytes
  version : Nat
  existenceVrf : VrfProof
  existence : MembershipProof
  markerVrf : VrfProof
  marker : MembershipProof
  freshnessVrf : VrfProof
  freshness : NonMembershipProof
  commitmentNonce : Dig

structure UpdateProof where
  epoch : Nat
  value : Bytes
  version : Nat
  existenceVrf : VrfProof
  existence : MembershipProof
  previousVrf : Option VrfProof
  previous : Option MembershipProof
  commitmentNonce : Dig

structure HistoryProof where
  updates : List UpdateProof
  pastVrf : List VrfProof
  past : List MembershipProof
  futureVrf : List VrfProof
  future : List NonMembershipProof

inductive HistoryParams where
  | complete
  | mostRecent (n : Nat)

/-- everything a directory instance reads: it has no other state (`Directory` is stateless,
directory.rs:68-97) -/
structure Dir where
  nodes : NodeStore := {}
  azks : Option Azks := none
  states : List ValueState := []      -- keyed by (username, epoch)
  vrf : VrfTable := []
  commitmentKey : Dig := .raw []

inductive DErr where
  | duplicate | notFound | txnActive | invalidEpoch | invalidVersion | vrfMissing | tree (e : Err) | panic

namespace Dir

def setState (ss : List ValueState) (v : ValueState) : List ValueState :=
  match ss with
  | [] => [v]
  | s :: rest => if s.username = v.username ∧ s.epoch = v.epoch then v :: rest else s :: setState rest v

/-- `get_user_state(.., LeqEpoch(e))` (memory.rs:208-260): the state with the largest epoch `≤ e` -/
def stateLeq (d : Dir) (u : Bytes) (e : Nat) : Option ValueState :=
  (d.states.filter (fun s => s.username = u ∧ s.epoch ≤ e)).foldl
    (fun acc s => match acc with
      | none => some s
      | some a => if s.epoch > a.epoch then some s else some a) none

def vrfLabel (d : Dir) (u : Bytes) (fresh : Bool) (ver : Nat) : Except DErr NodeLabel :=
  match d.vrf.get? ⟨u, fresh, ver⟩ with
  | some l => .ok l
  | none => .error .vrfMissing

/-- `Directory::new` (directory.rs:72-97): create the tree if storage has none -/
def init (c : Cfg) (d : Dir) : Except DErr Dir :=
  match d.azks with
  | some _ => .ok d
  | none =>
    match d.nodes.azksNew c with
    | .ok (ns, a) => .ok { d with nodes := ns, azks := some a }
    | .error e => .error (.tree e)

def liftT {α} : Except Err α → Except DErr α
  | .ok a => .ok a
  | .error e => .error (.tree e)

/-- the `(label, value)` elements and value states a batch gives rise to (directory.rs:147-207) -/
def deriveUpdates (c : Cfg) (d : Dir) (cur : Nat) :
    List (Bytes × Bytes) → Except DErr (List (NodeLabel × Dig) × List ValueState)
  | [] => .ok ([], [])
  | (u, v) :: rest => do
    let (els, sts) ← deriveUpdates c d cur rest
    match d.stateLeq u cur with
    | none =>
      let l ← d.vrfLabel u true 1
      pure ((l, c.commit v (c.nonce d.commitmentKey l 1 v)) :: els, ⟨u, cur + 1, 1, l, v⟩ :: sts)
    | some st =>
      if st.value = v then pure (els, sts)
      else
        let ls ← d.vrfLabel u false st.version
        let lf ← d.vrfLabel u true (st.version + 1)
        pure ((ls, c.staleValue) :: (lf, c.commit v (c.nonce d.commitmentKey lf (st.version + 1) v)) :: els,
              ⟨u, cur + 1, st.version + 1, lf, v⟩ :: sts)

/-- `publish` (directory.rs:104-265).  Returns the new state and `(epoch, root hash)`. -/
def publish (c : Cfg) (d : Dir) (updates : List (Bytes × Bytes)) : Except DErr (Dir × Nat × Dig) := do
  if (updates.map (·.1)).eraseDups.length ≠ updates.length then throw .duplicate
  let some azks := d.azks | throw .notFound
  let cur := azks.latestEpoch
  let (els, sts) ← deriveUpdates c d cur updates
  if els.isEmpty then
    let h ← liftT (d.nodes.rootHash c azks)
    return (d, cur, h)
  if d.nodes.inTxn then throw .txnActive
  let ns := d.nodes.begin
  let (ns, azks') ← liftT (ns.batchInsert c .directory azks els)
  let ns := ns.commit
  let d' := { d with nodes := ns, azks := some azks', states := sts.foldl setState d.states }
  let h ← liftT (ns.rootHash c azks')
  if azks'.latestEpoch ≠ cur + 1 then throw .invalidEpoch
  return (d', cur + 1, h)

/-- `get_marker_version` / `1 << log2(version)` (directory.rs:420, 951-953) -/
def markerVersion (v : Nat) : Nat := 1 <<< Nat.log2 v

/-- `lookup` (directory.rs:274-368). -/
def lookup (c : Cfg) (d : Dir) (u : Bytes) : Except DErr (LookupProof × Nat × Dig) := do
  let some azks := d.azks | throw .notFound
  let cur := azks.latestEpoch
  let some st := d.stateLeq u cur | throw .notFound
  let ver := st.version
  let mv := markerVersion ver
  let le ← d.vrfLabel u true ver
  let lm ← d.vrfLabel u true mv
  let ln ← d.vrfLabel u false ver
  let h ← liftT (d.nodes.rootHash c azks)
  let pe ← liftT (d.nodes.membershipProof c azks le)
  let pm ← liftT (d.nodes.membershipProof c azks lm)
  let pn ← liftT (d.nodes.nonMembershipProof c azks ln)
  return (⟨st.epoch, st.value, ver, some ⟨u, true, ver⟩, pe, some ⟨u, true, mv⟩, pm,
           some ⟨u, false, ver⟩, pn, c.nonce d.commitmentKey le ver st.value⟩, cur, h)

/-- `create_single_update_proof` (directory.rs:772-831) -/
def updateProof (c : Cfg) (d : Dir) (azks : Azks) (u : Bytes) (st : ValueState) : Except DErr UpdateProof := do
  let ver := st.version
  let le ← d.vrfLabel u true ver
  let pe ← liftT (d.nodes.membershipProof c azks le)
  let (pv, pp) ← if ver > 1 then do
      let lp ← d.vrfLabel u false (ver - 1)
      let p ← liftT (d.nodes.membershipProof c azks lp)
      pure (some (some ⟨u, false, ver - 1⟩ : VrfProof), some p)
    else pure (none, none)
  return ⟨st.epoch, st.value, ver, some ⟨u, true, ver⟩, pe, pv, pp, c.nonce d.commitmentKey le ver st.value⟩

def insertDesc (s : ValueState) : List ValueState → List ValueState
  | [] => [s]
  | x :: xs => if s.epoch > x.epoch then s :: x :: xs else x :: insertDesc s xs

/-- `key_history` (directory.rs:474-622). -/
def keyHistory (c : Cfg) (d : Dir) (u : Bytes) (p : HistoryParams) : Except DErr (HistoryProof × Nat × Dig) := do
  let some azks := d.azks | throw .notFound
  let cur := azks.latestEpoch
  let all := d.states.filter (fun s => s.username = u)
  if all.isEmpty then throw .notFound
  let data := (all.filter (fun s => s.epoch ≤ cur)).foldr insertDesc []
  let data := match p with
    | .complete => data
    | .mostRecent n => data.take n
  let some first := data.head? | throw .notFound
  let startV := data.foldl (fun a s => min a s.version) first.version
  let endV := data.foldl (fun a s => max a s.version) first.version
  if startV = 0 || endV = 0 then throw .invalidVersion
  let some (past, future) := Marker.markers? startV endV cur | throw .panic
  let ups ← data.mapM (updateProof c d azks u)
  let pastP ← past.mapM (fun v => do
    let l ← d.vrfLabel u true v
    liftT (d.nodes.membershipProof c azks l))
  let futP ← future.mapM (fun v => do
    let l ← d.vrfLabel u true v
    liftT (d.nodes.nonMembershipProof c azks l))
  let h ← liftT (d.nodes.rootHash c azks)
  return (⟨ups, past.map (fun v => some ⟨u, true, v⟩), pastP,
           future.map (fun v => some ⟨u, true, v⟩), futP⟩, cur, h)

/-- `audit` (directory.rs:691-730). -/
def audit (c : Cfg) (d : Dir) (s e : Nat) : Except DErr NodeStore.AppendOnlyProof := do
  let some azks := d.azks | throw .notFound
  if s ≥ e then throw .invalidEpoch
  if azks.latestEpoch < e then throw .invalidEpoch
  liftT (d.nodes.appendOnlyProof c azks s e)

/-- `get_epoch_hash` (directory.rs:835-840). -/
def epochHash (c : Cfg) (d : Dir) : Except DErr (Nat × Dig) := do
  let some azks := d.azks | throw .notFound
  let h ← liftT (d.nodes.rootHash c azks)
  return (azks.latestEpoch, h)

/-- `tombstone_value_states` (manager/mod.rs:421-447). -/
def tombstone (d : Dir) (u : Bytes) (e : Nat) : Except DErr Dir :=
  if (d.states.filter (fun s => s.username = u)).isEmpty then .error .notFound
  else .ok { d with states := d.states.map (fun s =>
    if s.username = u ∧ s.epoch ≤ e ∧ s.value ≠ [] then { s with value := [] } else s) }

end Dir
end Akd
