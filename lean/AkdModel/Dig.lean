/-
L1 — symbolic digests.  One constructor per preimage *shape* the code hashes;
two digests are equal iff the terms are equal (collision-freeness made explicit,
DESIGN §3).  The byte layout of each shape lives in the harness evaluator
(`harness/src/eval.rs`), which computes every term with the real `TC::hash` and
compares with what the implementation produced.
-/
import AkdModel.Label
namespace Akd

inductive Dig where
  /-- literal bytes (e.g. the all-zero digest, or bytes chosen by an adversary) -/
  | raw (bs : List UInt8)
  /-- `H(bs)` -/
  | hBytes (bs : List UInt8)
  /-- `H(commit ‖ epoch_be8)` — `hash_leaf_with_commitment` -/
  | hLeaf (commit : Dig) (ep : Nat)
  /-- `H(a ‖ b)` -/
  | hCat (a b : Dig)
  /-- `H(v ‖ H(len_be4 ‖ val))` — a value bound to a hashed label (whatsapp_v1) -/
  | hValLbl (v : Dig) (l : NodeLabel)
  /-- `H(lv ‖ len_be4 ‖ val ‖ rv ‖ len_be4 ‖ val)` — parent hash (experimental) -/
  | hNode (lv : Dig) (ll : NodeLabel) (rv : Dig) (rl : NodeLabel)
  /-- `H(i2osp(value) ‖ i2osp(nonce))` — value commitment -/
  | hCommit (value : List UInt8) (nonce : Dig)
  /-- `H(key ‖ label_bytes ‖ version_be8 ‖ i2osp(value))` — nonce (whatsapp_v1) -/
  | hNonceW (key : Dig) (lbl : NodeLabel) (ver : Nat) (value : List UInt8)
  /-- `H(key ‖ label_bytes)` — nonce (experimental) -/
  | hNonceE (key : Dig) (lbl : NodeLabel)
deriving DecidableEq

instance : Inhabited Dig := ⟨.raw []⟩

def zeros32 : List UInt8 := List.replicate 32 0

end Akd
