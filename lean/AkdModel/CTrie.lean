/-
L2 (spec side) — the canonical compressed binary trie over a set of leaves,
on bit strings, written independently of the batch-insertion algorithm:
leaves are inserted one at a time by structural recursion.  `Thm/C01.lean`
shows the result does not depend on the order (`wf_unique`), so "the canonical
trie over a leaf set" is well defined.  Also: digests, and honest generation of
(non-)membership proofs (mirrors `append_only_zks.rs:803-869,1240-1315`).
-/
import AkdModel.Bits
import AkdModel.Proofs
namespace Akd

/-- mixes the leaf epoch into leaf digests or not (`NodeHashingMode`, tree_node.rs:484-515) -/
inductive HashMode where
  | withLeafEpoch | noLeafEpoch
deriving DecidableEq

structure Leaf where
  lbl : BitStr
  value : Dig      -- the un-epoched value stored in the leaf node (`TreeNode.hash`)
  ep : Nat         -- `last_epoch` of the leaf
deriving DecidableEq

inductive CTree where
  | leaf (lbl : BitStr) (value : Dig) (ep : Nat)
  | node (lbl : BitStr) (l r : CTree)
deriving DecidableEq

namespace CTree

def lbl : CTree → BitStr
  | leaf q _ _ => q
  | node q _ _ => q

def leaves : CTree → List Leaf
  | leaf q v e => [⟨q, v, e⟩]
  | node _ l r => l.leaves ++ r.leaves

/-- the value a parent hashes for this child (`node_to_azks_value`, tree_node.rs:499-515);
for an interior node it is its stored hash, recomputed from its children
(`update_hash`, tree_node.rs:380-410). -/
def azks (c : Cfg) (m : HashMode) : CTree → Dig
  | leaf _ v e => match m with
    | .withLeafEpoch => c.leafHash v e
    | .noLeafEpoch => v
  | node _ l r =>
    c.parentHash (l.azks c m) (NodeLabel.ofBits l.lbl) (r.azks c m) (NodeLabel.ofBits r.lbl)

/-- every interior label is a proper prefix of its children's labels, which continue with
0 on the left and 1 on the right -/
def WF : CTree → Prop
  | leaf _ _ _ => True
  | node q l r => (q ++ [false]) <+: l.lbl ∧ (q ++ [true]) <+: r.lbl ∧ l.WF ∧ r.WF

/-- a new two-child node at `p`, a proper common prefix of `a.lbl` and `b.lbl`;
`b` goes to the side of its next bit -/
def split (p : BitStr) (a b : CTree) : CTree :=
  match b.lbl[p.length]? with
  | some true => node p a b
  | _ => node p b a

/-- insert one leaf; a label that is already present, or that is a prefix / an extension of a
present leaf label, violates prefix-freeness and leaves the tree unchanged -/
def insert1 (x : Leaf) : CTree → CTree
  | leaf q v e =>
    let p := BitStr.commonPrefix q x.lbl
    if p.length < q.length ∧ p.length < x.lbl.length then split p (leaf q v e) (leaf x.lbl x.value x.ep)
    else leaf q v e
  | node q l r =>
    let p := BitStr.commonPrefix q x.lbl
    if p.length < q.length then
      if p.length < x.lbl.length then split p (node q l r) (leaf x.lbl x.value x.ep) else node q l r
    else
      match x.lbl[q.length]? with
      | some false => node q (l.insert1 x) r
      | some true => node q l (r.insert1 x)
      | none => node q l r

end CTree

/-- the root: label `[]`, zero, one or two children -/
structure CRoot where
  l : Option CTree
  r : Option CTree
deriving DecidableEq

namespace CRoot

def empty : CRoot := ⟨none, none⟩

def leaves (t : CRoot) : List Leaf :=
  (t.l.map CTree.leaves).getD [] ++ (t.r.map CTree.leaves).getD []

def WF (t : CRoot) : Prop :=
  (∀ a, t.l = some a → [false] <+: a.lbl ∧ a.WF) ∧ (∀ b, t.r = some b → [true] <+: b.lbl ∧ b.WF)

def insert1 (t : CRoot) (x : Leaf) : CRoot :=
  match x.lbl with
  | [] => t
  | false :: _ => ⟨some (match t.l with | none => .leaf x.lbl x.value x.ep | some a => a.insert1 x), t.r⟩
  | true :: _ => ⟨t.l, some (match t.r with | none => .leaf x.lbl x.value x.ep | some b => b.insert1 x)⟩

def ofLeaves (xs : List Leaf) : CRoot := xs.foldl insert1 empty

def childValue (c : Cfg) (m : HashMode) : Option CTree → Dig
  | none => c.emptyNodeHash
  | some t => t.azks c m

def childLabel (c : Cfg) : Option CTree → NodeLabel
  | none => c.emptyLabel
  | some t => NodeLabel.ofBits t.lbl

/-- the root node's stored hash: `empty_root_value` until the first insertion
(tree_node.rs:518-529), then the parent hash of its two child slots -/
def value (c : Cfg) (m : HashMode) (t : CRoot) : Dig :=
  match t.l, t.r with
  | none, none => c.emptyRootValue
  | l, r => c.parentHash (childValue c m l) (childLabel c l) (childValue c m r) (childLabel c r)

/-- the published root hash (`get_root_hash`, append_only_zks.rs:1192-1208) -/
def rootHash (c : Cfg) (t : CRoot) : Dig := c.rootHash (t.value c .withLeafEpoch)

end CRoot

/-! ### honest proof generation on the canonical trie -/

namespace CTree

def element (c : Cfg) (t : CTree) : AzksElement := ⟨NodeLabel.ofBits t.lbl, t.azks c .withLeafEpoch⟩

/-- from a node whose label is a prefix of (or equal to) `x`: the deepest such node on the way
to `x`, with the sibling proofs collected on the way down (top first) -/
def path (c : Cfg) (x : BitStr) : CTree → CTree × List SiblingProof
  | leaf q v e => (leaf q v e, [])
  | node q l r =>
    match x[q.length]? with
    | none => (node q l r, [])
    | some false =>
      if BitStr.isPrefix l.lbl x then
        let (d, sps) := l.path c x
        (d, ⟨NodeLabel.ofBits q, r.element c, .left⟩ :: sps)
      else (node q l r, [])
    | some true =>
      if BitStr.isPrefix r.lbl x then
        let (d, sps) := r.path c x
        (d, ⟨NodeLabel.ofBits q, l.element c, .right⟩ :: sps)
      else (node q l r, [])

end CTree

namespace CRoot

def element (c : Cfg) (o : Option CTree) : AzksElement := ⟨childLabel c o, childValue c .withLeafEpoch o⟩

/-- result of the walk of `get_lcp_node_label_with_membership_proof`:
the node reached (`none` = the root itself) and the sibling proofs -/
def path (c : Cfg) (t : CRoot) (x : BitStr) : Option CTree × List SiblingProof :=
  match x with
  | [] => (none, [])
  | b :: _ =>
    let (ch, sib, dir) := if b then (t.r, t.l, Direction.right) else (t.l, t.r, Direction.left)
    match ch with
    | none => (none, [])
    | some a =>
      if BitStr.isPrefix a.lbl x then
        let (d, sps) := a.path c x
        (some d, ⟨NodeLabel.root, element c sib, dir⟩ :: sps)
      else (none, [])

/-- `get_lcp_node_label_with_membership_proof` (append_only_zks.rs:1240-1315) -/
def lcpProof (c : Cfg) (t : CRoot) (x : BitStr) : MembershipProof :=
  match t.path c x with
  | (none, sps) => ⟨NodeLabel.root, t.value c .withLeafEpoch, sps⟩
  | (some d, sps) => ⟨NodeLabel.ofBits d.lbl, d.azks c .withLeafEpoch, sps⟩

/-- `get_membership_proof` (append_only_zks.rs:803-812) -/
def genMembership (c : Cfg) (t : CRoot) (x : BitStr) : MembershipProof := lcpProof c t x

/-- `get_non_membership_proof` (append_only_zks.rs:818-869) -/
def genNonMembership (c : Cfg) (t : CRoot) (x : BitStr) : NonMembershipProof :=
  let mp := lcpProof c t x
  let (c0, c1) : AzksElement × AzksElement :=
    match (t.path c x).1 with
    | none => (element c t.l, element c t.r)
    | some (.node _ l r) => (l.element c, r.element c)
    | some (.leaf _ _ _) => (element c none, element c none)
  ⟨NodeLabel.ofBits x, mp.label, c0, c1, mp⟩

end CRoot

end Akd
