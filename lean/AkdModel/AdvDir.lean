/-
The symbolic adversary at directory level (C06, C07): a server that holds the key and the tree
assembles lookup / history proofs.  Each edit is mirrored by the harness on the real structures.
-/
import AkdModel.Dir
import AkdModel.Adv
import AkdModel.Wire
namespace Akd.AdvDir
open Akd Akd.Wire

inductive LookupEdit where
  /-- serve stored version `v` instead of the latest one: all three sub-proofs, value, epoch and nonce
  regenerated for that version, exactly as `lookup_with_info` would for that state -/
  | version (v : Nat)
  /-- replace the freshness proof by a non-membership proof anchored at the k-th ancestor on the
  path to the stale label -/
  | freshAnchor (k : Nat)
  | value (v : Bytes) | epoch (e : Nat) | versionField (v : Nat) | nonceZero
  /-- sibling-less proofs carrying the root value (defect D8) -/
  | markerRootProof | existRootProof
  /-- alterations of the existence VRF proof BYTES: any flipped / zeroed / incremented byte or a
  truncation gives bytes that are no honest proof; `s + ℓ` re-encodes the same proof; `other` is the
  honest proof for another input -/
  | exVrfGarbage | exVrfSPlus | exVrfOther (u : Bytes) (fresh : Bool) (v : Nat)
  | frVrfGarbage | mkVrfGarbage
  /-- sub-proofs taken from another label's honest lookup proof -/
  | swapExist (u : Bytes) | swapMarker (u : Bytes) | swapFresh (u : Bytes)
  /-- the claimed node label altered in its LENGTH only: the freshness proof replaced by the honest
  non-membership proof of the label with the same 32 bytes and length `n` (really absent from the tree when
  `n ≠ 256`); existence / marker proofs with the length field of their label rewritten -/
  | freshLen (n : Nat) | existLen (n : Nat) | markerLen (n : Nat)
  /-- material taken from ANOTHER EPOCH's tree: the honest lookup proof the directory served for this label at epoch
  `ep` — whole (`part = 0`), or only its existence (1), marker (2) or freshness (3) part spliced into the current proof -/
  | old (part : Nat) (ep : Nat)

def parseLookupEdit? (tok : String) : Option LookupEdit :=
  match tok.splitOn ":" with
  | ["version", v] => v.toNat?.map .version
  | ["fresh.anchor", k] => k.toNat?.map .freshAnchor
  | ["value", v] => (parseHex? v).map .value
  | ["epoch", e] => e.toNat?.map .epoch
  | ["vfield", v] => v.toNat?.map .versionField
  | ["nonce.zero"] => some .nonceZero
  | ["marker.rootproof"] => some .markerRootProof
  | ["exist.rootproof"] => some .existRootProof
  | ["exvrf.flip", _] => some .exVrfGarbage
  | ["exvrf.zero", _] => some .exVrfGarbage
  | ["exvrf.inc", _] => some .exVrfGarbage
  | ["exvrf.trunc"] => some .exVrfGarbage
  | ["exvrf.splus"] => some .exVrfSPlus
  | ["exvrf.other", u, f, v] => do
    let u ← parseHex? u
    let f ← if f == "F" then some true else if f == "S" then some false else none
    pure (.exVrfOther u f (← v.toNat?))
  | ["frvrf.flip", _] => some .frVrfGarbage
  | ["mkvrf.flip", _] => some .mkVrfGarbage
  | ["swap.exist", u] => (parseHex? u).map .swapExist
  | ["swap.marker", u] => (parseHex? u).map .swapMarker
  | ["swap.fresh", u] => (parseHex? u).map .swapFresh
  | ["fresh.len", n] => n.toNat?.map .freshLen
  | ["exist.len", n] => n.toNat?.map .existLen
  | ["marker.len", n] => n.toNat?.map .markerLen
  | ["old.full", e] => e.toNat?.map (.old 0)
  | ["old.exist", e] => e.toNat?.map (.old 1)
  | ["old.marker", e] => e.toNat?.map (.old 2)
  | ["old.fresh", e] => e.toNat?.map (.old 3)
  | _ => none

def stateOfVersion (d : Dir) (u : Bytes) (v : Nat) : Option ValueState :=
  d.states.find? (fun s => s.username = u ∧ s.version = v)

def rootValue (d : Dir) : Dig :=
  match d.azks with
  | some a => match d.nodes.getNode NodeLabel.root a.latestEpoch with
    | .ok r => r.hash
    | .error _ => .raw []
  | none => .raw []

/-- the lookup proof a server would produce for stored state `st` (`lookup_with_info`, directory.rs:302-368) -/
def lookupFor (c : Cfg) (d : Dir) (u : Bytes) (st : ValueState) : Except DErr LookupProof := do
  let some azks := d.azks | throw .notFound
  let ver := st.version
  let mv := Dir.markerVersion ver
  let le ← d.vrfLabel u true ver
  let lm ← d.vrfLabel u true mv
  let ln ← d.vrfLabel u false ver
  let pe ← Dir.liftT (d.nodes.membershipProof c azks le)
  let pm ← Dir.liftT (d.nodes.membershipProof c azks lm)
  let pn ← Dir.liftT (d.nodes.nonMembershipProof c azks ln)
  return ⟨st.epoch, st.value, ver, some ⟨u, true, ver⟩, pe, some ⟨u, true, mv⟩, pm,
          some ⟨u, false, ver⟩, pn, c.nonce d.commitmentKey le ver st.value⟩

/-- non-membership "proof" for `label` anchored at the k-th ancestor on the path to it -/
def anchoredAt (c : Cfg) (d : Dir) (label : NodeLabel) (k : Nat) : Except DErr NonMembershipProof := do
  let some azks := d.azks | throw .notFound
  let mp ← Dir.liftT (d.nodes.membershipProof c azks label)
  match mp.siblingProofs[k]? with
  | none => throw .notFound
  | some sp =>
    let np ← Dir.liftT (d.nodes.nonMembershipProof c azks sp.label)
    return { np with label := label }

/-- the honest non-membership proof of the label with the bytes of `label` and length `n` -/
def absentWithLen (c : Cfg) (d : Dir) (label : NodeLabel) (n : Nat) : Except DErr NonMembershipProof := do
  let some azks := d.azks | throw .notFound
  Dir.liftT (d.nodes.nonMembershipProof c azks ⟨label.val, n⟩)

def applyLookup (c : Cfg) (d : Dir) (u : Bytes) (p : LookupProof) (snaps : List (Nat × Dir) := []) :
    LookupEdit → Except DErr LookupProof
  | .old part ep =>
    match snaps.find? (fun x => x.1 = ep) with
    | none => .error .notFound
    | some (_, dOld) => do
      let (q, _, _) ← dOld.lookup c u
      match part with
      | 0 => return q
      | 1 => return { p with existence := q.existence, existenceVrf := q.existenceVrf }
      | 2 => return { p with marker := q.marker, markerVrf := q.markerVrf }
      | _ => return { p with freshness := q.freshness, freshnessVrf := q.freshnessVrf }
  | .version v => match stateOfVersion d u v with
    | some st => lookupFor c d u st
    | none => .error .notFound
  | .freshAnchor k => do
    let np ← anchoredAt c d p.freshness.label k
    return { p with freshness := np }
  | .value v => .ok { p with value := v }
  | .epoch e => .ok { p with epoch := e }
  | .versionField v => .ok { p with version := v }
  | .nonceZero => .ok { p with commitmentNonce := .raw zeros32 }
  | .markerRootProof => .ok { p with marker := ⟨p.marker.label, rootValue d, []⟩ }
  | .existRootProof => .ok { p with existence := ⟨p.existence.label, rootValue d, []⟩ }
  | .exVrfGarbage => .ok { p with existenceVrf := none }
  | .exVrfSPlus => .ok p
  | .exVrfOther u2 f v => .ok { p with existenceVrf := some ⟨u2, f, v⟩ }
  | .frVrfGarbage => .ok { p with freshnessVrf := none }
  | .mkVrfGarbage => .ok { p with markerVrf := none }
  | .swapExist u2 => do
    let (q, _, _) ← d.lookup c u2
    return { p with existence := q.existence, existenceVrf := q.existenceVrf }
  | .swapMarker u2 => do
    let (q, _, _) ← d.lookup c u2
    return { p with marker := q.marker, markerVrf := q.markerVrf }
  | .swapFresh u2 => do
    let (q, _, _) ← d.lookup c u2
    return { p with freshness := q.freshness, freshnessVrf := q.freshnessVrf }
  | .freshLen n => do
    let np ← absentWithLen c d p.freshness.label n
    return { p with freshness := np }
  | .existLen n => .ok { p with existence := { p.existence with label := ⟨p.existence.label.val, n⟩ } }
  | .markerLen n => .ok { p with marker := { p.marker with label := ⟨p.marker.label.val, n⟩ } }

/-! ### history proofs -/

inductive HistEdit where
  /-- drop the k newest / oldest update proofs and regenerate the marker proofs for the new range -/
  | dropNewest (k : Nat) | dropOldest (k : Nat)
  | gap (i : Nat) | dup (i : Nat) | swapUpd (i j : Nat)
  /-- update i overwritten by a copy of update j (a hidden version behind a duplicate: the count stays the same) -/
  | copyUpd (i j : Nat)
  /-- the general re-arrangement: the update list becomes `[updates[i] | i ← idx]` (any selection with repetition, in
  any order; marker proofs untouched) — likewise for the past / future marker lists -/
  | selUpd (idx : List Nat) | selPast (idx : List Nat) | selFuture (idx : List Nat)
  | value (i : Nat) (v : Bytes) | epoch (i : Nat) (e : Nat) | tomb (i : Nat) | noPrev (i : Nat)
  | pastDrop (i : Nat) | futureDrop (i : Nat)
  /-- forged absence: future marker i "proved" absent at the k-th ancestor of its label -/
  | futureAnchor (i k : Nat)
  | pastRootProof (i : Nat)
  /-- existence proof of update i replaced by the sibling-less root proof -/
  | existRootProof (i : Nat)
  /-- forged absence by LENGTH: future marker i replaced by the honest non-membership proof of the label with
  the same bytes and length `n`; past marker i / the previous-version (stale) proof of update i with the length
  field of the label rewritten -/
  | futureLen (i n : Nat) | pastLen (i n : Nat) | prevLen (i n : Nat)

def parseHistEdit? (tok : String) : Option HistEdit :=
  match tok.splitOn ":" with
  | ["drop.newest", k] => k.toNat?.map .dropNewest
  | ["drop.oldest", k] => k.toNat?.map .dropOldest
  | ["gap", i] => i.toNat?.map .gap
  | ["dup", i] => i.toNat?.map .dup
  | ["swapupd", i, j] => do pure (.swapUpd (← i.toNat?) (← j.toNat?))
  | ["copy", i, j] => do pure (.copyUpd (← i.toNat?) (← j.toNat?))
  | ["sel", is] => (((is.splitOn ",").filter (· ≠ "")).mapM String.toNat?).map .selUpd
  | ["pastsel", is] => (((is.splitOn ",").filter (· ≠ "")).mapM String.toNat?).map .selPast
  | ["futuresel", is] => (((is.splitOn ",").filter (· ≠ "")).mapM String.toNat?).map .selFuture
  | ["value", i, v] => do pure (.value (← i.toNat?) (← parseHex? v))
  | ["epoch", i, e] => do pure (.epoch (← i.toNat?) (← e.toNat?))
  | ["tomb", i] => i.toNat?.map .tomb
  | ["noprev", i] => i.toNat?.map .noPrev
  | ["past.drop", i] => i.toNat?.map .pastDrop
  | ["future.drop", i] => i.toNat?.map .futureDrop
  | ["future.anchor", i, k] => do pure (.futureAnchor (← i.toNat?) (← k.toNat?))
  | ["past.rootproof", i] => i.toNat?.map .pastRootProof
  | ["exist.rootproof", i] => i.toNat?.map .existRootProof
  | ["future.len", i, n] => do pure (.futureLen (← i.toNat?) (← n.toNat?))
  | ["past.len", i, n] => do pure (.pastLen (← i.toNat?) (← n.toNat?))
  | ["prev.len", i, n] => do pure (.prevLen (← i.toNat?) (← n.toNat?))
  | _ => none

/-- marker proofs for the version range of `ups`, generated honestly (directory.rs:565-605) -/
def regenMarkers (c : Cfg) (d : Dir) (u : Bytes) (ups : List UpdateProof) : Except DErr HistoryProof := do
  let some azks := d.azks | throw .notFound
  let cur := azks.latestEpoch
  match ups.map (·.version) with
  | [] => return ⟨ups, [], [], [], []⟩
  | v0 :: vs =>
    let startV := (v0 :: vs).foldl min v0
    let endV := (v0 :: vs).foldl max v0
    let some (past, future) := Marker.markers? startV endV cur | throw .panic
    let pastP ← past.mapM (fun v => do
      let l ← d.vrfLabel u true v
      Dir.liftT (d.nodes.membershipProof c azks l))
    let futP ← future.mapM (fun v => do
      let l ← d.vrfLabel u true v
      Dir.liftT (d.nodes.nonMembershipProof c azks l))
    return ⟨ups, past.map (fun v => some ⟨u, true, v⟩), pastP, future.map (fun v => some ⟨u, true, v⟩), futP⟩

def applyHist (c : Cfg) (d : Dir) (u : Bytes) (p : HistoryProof) : HistEdit → Except DErr HistoryProof
  | .dropNewest k => regenMarkers c d u (p.updates.drop k)
  | .dropOldest k => regenMarkers c d u (p.updates.take (p.updates.length - k))
  | .gap i => .ok { p with updates := Adv.dropAt p.updates i }
  | .dup i => match p.updates[i]? with
    | some x => .ok { p with updates := p.updates.take (i + 1) ++ [x] ++ p.updates.drop (i + 1) }
    | none => .ok p
  | .swapUpd i j => match p.updates[i]?, p.updates[j]? with
    | some a, some b => .ok { p with updates := Adv.modifyAt (Adv.modifyAt p.updates i fun _ => b) j fun _ => a }
    | _, _ => .ok p
  | .selUpd idx => .ok { p with updates := idx.filterMap (p.updates[·]?) }
  | .selPast idx => .ok { p with past := idx.filterMap (p.past[·]?), pastVrf := idx.filterMap (p.pastVrf[·]?) }
  | .selFuture idx => .ok { p with future := idx.filterMap (p.future[·]?), futureVrf := idx.filterMap (p.futureVrf[·]?) }
  | .copyUpd i j => match p.updates[j]? with
    | some b => .ok { p with updates := Adv.modifyAt p.updates i fun _ => b }
    | none => .ok p
  | .value i v => .ok { p with updates := Adv.modifyAt p.updates i fun x => { x with value := v } }
  | .epoch i e => .ok { p with updates := Adv.modifyAt p.updates i fun x => { x with epoch := e } }
  | .tomb i => .ok { p with updates := Adv.modifyAt p.updates i fun x => { x with value := [] } }
  | .noPrev i => .ok { p with updates := Adv.modifyAt p.updates i fun x => { x with previous := none, previousVrf := none } }
  | .pastDrop i => .ok { p with past := Adv.dropAt p.past i, pastVrf := Adv.dropAt p.pastVrf i }
  | .futureDrop i => .ok { p with future := Adv.dropAt p.future i, futureVrf := Adv.dropAt p.futureVrf i }
  | .futureAnchor i k => match p.future[i]? with
    | some np => do
      let forged ← anchoredAt c d np.label k
      return { p with future := Adv.modifyAt p.future i fun _ => forged }
    | none => .ok p
  | .pastRootProof i => .ok { p with past := Adv.modifyAt p.past i fun m => ⟨m.label, rootValue d, []⟩ }
  | .existRootProof i => .ok { p with updates := Adv.modifyAt p.updates i fun x =>
      { x with existence := ⟨x.existence.label, rootValue d, []⟩ } }
  | .futureLen i n => match p.future[i]? with
    | some np => do
      let forged ← absentWithLen c d np.label n
      return { p with future := Adv.modifyAt p.future i fun _ => forged }
    | none => .ok p
  | .pastLen i n => .ok { p with past := Adv.modifyAt p.past i fun m => { m with label := ⟨m.label.val, n⟩ } }
  | .prevLen i n => .ok { p with updates := Adv.modifyAt p.updates i fun x =>
      { x with previous := x.previous.map fun m => { m with label := ⟨m.label.val, n⟩ } } }

/-- an invented history for a label: one update of version `1` carrying the empty value and the
sibling-less root proof (what D8 allowed for never-published labels) -/
def invented (c : Cfg) (d : Dir) (u : Bytes) (epoch : Nat) : Except DErr HistoryProof := do
  let l ← d.vrfLabel u true 1
  regenMarkers c d u [⟨epoch, [], 1, some ⟨u, true, 1⟩, ⟨l, rootValue d, []⟩, none, none, .raw zeros32⟩]

end Akd.AdvDir
