/-
C04, end to end — for EVERY history of publishes and every range: the audit proof generated at the
end of the history verifies against the root hashes the directory returned for the epochs of the
range when they were published.

`C04.audit_complete` is stated over a node store and the canonical tree it represents; this file
composes it with C01's refinement theorem over whole histories.  The root hash of epoch `i` is taken
from a prefix of the history: `Spec.run (h.take k)` for any `k` at which the specification's epoch is
`i` (by `C01.history_refines` that is what `get_epoch_hash` returned after the first `k` batches).
-/
import AkdModel.Thm.C04
import AkdModel.Thm.C01c
import AkdModel.Lemmas.SpecHistLeaves
namespace Akd.C04
open Akd C01

/-- the root hash published after a prefix of the history is the root hash of the final tree cut at
the epoch of that prefix -/
theorem rootHash_prefix (c : Cfg) (key : Dig) (vrf : VrfTable) (hv : C06.VrfOK vrf)
    (h : List (List (Bytes × Bytes))) (k i : Nat) (hk : (Spec.run (h.take k)).epoch = i) :
    Spec.rootHash c key vrf (Spec.run (h.take k)) =
      (treeAt (CRoot.ofLeaves (Spec.leaves c key vrf (Spec.run h).table)) i).rootHash c := by
  have hI := SpecHist.inv_run h
  have hpfL := Pub.prefixFree_leaves hv.inj hv.len c key (Spec.run h).table hI.keys hI.vers
  have hlenL := Pub.leaves_len hv.len c key (Spec.run h).table
  have hspecL := ofLeaves_spec _ hpfL (fun x hx h => by have := hlenL x hx; rw [h] at this; cases this)
  have hIk := SpecHist.inv_run (h.take k)
  have hpfK := Pub.prefixFree_leaves hv.inj hv.len c key (Spec.run (h.take k)).table hIk.keys hIk.vers
  have hlenK := Pub.leaves_len hv.len c key (Spec.run (h.take k)).table
  have hperm := SpecHist.leaves_prefix c key vrf h k
  rw [hk] at hperm
  unfold Spec.rootHash treeAt
  rw [ofLeaves_perm _ _ hpfK (fun x hx h => by have := hlenK x hx; rw [h] at this; cases this)
    (hperm.symm.trans (hspecL.2.symm.filter _))]

/-- **audit completeness over histories**: `h` any list of batches (effective or not, with duplicates
or not), `ks` prefix lengths at which the epoch was `st, st+1, …, en` -/
theorem audit_complete_history (c : Cfg) (hc : c.Lawful) (hce : c.emptyLabel.len = 0)
    (vrf : VrfTable) (key : Dig) (users : List Bytes) (h : List (List (Bytes × Bytes)))
    (hv : C06.VrfOK vrf) (ht : VrfTotal vrf users (h.length + 2))
    (hb : ∀ b ∈ h, ∀ x ∈ b, x.1 ∈ users)
    (st en : Nat) (hse : st < en) (hen : en ≤ (Spec.run h).epoch)
    (ks : List Nat) (hks : ks.length = en - st + 1)
    (hk : ∀ j (hj : j < ks.length), ks[j] ≤ h.length ∧ (Spec.run (h.take ks[j])).epoch = st + j) :
    ∃ d0 π, Dir.init c { vrf := vrf, commitmentKey := key } = .ok d0 ∧
      (runDir c d0 h).audit c st en = .ok π ∧
      Auditor.verify c (ks.map fun k => Spec.rootHash c key vrf (Spec.run (h.take k))) π = .ok () := by
  -- the directory at the end of the history represents `Spec.run h`
  obtain ⟨d0, hinit, href0⟩ := init_refines c vrf key
  have hvrf0 : d0.vrf = vrf ∧ d0.commitmentKey = key := by
    simp only [Dir.init] at hinit
    split at hinit
    · injection hinit with hinit; subst hinit; exact ⟨rfl, rfl⟩
    · cases hinit
  obtain ⟨hr, h1, h2⟩ := runDir_refines c hce users (h.length + 2) h d0 {} (hvrf0.1 ▸ hv) (hvrf0.1 ▸ ht)
    (by show 0 + h.length + 1 ≤ h.length + 2; omega) href0 (fun x hx => nomatch hx) hb
  rw [hvrf0.1] at h1
  rw [hvrf0.2] at h2
  have htree := hr.tree
  rw [h1, h2] at htree
  change ReprRoot c .directory (runDir c d0 h).nodes
    (CRoot.ofLeaves (Spec.leaves c key vrf (Spec.run h).table)) at htree
  obtain ⟨n, hazks⟩ := hr.azks
  change (runDir c d0 h).azks = some ⟨(Spec.run h).epoch, n⟩ at hazks
  -- the tree of the final state
  have hI := SpecHist.inv_run h
  have hpfL := Pub.prefixFree_leaves hv.inj hv.len c key (Spec.run h).table hI.keys hI.vers
  have hlenL := Pub.leaves_len hv.len c key (Spec.run h).table
  have hepL := SpecHist.leaves_ep_inv c key vrf _ hI
  have hspecL := ofLeaves_spec _ hpfL (fun x hx h => by have := hlenL x hx; rw [h] at this; cases this)
  -- the last epoch has a leaf
  have hlast : ∃ lf ∈ (CRoot.ofLeaves (Spec.leaves c key vrf (Spec.run h).table)).leaves, en ≤ lf.ep := by
    have hE := SpecHist.run_epoch_le h
    obtain ⟨lf, hlf, he⟩ := SpecHist.last_leaf c key vrf _ hI (by omega) (fun x hx ver hv1 hv2 =>
      ht x.1 (SpecHist.run_keys h users hb x hx) true ver hv1 (by omega))
    exact ⟨lf, hspecL.2.mem_iff.2 hlf, by omega⟩
  obtain ⟨π, hgen, hver⟩ := audit_complete c hc hce (runDir c d0 h).nodes ⟨(Spec.run h).epoch, n⟩ _ htree hspecL.1
    (fun lf hlf => by have := hlenL lf (hspecL.2.mem_iff.1 hlf); omega)
    (fun lf hlf => hepL lf (hspecL.2.mem_iff.1 hlf)) st en hse hen (.inr hlast)
  refine ⟨d0, π, hinit, ?_, ?_⟩
  · unfold Dir.audit
    simp only [hazks, bind, Except.bind, throw, throwThe, MonadExceptOf.throw]
    rw [if_neg (by omega), if_neg (by show ¬ (Spec.run h).epoch < en; omega), hgen]
    rfl
  · have hlist : (ks.map fun k => Spec.rootHash c key vrf (Spec.run (h.take k))) =
        (List.range (en - st + 1)).map fun i =>
          (treeAt (CRoot.ofLeaves (Spec.leaves c key vrf (Spec.run h).table)) (st + i)).rootHash c := by
      apply List.ext_getElem
      · simp [hks]
      · intro j hj1 hj2
        have hj : j < ks.length := by simpa using hj1
        simp only [List.getElem_map, List.getElem_range]
        rw [rootHash_prefix c key vrf hv h ks[j] (st + j) (hk j hj).2]
    rw [hlist]
    exact hver

/-- the hypothesis on `ks` is satisfiable for every valid range: every epoch `0..E` is the epoch of
some prefix of the history -/
theorem prefix_epochs (h : List (List (Bytes × Bytes))) (i : Nat) (hi : i ≤ (Spec.run h).epoch) :
    ∃ k, k ≤ h.length ∧ (Spec.run (h.take k)).epoch = i :=
  SpecHist.prefix_epochs h i hi

end Akd.C04
