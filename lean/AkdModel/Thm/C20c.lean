/-
C20, history clause — after tombstoning, "the label's history still verifies when the verifier allows missing
values, reporting the same versions and epochs with tombstoned values empty and later values intact, while a
verifier that does not allow missing values rejects exactly those histories that include a tombstoned entry".

`d` is any directory state reached by publishes (`Refines c d sp`), `d'` the state after
`tombstone_value_states(u, cut)`.  The epoch hash is unchanged (`C20.tombstone_epochHash`); here: what the
history request of `d'` returns and what the two verifiers make of it.
-/
import AkdModel.Thm.C03
import AkdModel.Thm.C20
import AkdModel.Lemmas.TombHistory
namespace Akd.C20
open Akd C01

/-- the entry as the verifier reports it after tombstoning up to `cut` -/
def tombVer (cut : Nat) (v : Spec.Ver) : Spec.Ver :=
  if Spec.tombstoned (some cut) v then { v with value := [] } else v

/-- **allow mode**: the history request on the tombstoned directory succeeds with the unchanged epoch hash, and the
verifier that allows missing values accepts it: same versions and epochs, tombstoned values empty, later values intact -/
theorem tombstone_history_allow (c : Cfg) (hc : c.Lawful) (hce : c.emptyLabel.len = 0) (hfresh : C05.EmptyLabelFresh c)
    (d d' : Dir) (sp : Spec.State) (users : List Bytes) (N : Nat)
    (hv : C06.VrfOK d.vrf) (ht : VrfTotal d.vrf users N) (hN : sp.epoch + 1 ≤ N)
    (hu : ∀ x ∈ sp.table, x.1 ∈ users)
    (href : Refines c d sp) (u : Bytes) (hmem : u ∈ users) (hpub : sp.table.get u ≠ [])
    (cut : Nat) (htomb : d.tombstone u cut = .ok d')
    (p : HistoryParams) (hp : ∀ n, p = .mostRecent n → 1 ≤ n) :
    ∃ π, d'.keyHistory c u p = .ok (π, sp.epoch, Spec.rootHash c d.commitmentKey d.vrf sp) ∧
      Verify.history c d.vrf (Spec.rootHash c d.commitmentKey d.vrf sp) sp.epoch u π p true
        = .ok ((C07.expected (sp.table.get u) p).map fun v => C07.resultOf (tombVer cut v)) := by
  have _ := hce  -- (not needed by the proof, as in `C03.history_complete`)
  obtain ⟨past, future, hm, hgen⟩ := Tomb.keyHistory_gen_tomb c d sp users N hv ht hN href u hmem hpub p hp cut
  obtain ⟨hwf, h256, -⟩ := Gen.refines_tree_facts c d sp hv href
  have hlen := Pub.versOK_length_le (href.versions u).1 _ (href.versions u).2
  have hon := refines_honest c hc d sp hv users N ht hN hu href u hmem
  rw [Tomb.tombstone_ok htomb]
  exact ⟨_, hgen, Tomb.blankHistory_verifies_allow hc hfresh hv hwf h256 hon hpub sp.epoch hlen
    (fun f x h1 h2 => ht u hmem f x h1 (by omega)) p hp past future hm cut⟩

/-- **strict mode, untouched range**: when no entry of the requested range is tombstoned the strict verifier
accepts with the full answer -/
theorem tombstone_history_default_ok (c : Cfg) (hc : c.Lawful) (hce : c.emptyLabel.len = 0) (hfresh : C05.EmptyLabelFresh c)
    (d d' : Dir) (sp : Spec.State) (users : List Bytes) (N : Nat)
    (hv : C06.VrfOK d.vrf) (ht : VrfTotal d.vrf users N) (hN : sp.epoch + 1 ≤ N)
    (hu : ∀ x ∈ sp.table, x.1 ∈ users)
    (href : Refines c d sp) (u : Bytes) (hmem : u ∈ users) (hpub : sp.table.get u ≠ [])
    (cut : Nat) (htomb : d.tombstone u cut = .ok d')
    (p : HistoryParams) (hp : ∀ n, p = .mostRecent n → 1 ≤ n)
    (hnone : ∀ v ∈ C07.expected (sp.table.get u) p, Spec.tombstoned (some cut) v = false) :
    ∃ π, d'.keyHistory c u p = .ok (π, sp.epoch, Spec.rootHash c d.commitmentKey d.vrf sp) ∧
      Verify.history c d.vrf (Spec.rootHash c d.commitmentKey d.vrf sp) sp.epoch u π p false
        = .ok ((C07.expected (sp.table.get u) p).map C07.resultOf) := by
  have _ := hce  -- (not needed by the proof, as in `C03.history_complete`)
  obtain ⟨past, future, hm, hgen⟩ := Tomb.keyHistory_gen_tomb c d sp users N hv ht hN href u hmem hpub p hp cut
  obtain ⟨hwf, h256, -⟩ := Gen.refines_tree_facts c d sp hv href
  have hlen := Pub.versOK_length_le (href.versions u).1 _ (href.versions u).2
  have hon := refines_honest c hc d sp hv users N ht hN hu href u hmem
  rw [Tomb.tombstone_ok htomb]
  rw [Tomb.map_blank_of_none cut _ hnone] at hgen
  exact ⟨_, hgen, Gen.honestHistory_verifies hc hfresh hv hwf h256 hon hpub sp.epoch hlen
    (fun f x h1 h2 => ht u hmem f x h1 (by omega)) p hp false past future hm⟩

/-- **strict mode, tombstoned range**: when the requested range contains a tombstoned entry the strict verifier
rejects the proof the directory returns -/
theorem tombstone_history_default_rejects (c : Cfg) (hc : c.Lawful) (hce : c.emptyLabel.len = 0) (hfresh : C05.EmptyLabelFresh c)
    (d d' : Dir) (sp : Spec.State) (users : List Bytes) (N : Nat)
    (hv : C06.VrfOK d.vrf) (ht : VrfTotal d.vrf users N) (hN : sp.epoch + 1 ≤ N)
    (hu : ∀ x ∈ sp.table, x.1 ∈ users)
    (href : Refines c d sp) (u : Bytes) (hmem : u ∈ users) (hpub : sp.table.get u ≠ [])
    (cut : Nat) (htomb : d.tombstone u cut = .ok d')
    (p : HistoryParams) (hp : ∀ n, p = .mostRecent n → 1 ≤ n)
    (hsome : ∃ v ∈ C07.expected (sp.table.get u) p, Spec.tombstoned (some cut) v = true) :
    ∃ π, d'.keyHistory c u p = .ok (π, sp.epoch, Spec.rootHash c d.commitmentKey d.vrf sp) ∧
      ∃ e, Verify.history c d.vrf (Spec.rootHash c d.commitmentKey d.vrf sp) sp.epoch u π p false = .error e := by
  have _ := hce  -- (not needed by the proof, as in `C03.history_complete`)
  obtain ⟨past, future, hm, hgen⟩ := Tomb.keyHistory_gen_tomb c d sp users N hv ht hN href u hmem hpub p hp cut
  obtain ⟨hwf, h256, -⟩ := Gen.refines_tree_facts c d sp hv href
  have hlen := Pub.versOK_length_le (href.versions u).1 _ (href.versions u).2
  have hon := refines_honest c hc d sp hv users N ht hN hu href u hmem
  rw [Tomb.tombstone_ok htomb]
  exact ⟨_, hgen, Tomb.blankHistory_rejected hc hfresh hv hwf h256 hon hpub sp.epoch hlen
    (fun f x h1 h2 => ht u hmem f x h1 (by omega)) p hp past future hm cut hsome⟩

/-- the history of every OTHER label is the identical answer -/
theorem tombstone_other_history (c : Cfg) (d d' : Dir) (u u' : Bytes) (cut : Nat)
    (htomb : d.tombstone u cut = .ok d') (hne : u' ≠ u) (p : HistoryParams) :
    d'.keyHistory c u' p = d.keyHistory c u' p := by
  exact Tomb.tombstone_other_history' c d d' u u' cut htomb hne p

/-- tombstoning the same label twice is tombstoning once up to the larger cut (so the three theorems above cover any
sequence of tombstone calls on a label) -/
theorem tombstone_twice (d d1 d2 : Dir) (u : Bytes) (c1 c2 : Nat)
    (h1 : d.tombstone u c1 = .ok d1) (h2 : d1.tombstone u c2 = .ok d2) :
    d.tombstone u (max c1 c2) = .ok d2 := by
  exact Tomb.tombstone_twice' d d1 d2 u c1 c2 h1 h2

end Akd.C20
