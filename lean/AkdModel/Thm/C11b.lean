/-
C11, request level — "a second directory instance opened on that storage reports the previous epoch and root hash,
its lookup, history and audit proofs verify against it, and values of the unfinished epoch are invisible".

`Thm/C11.lean` proves the node-level fact: whatever part `W` of a commit's node records has reached the database,
every key reads, as of the previous epoch, as before (`partial_commit_invisible_all`), and keys that are new in this
epoch read as "not found" (`new_keys_invisible`).  Here that is lifted to the requests: every proof generator reads
the store only through `getNode · epoch` and never looks at the `parent` field (`reads_congr`), hence a directory
instance on the partially written database answers every request exactly as the instance before the publish did.
-/
import AkdModel.Thm.C11
import AkdModel.Dir
import AkdModel.Lemmas.PartialRequests
namespace Akd.C11
open Akd C01

/-- what a read of key `k` as of epoch `e` yields, modulo the `parent` field -/
def readAt (s : NodeStore) (e : Nat) (k : NodeLabel) : Except Err TreeNode :=
  match s.getNode k e with
  | .ok n => .ok (C13.eraseParent n)
  | .error x => .error x

/-- **the generators read the store only through `getNode · epoch`, modulo `parent`** -/
theorem reads_congr (c : Cfg) (s s' : NodeStore) (a : Azks)
    (hview : ∀ k, readAt s' a.latestEpoch k = readAt s a.latestEpoch k) :
    s'.rootHash c a = s.rootHash c a ∧
    (∀ l, s'.membershipProof c a l = s.membershipProof c a l) ∧
    (∀ l, s'.nonMembershipProof c a l = s.nonMembershipProof c a l) := by
  have h : Part.View s s' a.latestEpoch := hview
  exact ⟨Part.rootHash_congr c a h, Part.membershipProof_congr c a h, Part.nonMembershipProof_congr c a h⟩

/-- the same for the append-only proof of any range that ends at or before the epoch (the walk reads every node as of
`a.latestEpoch` and decides by the epochs stored in the nodes) -/
theorem audit_congr (c : Cfg) (s s' : NodeStore) (a : Azks)
    (hview : ∀ k, readAt s' a.latestEpoch k = readAt s a.latestEpoch k) (s0 e0 : Nat) :
    s'.appendOnlyProof c a s0 e0 = s.appendOnlyProof c a s0 e0 := by
  have h : Part.View s s' a.latestEpoch := hview
  exact Part.appendOnlyProof_congr c a h s0 e0

/-- the database a reader finds when the node records `W` of the commit have reached it (no transaction of its own) -/
def partialStore (s : NodeStore) (W : List NodeRec) : NodeStore :=
  { db := applyWrites s.db W, log := [], inTxn := false }

/-- node level, every key: as of the previous epoch the partially written database reads as the old one -/
theorem partial_commit_reads (c : Cfg) (hc : c.emptyLabel.len = 0)
    (s : NodeStore) (a : Azks) (t : CRoot)
    (hidle : s.inTxn = false ∧ s.log = [])
    (hrep : ReprRoot c .directory s t) (hwf : t.WF)
    (hat : AtEpoch s.db a.latestEpoch) (hkeyed : WellKeyed s.db)
    (hdom : ∀ k, (s.db.get? k).isSome → k ∈ nodeKeys t)
    (hep : ∀ lf ∈ t.leaves, 1 ≤ lf.ep ∧ lf.ep ≤ a.latestEpoch)
    (els : List (BitStr × Dig))
    (hpf : PrefixFree (t.leaves ++ newLeaves els (a.latestEpoch + 1)))
    (hlen : ∀ lf ∈ t.leaves ++ newLeaves els (a.latestEpoch + 1), 1 ≤ lf.lbl.length ∧ lf.lbl.length ≤ 256)
    (s' : NodeStore) (a' : Azks)
    (hins : s.begin.batchInsert c .directory a (els.map fun x => (NodeLabel.ofBits x.1, x.2)) = .ok (s', a'))
    (W : List NodeRec) (hW : ∀ r ∈ W, ∃ k, s'.log.get? k = some r) :
    ∀ k, readAt (partialStore s W) a.latestEpoch k = readAt s a.latestEpoch k := by
  exact Part.partial_reads c hc s a t hidle hrep hwf hat hkeyed hdom hep els hpf hlen s' a' hins W hW

/-- **request level**: a directory instance opened on the partially written storage — the old epoch record, any part
`W` of the commit's node records, and any value states of the unfinished epoch — answers the epoch hash and every
lookup, key-history and audit request exactly as the instance before the publish did -/
theorem partial_commit_requests (c : Cfg) (hc : c.emptyLabel.len = 0)
    (d d' : Dir) (a : Azks) (t : CRoot)
    (hazks : d.azks = some a)
    (hidle : d.nodes.inTxn = false ∧ d.nodes.log = [])
    (hrep : ReprRoot c .directory d.nodes t) (hwf : t.WF)
    (hat : AtEpoch d.nodes.db a.latestEpoch) (hkeyed : WellKeyed d.nodes.db)
    (hdom : ∀ k, (d.nodes.db.get? k).isSome → k ∈ nodeKeys t)
    (hep : ∀ lf ∈ t.leaves, 1 ≤ lf.ep ∧ lf.ep ≤ a.latestEpoch)
    (hstates : ∀ x ∈ d.states, x.epoch ≤ a.latestEpoch)
    (els : List (BitStr × Dig))
    (hpf : PrefixFree (t.leaves ++ newLeaves els (a.latestEpoch + 1)))
    (hlen : ∀ lf ∈ t.leaves ++ newLeaves els (a.latestEpoch + 1), 1 ≤ lf.lbl.length ∧ lf.lbl.length ≤ 256)
    (s' : NodeStore) (a' : Azks)
    (hins : d.nodes.begin.batchInsert c .directory a (els.map fun x => (NodeLabel.ofBits x.1, x.2)) = .ok (s', a'))
    (W : List NodeRec) (hW : ∀ r ∈ W, ∃ k, s'.log.get? k = some r)
    (extra : List ValueState) (hextra : ∀ x ∈ extra, x.epoch = a.latestEpoch + 1)
    (hd' : d' = { d with nodes := partialStore d.nodes W, states := d.states ++ extra }) :
    d'.epochHash c = d.epochHash c ∧
    (∀ u, d'.lookup c u = d.lookup c u) ∧
    (∀ u p, d'.keyHistory c u p = d.keyHistory c u p) ∧
    (∀ s0 e0, d'.audit c s0 e0 = d.audit c s0 e0) := by
  have hv := partial_commit_reads c hc d.nodes a t hidle hrep hwf hat hkeyed hdom hep els hpf hlen s' a' hins W hW
  obtain ⟨hr, hm, hn⟩ := reads_congr c d.nodes (partialStore d.nodes W) a hv
  have ha := audit_congr c d.nodes (partialStore d.nodes W) a hv
  obtain ⟨nodes, azks, states, vrf, ck⟩ := d
  simp only at hazks
  subst hazks
  subst hd'
  have hlater : ∀ x ∈ extra, a.latestEpoch < x.epoch := fun x hx => by rw [hextra x hx]; omega
  refine ⟨Part.epochHash_congr c nodes _ a states _ vrf ck hr,
    fun u => Part.lookup_congr c nodes _ a states _ vrf ck hr hm hn u
      (Part.stateLeq_append nodes _ (some a) states extra vrf ck u a.latestEpoch hlater),
    fun u p => ?_,
    fun s0 e0 => Part.audit_congr c nodes _ a states _ vrf ck ha s0 e0⟩
  by_cases he : states.filter (fun s => s.username = u) = []
  · rw [Part.keyHistory_nodata c _ a rfl u p (by
        simp only
        rw [Part.filter_append_later states extra u a.latestEpoch hlater, he]; rfl),
      Part.keyHistory_nodata c _ a rfl u p (by simp only; rw [he]; rfl)]
  · exact Part.keyHistory_congr c nodes _ a states _ vrf ck hr hm hn u p
      (Part.isEmpty_filter_append states extra u he)
      (Part.filter_append_later states extra u a.latestEpoch hlater)

end Akd.C11
