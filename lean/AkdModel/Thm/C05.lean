/-
C05 — tree membership and non-membership proofs are sound and complete.

`t` is any well-formed trie (`CRoot.WF`) whose leaves all have 256-bit labels; by
`Thm/C01.lean` (`wf_unique`) that is the canonical trie over its leaf set.  `π` ranges over
EVERY proof value, not only those a generator can produce.
-/
import AkdModel.CTrie
import AkdModel.Thm.C17
import AkdModel.Lemmas.TrieLemmas
import AkdModel.Lemmas.TrieLabel
namespace Akd.C05
open Akd

/-- everything a membership proof may legitimately speak about: the root, every node, and the
empty child slots of the root -/
def CTree.elements (c : Cfg) : CTree → List AzksElement
  | .leaf q v e => [(CTree.leaf q v e).element c]
  | .node q l r => (CTree.node q l r).element c :: (elements c l ++ elements c r)

def elements (c : Cfg) (t : CRoot) : List AzksElement :=
  ⟨NodeLabel.root, t.value c .withLeafEpoch⟩
    :: (CRoot.element c t.l :: CRoot.element c t.r
        :: ((t.l.map (CTree.elements c)).getD [] ++ (t.r.map (CTree.elements c)).getD []))

def Leaves256 (t : CRoot) : Prop := ∀ lf ∈ t.leaves, lf.lbl.length = 256

/-- ADDED HYPOTHESIS of the two non-membership theorems: the configuration's "empty label" marker
is not the label of any bit string.  `Cfg.Lawful` only speaks about the hash functions, but
`verify_nonmembership` treats a child whose label equals `empty_label()` as an empty slot; with a
marker that collides with a real label both theorems are false (checked counterexamples at the end
of this file).  Both real configurations satisfy it (`emptyLabelFresh_whatsappV1`,
`emptyLabelFresh_experimental`): their marker has length 0 and non-zero bytes. -/
def EmptyLabelFresh (c : Cfg) : Prop :=
  ∀ bs : BitStr, bs.length ≤ 256 → NodeLabel.ofBits bs ≠ c.emptyLabel

theorem emptyLabelFresh_whatsappV1 : EmptyLabelFresh Cfg.whatsappV1 :=
  fun bs _ => Cfg.whatsappV1_emptyLabel_fresh bs

theorem emptyLabelFresh_experimental : EmptyLabelFresh Cfg.experimental :=
  fun bs _ => Cfg.experimental_emptyLabel_fresh bs

/-! ## helper lemmas that mention `elements` (everything else is in `Lemmas/Trie*.lean`) -/

theorem CTree.self_mem_elements (c : Cfg) (a : CTree) : a.element c ∈ CTree.elements c a := by
  cases a <;> simp [CTree.elements]

theorem CTree.sub_mem_elements (c : Cfg) {s a : CTree} (h : CTree.Sub s a) :
    s.element c ∈ CTree.elements c a := by
  induction h with
  | refl => exact CTree.self_mem_elements c s
  | left q r _ ih => simp [CTree.elements, ih]
  | right q l _ ih => simp [CTree.elements, ih]

/-- the three shapes of `CRoot.verifyMembership_cases` are all listed in `elements` -/
theorem mem_elements_of_cases (c : Cfg) (t : CRoot) (π : MembershipProof)
    (h : (π.label = NodeLabel.root ∧ π.hashVal = t.value c .withLeafEpoch) ∨
      (∃ o, (o = t.l ∨ o = t.r) ∧
        ((o = none ∧ π.label = c.emptyLabel ∧ π.hashVal = c.emptyNodeHash) ∨
         (∃ a s, o = some a ∧ CTree.Sub s a ∧ π.label = NodeLabel.ofBits s.lbl ∧
            π.hashVal = s.azks c .withLeafEpoch)))) :
    (⟨π.label, π.hashVal⟩ : AzksElement) ∈ elements c t := by
  rcases h with ⟨h1, h2⟩ | ⟨o, ho, ⟨rfl, h1, h2⟩ | ⟨a, s, rfl, hs, h1, h2⟩⟩
  · rw [h1, h2]; exact List.mem_cons_self
  · rw [h1, h2]
    rcases ho with ho | ho
    · simp [elements, ← ho, CRoot.element, CRoot.childLabel, CRoot.childValue]
    · simp [elements, ← ho, CRoot.element, CRoot.childLabel, CRoot.childValue]
  · rw [h1, h2]
    have := CTree.sub_mem_elements c hs
    rw [CTree.element] at this
    rcases ho with ho | ho
    · simp [elements, ← ho, this]
    · simp [elements, ← ho, this]

theorem root_value_ne_leaf (c : Cfg) (hc : c.Lawful) (t : CRoot) (v : Dig) (e : Nat) :
    t.value c .withLeafEpoch ≠ c.leafHash v e := by
  rcases CRoot.not_empty_cases t with he | he
  · rw [CRoot.value_empty c _ t he]; exact (hc.leaf_ne_emptyRoot v e).symm
  · rw [CRoot.value_eq_parent c _ t he]; exact (hc.leaf_ne_parent _ _ _ _ _ _).symm

/-! ## completeness -/

/-- the generated proof verifies, for every tree and every query label -/
theorem membership_complete (c : Cfg) (t : CRoot) (x : BitStr) :
    verifyMembership c (t.rootHash c) (t.genMembership c x) = true :=
  CRoot.verifyMembership_lcpProof c t x

/-- for a member the generated proof is about that leaf and carries its true digest -/
theorem membership_complete_leaf (c : Cfg) (t : CRoot) (hwf : t.WF) (lf : Leaf) (h : lf ∈ t.leaves) :
    (t.genMembership c lf.lbl).label = NodeLabel.ofBits lf.lbl ∧
    (t.genMembership c lf.lbl).hashVal = c.leafHash lf.value lf.ep :=
  CRoot.lcpProof_leaf c t hwf lf h

/-- for a non-member the generated non-membership proof verifies.

STATEMENT CHANGED (two hypotheses added, counterexamples at the end of the file):
* `hE : EmptyLabelFresh c` — see `EmptyLabelFresh`;
* `hne : t ≠ CRoot.empty` — for the empty tree the root stores `empty_root_value`, which is not
  the parent hash of two empty slots that `verify_nonmembership` recomputes, so the generated
  proof is rejected (`nonmembership_complete_fails_empty`). -/
theorem nonmembership_complete (c : Cfg) (_hc : c.Lawful) (hE : EmptyLabelFresh c)
    (t : CRoot) (hwf : t.WF) (h256 : Leaves256 t) (hne : t ≠ CRoot.empty)
    (x : BitStr) (hx : x.length = 256) (hnot : ∀ lf ∈ t.leaves, lf.lbl ≠ x) :
    verifyNonMembership c (t.rootHash c) (t.genNonMembership c x) = true := by
  refine CRoot.nonmembership_complete_core c hE t hwf h256 ?_ x hx hnot
  rcases CRoot.not_empty_cases t with he | he
  · exfalso
    apply hne
    obtain ⟨tl, tr⟩ := t
    obtain ⟨h1, h2⟩ := he
    simp only at h1 h2
    subst h1 h2
    rfl
  · exact he

/-! ## soundness (full strength, for the repaired verifiers) -/

/-- an accepted membership proof speaks about a real element of the tree -/
theorem membership_sound (c : Cfg) (hc : c.Lawful) (t : CRoot) (π : MembershipProof)
    (h : verifyMembership c (t.rootHash c) π = true) :
    (⟨π.label, π.hashVal⟩ : AzksElement) ∈ elements c t :=
  mem_elements_of_cases c t π (CRoot.verifyMembership_cases c hc t π h)

/-- … in particular a leaf-shaped digest can only be proved for a real leaf, with its true
value and insertion epoch -/
theorem membership_sound_leaf (c : Cfg) (hc : c.Lawful) (t : CRoot) (π : MembershipProof)
    (v : Dig) (e : Nat) (hv : π.hashVal = c.leafHash v e)
    (h : verifyMembership c (t.rootHash c) π = true) :
    ∃ lf ∈ t.leaves, NodeLabel.ofBits lf.lbl = π.label ∧ lf.value = v ∧ lf.ep = e := by
  rcases CRoot.verifyMembership_cases c hc t π h with
    ⟨-, h2⟩ | ⟨o, ho, ⟨-, -, h2⟩ | ⟨a, s, rfl, hs, h1, h2⟩⟩
  · exact absurd (h2.symm.trans hv) (root_value_ne_leaf c hc t v e)
  · exact absurd (hv.symm.trans h2) (hc.leaf_ne_emptyNode v e)
  · rw [hv] at h2
    cases s with
    | node q l r => exact absurd h2 (hc.leaf_ne_parent _ _ _ _ _ _)
    | leaf q w f =>
      obtain ⟨rfl, rfl⟩ := hc.leaf_inj _ _ _ _ h2
      refine ⟨⟨q, v, e⟩, ?_, h1.symm, rfl, rfl⟩
      have hm : (⟨q, v, e⟩ : Leaf) ∈ a.leaves := hs.leaves_subset (by simp [CTree.leaves])
      exact CRoot.mem_leaves.mpr ⟨a, ho.elim (fun h => Or.inl h.symm) (fun h => Or.inr h.symm), hm⟩

/-- an accepted non-membership proof is only possible for a label that is not a leaf.

STATEMENT CHANGED: hypothesis `hE : EmptyLabelFresh c` added (counterexample
`nonmembership_sound_fails_unfresh` at the end of the file). -/
theorem nonmembership_sound (c : Cfg) (hc : c.Lawful) (hE : EmptyLabelFresh c)
    (t : CRoot) (hwf : t.WF) (h256 : Leaves256 t)
    (π : NonMembershipProof) (h : verifyNonMembership c (t.rootHash c) π = true) :
    ∀ lf ∈ t.leaves, NodeLabel.ofBits lf.lbl ≠ π.label :=
  CRoot.nonmembership_sound_core c hc hE t hwf h256 π h

/-! ## the verifiers of the pinned commit were not sound (defects D1, D8) -/

/-- D8: without the root-label check a sibling-less proof carrying the root value verifies for
ANY claimed label. -/
theorem membership_unbound_witness (c : Cfg) (t : CRoot) (x : NodeLabel) :
    Legacy.verifyMembership c (t.rootHash c) ⟨x, t.value c .withLeafEpoch, []⟩ = true := by
  simp [Legacy.verifyMembership, foldUp_nil, CRoot.rootHash]

/-- legacy soundness needs at least one sibling level -/
theorem membership_sound_legacy_partial (c : Cfg) (hc : c.Lawful) (t : CRoot) (π : MembershipProof)
    (hne : π.siblingProofs ≠ [])
    (h : Legacy.verifyMembership c (t.rootHash c) π = true) :
    (⟨π.label, π.hashVal⟩ : AzksElement) ∈ elements c t := by
  have h1 : (foldUp c π).1 = t.value c .withLeafEpoch := by
    simp only [Legacy.verifyMembership, CRoot.rootHash, beq_iff_eq] at h
    exact hc.root_inj _ _ h
  rcases CRoot.sound_cases c hc t π h1 with ⟨hn, -⟩ | h'
  · exact absurd hn hne
  · exact mem_elements_of_cases c t π (Or.inr h')

/-- D1: the 4-leaf tree {000, 001, 01, 1} and a forged non-membership proof for the MEMBER 000,
anchored at the node "0" (not the deepest matching node, which is "00"). -/
def d1Tree : CRoot :=
  CRoot.ofLeaves [⟨[false,false,false], .raw [1], 1⟩, ⟨[false,false,true], .raw [2], 1⟩,
                  ⟨[false,true], .raw [3], 1⟩, ⟨[true], .raw [4], 1⟩]

def d1Forged (c : Cfg) : NonMembershipProof :=
  let n0 : Option CTree := d1Tree.l     -- the node "0"
  match n0 with
  | some (.node q l r) =>
    ⟨NodeLabel.ofBits [false,false,false], NodeLabel.ofBits q, l.element c, r.element c,
      ⟨NodeLabel.ofBits q, (CTree.node q l r).azks c .withLeafEpoch,
        [⟨NodeLabel.root, CRoot.element c d1Tree.r, .left⟩]⟩⟩
  | _ => ⟨NodeLabel.root, NodeLabel.root, ⟨NodeLabel.root, .raw []⟩, ⟨NodeLabel.root, .raw []⟩, ⟨NodeLabel.root, .raw [], []⟩⟩

theorem nonmembership_unsound_witness :
    Legacy.verifyNonMembership Cfg.whatsappV1 (d1Tree.rootHash Cfg.whatsappV1) (d1Forged Cfg.whatsappV1) = true ∧
    Legacy.verifyNonMembership Cfg.experimental (d1Tree.rootHash Cfg.experimental) (d1Forged Cfg.experimental) = true ∧
    (∃ lf ∈ d1Tree.leaves, NodeLabel.ofBits lf.lbl = (d1Forged Cfg.whatsappV1).label) := by
  refine ⟨by decide +kernel, by decide +kernel,
    ⟨[false,false,false], .raw [1], 1⟩, by decide +kernel, by decide +kernel⟩

/-- the repaired verifier rejects that forgery -/
theorem nonmembership_witness_rejected :
    verifyNonMembership Cfg.whatsappV1 (d1Tree.rootHash Cfg.whatsappV1) (d1Forged Cfg.whatsappV1) = false ∧
    verifyNonMembership Cfg.experimental (d1Tree.rootHash Cfg.experimental) (d1Forged Cfg.experimental) = false := by
  refine ⟨by decide +kernel, by decide +kernel⟩

/-! ## non-vacuity: a concrete tree meets the hypotheses -/
example : d1Tree.WF := by decide +kernel

/-! ## why the added hypotheses are needed (counterexamples to the statements without them) -/

section Counterexamples

private def z256 : BitStr := List.replicate 256 false
private def z254 : BitStr := List.replicate 254 false

/-- without `t ≠ CRoot.empty`: the proof generated on the empty tree is rejected, in both
configurations (all other hypotheses of `nonmembership_complete` hold trivially) -/
theorem nonmembership_complete_fails_empty :
    verifyNonMembership Cfg.whatsappV1 (CRoot.empty.rootHash Cfg.whatsappV1)
      (CRoot.empty.genNonMembership Cfg.whatsappV1 z256) = false ∧
    verifyNonMembership Cfg.experimental (CRoot.empty.rootHash Cfg.experimental)
      (CRoot.empty.genNonMembership Cfg.experimental z256) = false ∧
    CRoot.empty.WF ∧ Leaves256 CRoot.empty ∧ z256.length = 256 ∧ (∀ lf ∈ CRoot.empty.leaves, lf.lbl ≠ z256) := by
  refine ⟨by decide +kernel, by decide +kernel, by decide +kernel, ?_, by decide +kernel, ?_⟩ <;>
    intro lf h <;> simp [CRoot.empty, CRoot.leaves] at h

/-- a lawful configuration whose empty-label marker is the label of the 256-bit string `0…0` -/
private def cUnfresh256 : Cfg := { Cfg.whatsappV1 with emptyLabel := NodeLabel.ofBits z256 }
/-- a lawful configuration whose empty-label marker is the label of the bit string `0` -/
private def cUnfresh1 : Cfg := { Cfg.whatsappV1 with emptyLabel := NodeLabel.ofBits [false] }

private theorem cUnfresh256_lawful : cUnfresh256.Lawful := by
  refine ⟨?_, ?_, ?_, ?_, ?_, ?_, ?_, ?_, ?_, ?_, ?_⟩ <;> intros <;>
    simp_all [cUnfresh256, Cfg.whatsappV1]
private theorem cUnfresh1_lawful : cUnfresh1.Lawful := by
  refine ⟨?_, ?_, ?_, ?_, ?_, ?_, ?_, ?_, ?_, ?_, ?_⟩ <;> intros <;>
    simp_all [cUnfresh1, Cfg.whatsappV1]

/-- leaves `0^256`, `0^254·10`, `0^254·11`; the non-member `0^254·01` is anchored at the node
`0^254`, whose left child is the leaf `0^256` = the marker, so the verifier takes it for an empty
slot and recomputes the wrong anchor label -/
private def tC : CRoot :=
  CRoot.ofLeaves [⟨z256, .raw [1], 1⟩, ⟨z254 ++ [true, false], .raw [2], 1⟩, ⟨z254 ++ [true, true], .raw [3], 1⟩]

/-- without `EmptyLabelFresh`: completeness fails for a lawful configuration -/
theorem nonmembership_complete_fails_unfresh :
    cUnfresh256.Lawful ∧ tC.WF ∧ (∀ lf ∈ tC.leaves, lf.lbl.length = 256) ∧ tC ≠ CRoot.empty ∧
    (z254 ++ [false, true]).length = 256 ∧ (∀ lf ∈ tC.leaves, lf.lbl ≠ z254 ++ [false, true]) ∧
    verifyNonMembership cUnfresh256 (tC.rootHash cUnfresh256)
      (tC.genNonMembership cUnfresh256 (z254 ++ [false, true])) = false :=
  ⟨cUnfresh256_lawful, by decide +kernel, by decide +kernel, by decide +kernel, by decide +kernel,
    by decide +kernel, by decide +kernel⟩

/-- leaves `0^256` and `01·0^254` below the node `0`, whose label is the marker -/
private def tS : CRoot := CRoot.ofLeaves [⟨z256, .raw [1], 1⟩, ⟨[false, true] ++ z254, .raw [2], 1⟩]

/-- a non-membership proof for the MEMBER `0^256`, anchored at the root -/
private def forgedS : NonMembershipProof :=
  ⟨NodeLabel.ofBits z256, NodeLabel.root, CRoot.element cUnfresh1 tS.l, CRoot.element cUnfresh1 tS.r,
    ⟨NodeLabel.root, tS.value cUnfresh1 .withLeafEpoch, []⟩⟩

/-- without `EmptyLabelFresh`: soundness fails for a lawful configuration -/
theorem nonmembership_sound_fails_unfresh :
    cUnfresh1.Lawful ∧ tS.WF ∧ (∀ lf ∈ tS.leaves, lf.lbl.length = 256) ∧
    verifyNonMembership cUnfresh1 (tS.rootHash cUnfresh1) forgedS = true ∧
    (∃ lf ∈ tS.leaves, NodeLabel.ofBits lf.lbl = forgedS.label) :=
  ⟨cUnfresh1_lawful, by decide +kernel, by decide +kernel, by decide +kernel,
    ⟨z256, .raw [1], 1⟩, by decide +kernel, by decide +kernel⟩

end Counterexamples

end Akd.C05
