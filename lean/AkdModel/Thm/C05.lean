/-
C05 — tree membership and non-membership proofs are sound and complete.

`t` is any well-formed trie (`CRoot.WF`) whose leaves all have 256-bit labels; by
`Thm/C01.lean` (`wf_unique`) that is the canonical trie over its leaf set.  `π` ranges over
EVERY proof value, not only those a generator can produce.
-/
import AkdModel.CTrie
import AkdModel.Thm.C17
import AkdModel.Lemmas.TrieLemmas
namespace Akd.C05
open Akd

/-- everything a membership proof may legitimately speak about: the root, every node, and the
empty child slots of the root -/
def CTree.elements (c : Cfg) : CTree → List AzksElement
  | .leaf q v e => [(CTree.leaf q v e).element c]
  | .node q l r => (CTree.node q l r).element c :: (elements c l ++ elements c r)

def elements (c : Cfg) (t : CRoot) : List AzksElement :=
  ⟨NodeLabel.root, t.value c .withLeafEpoch⟩
    :: (CRoot.element c t.l :: CRoot.element c t.r
        :: ((t.l.map (CTree.elements c)).getD [] ++ (t.r.map (CTree.elements c)).getD []))

def Leaves256 (t : CRoot) : Prop := ∀ lf ∈ t.leaves, lf.lbl.length = 256

/-! ## completeness -/

/-- the generated proof verifies, for every tree and every query label -/
theorem membership_complete (c : Cfg) (t : CRoot) (x : BitStr) :
    verifyMembership c (t.rootHash c) (t.genMembership c x) = true := by
  sorry

/-- for a member the generated proof is about that leaf and carries its true digest -/
theorem membership_complete_leaf (c : Cfg) (t : CRoot) (hwf : t.WF) (lf : Leaf) (h : lf ∈ t.leaves) :
    (t.genMembership c lf.lbl).label = NodeLabel.ofBits lf.lbl ∧
    (t.genMembership c lf.lbl).hashVal = c.leafHash lf.value lf.ep := by
  sorry

/-- for a non-member the generated non-membership proof verifies -/
theorem nonmembership_complete (c : Cfg) (hc : c.Lawful) (t : CRoot) (hwf : t.WF) (h256 : Leaves256 t)
    (x : BitStr) (hx : x.length = 256) (hnot : ∀ lf ∈ t.leaves, lf.lbl ≠ x) :
    verifyNonMembership c (t.rootHash c) (t.genNonMembership c x) = true := by
  sorry

/-! ## soundness (full strength, for the repaired verifiers) -/

/-- an accepted membership proof speaks about a real element of the tree -/
theorem membership_sound (c : Cfg) (hc : c.Lawful) (t : CRoot) (π : MembershipProof)
    (h : verifyMembership c (t.rootHash c) π = true) :
    (⟨π.label, π.hashVal⟩ : AzksElement) ∈ elements c t := by
  sorry

/-- … in particular a leaf-shaped digest can only be proved for a real leaf, with its true
value and insertion epoch -/
theorem membership_sound_leaf (c : Cfg) (hc : c.Lawful) (t : CRoot) (π : MembershipProof)
    (v : Dig) (e : Nat) (hv : π.hashVal = c.leafHash v e)
    (h : verifyMembership c (t.rootHash c) π = true) :
    ∃ lf ∈ t.leaves, NodeLabel.ofBits lf.lbl = π.label ∧ lf.value = v ∧ lf.ep = e := by
  sorry

/-- an accepted non-membership proof is only possible for a label that is not a leaf -/
theorem nonmembership_sound (c : Cfg) (hc : c.Lawful) (t : CRoot) (hwf : t.WF) (h256 : Leaves256 t)
    (π : NonMembershipProof) (h : verifyNonMembership c (t.rootHash c) π = true) :
    ∀ lf ∈ t.leaves, NodeLabel.ofBits lf.lbl ≠ π.label := by
  sorry

/-! ## the verifiers of the pinned commit were not sound (defects D1, D8) -/

/-- D8: without the root-label check a sibling-less proof carrying the root value verifies for
ANY claimed label. -/
theorem membership_unbound_witness (c : Cfg) (t : CRoot) (x : NodeLabel) :
    Legacy.verifyMembership c (t.rootHash c) ⟨x, t.value c .withLeafEpoch, []⟩ = true := by
  sorry

/-- legacy soundness needs at least one sibling level -/
theorem membership_sound_legacy_partial (c : Cfg) (hc : c.Lawful) (t : CRoot) (π : MembershipProof)
    (hne : π.siblingProofs ≠ [])
    (h : Legacy.verifyMembership c (t.rootHash c) π = true) :
    (⟨π.label, π.hashVal⟩ : AzksElement) ∈ elements c t := by
  sorry

/-- D1: the 4-leaf tree {000, 001, 01, 1} and a forged non-membership proof for the MEMBER 000,
anchored at the node "0" (not the deepest matching node, which is "00"). -/
def d1Tree : CRoot :=
  CRoot.ofLeaves [⟨[false,false,false], .raw [1], 1⟩, ⟨[false,false,true], .raw [2], 1⟩,
                  ⟨[false,true], .raw [3], 1⟩, ⟨[true], .raw [4], 1⟩]

def d1Forged (c : Cfg) : NonMembershipProof :=
  let n0 : Option CTree := d1Tree.l     -- the node "0"
  match n0 with
  | some (.node q l r) =>
    ⟨NodeLabel.ofBits [false,false,false], NodeLabel.ofBits q, l.element c, r.element c,
      ⟨NodeLabel.ofBits q, (CTree.node q l r).azks c .withLeafEpoch,
        [⟨NodeLabel.root, CRoot.element c d1Tree.r, .left⟩]⟩⟩
  | _ => ⟨NodeLabel.root, NodeLabel.root, ⟨NodeLabel.root, .raw []⟩, ⟨NodeLabel.root, .raw []⟩, ⟨NodeLabel.root, .raw [], []⟩⟩

theorem nonmembership_unsound_witness :
    Legacy.verifyNonMembership Cfg.whatsappV1 (d1Tree.rootHash Cfg.whatsappV1) (d1Forged Cfg.whatsappV1) = true ∧
    Legacy.verifyNonMembership Cfg.experimental (d1Tree.rootHash Cfg.experimental) (d1Forged Cfg.experimental) = true ∧
    (∃ lf ∈ d1Tree.leaves, NodeLabel.ofBits lf.lbl = (d1Forged Cfg.whatsappV1).label) := by
  sorry

/-- the repaired verifier rejects that forgery -/
theorem nonmembership_witness_rejected :
    verifyNonMembership Cfg.whatsappV1 (d1Tree.rootHash Cfg.whatsappV1) (d1Forged Cfg.whatsappV1) = false ∧
    verifyNonMembership Cfg.experimental (d1Tree.rootHash Cfg.experimental) (d1Forged Cfg.experimental) = false := by
  sorry

/-! ## non-vacuity: a concrete tree meets the hypotheses -/
example : d1Tree.WF := by
  sorry

end Akd.C05
