/-
C19 — proofs survive protobuf encoding unchanged; malformed input is rejected cleanly.

The model (`Proto.lean`) has the typed layer (`enc*` / `dec*`: the `From` / `TryFrom` conversions of
`akd_core/src/proto/mod.rs`) and the wire layer (`writeMsg` / `parseBytes`: the canonical writer and
the parsing discipline of the generated code).  Decoding is a total function into `Option`
(`parseBytes`, `dec*`, `roundtripBytes`): in the model "never panics" holds by construction; that each
`none` is an `Err` and not a panic in the Rust is a correspondence fact (stream l1.pb).
-/
import AkdModel.Proto
import AkdModel.Blob
import AkdModel.Lemmas.ProtoLemmas
namespace Akd.C19
open Akd.Proto

/-! ## well-formedness of values (what every value produced by the directory satisfies) -/

def WFLabel (l : WLabel) : Prop := l.val.length = 32 ∧ l.len ≤ 256
def WFElement (e : WElement) : Prop := WFLabel e.label ∧ e.value.length = 32
def WFSibling (s : WSibling) : Prop := WFLabel s.label ∧ WFElement s.sibling ∧ s.direction ≤ 1
def WFMembership (p : WMembership) : Prop :=
  WFLabel p.label ∧ p.hashVal.length = 32 ∧ ∀ s ∈ p.siblings, WFSibling s
def WFNonMembership (p : WNonMembership) : Prop :=
  WFLabel p.label ∧ WFLabel p.longestPrefix ∧ WFElement p.child0 ∧ WFElement p.child1 ∧ WFMembership p.mp
def WFLookup (p : WLookup) : Prop :=
  WFMembership p.existence ∧ WFMembership p.marker ∧ WFNonMembership p.freshness
def WFUpdate (p : WUpdate) : Prop :=
  WFMembership p.existence ∧ (∀ m, p.previous = some m → WFMembership m)
def WFHistory (p : WHistory) : Prop :=
  (∀ u ∈ p.updates, WFUpdate u) ∧ (∀ m ∈ p.past, WFMembership m) ∧ (∀ m ∈ p.future, WFNonMembership m)
def WFSingle (p : WSingle) : Prop := (∀ e ∈ p.inserted, WFElement e) ∧ (∀ e ∈ p.unchanged, WFElement e)
def WFAppendOnly (p : WAppendOnly) : Prop := ∀ s ∈ p.proofs, WFSingle s

/-! ## typed layer: `try_from (from x) = x` -/

theorem label_roundtrip (l : WLabel) (h : WFLabel l) : decLabel (encLabel l) = some l := by sorry
theorem element_roundtrip (e : WElement) (h : WFElement e) : decElement (encElement e) = some e := by sorry
theorem sibling_roundtrip (s : WSibling) (h : WFSibling s) : decSibling (encSibling s) = some s := by sorry
theorem membership_roundtrip (p : WMembership) (h : WFMembership p) : decMembership (encMembership p) = some p := by sorry
theorem nonmembership_roundtrip (p : WNonMembership) (h : WFNonMembership p) :
    decNonMembership (encNonMembership p) = some p := by sorry
theorem lookup_roundtrip (p : WLookup) (h : WFLookup p) : decLookup (encLookup p) = some p := by sorry
theorem update_roundtrip (p : WUpdate) (h : WFUpdate p) : decUpdate (encUpdate p) = some p := by sorry
theorem history_roundtrip (p : WHistory) (h : WFHistory p) : decHistory (encHistory p) = some p := by sorry
theorem single_roundtrip (p : WSingle) (h : WFSingle p) : decSingle (encSingle p) = some p := by sorry
theorem appendonly_roundtrip (p : WAppendOnly) (h : WFAppendOnly p) : decAppendOnly (encAppendOnly p) = some p := by sorry

/-- an over-long label or a wrong-size digest is rejected by the conversion, not accepted -/
theorem label_too_long_rejected (m : PMsg) (v : Bytes) (n : Nat) (hv : m.get 1 = [.bytes v]) (hn : m.get 2 = [.num n])
    (h : 32 < v.length ∨ 256 < n) : decLabel m = none := by sorry

theorem digest_wrong_size_rejected (m : PMsg) (lm : PMsg) (v : Bytes) (hl : m.get 1 = [.msg lm]) (hv : m.get 2 = [.bytes v])
    (h : v.length ≠ 32) : decElement m = none := by sorry

/-! ## wire layer -/

theorem varint64_roundtrip (n : Nat) (h : n < 2 ^ 64) (rest : Bytes) :
    readVarint64 (writeVarint n ++ rest) = some (n, rest) := by sorry

theorem varint32_roundtrip (n : Nat) (h : n < 2 ^ 32) (rest : Bytes) :
    readVarint32 (writeVarint n ++ rest) = some (n, rest) := by sorry

/-- a message built by the `enc*` functions: fields with the kinds of the schema, numbers in range,
nesting depth bounded (defined by recursion on the depth) -/
def MsgOK : Nat → MsgTy → PMsg → Prop
  | 0, _, _ => False
  | d + 1, ty, m =>
    m.map (·.1) = (m.map (·.1)).eraseDups ∧
    ∀ n vs, (n, vs) ∈ m → ∃ f, findSpec ty n = some f ∧
      (f.repeated = false → vs.length ≤ 1) ∧
      ∀ v ∈ vs, match v, f.kind with
        | .bytes b, .bytes => b.length < 2 ^ 31
        | .num k, .uint32 => k < 2 ^ 32
        | .num k, .uint64 => k < 2 ^ 64
        | .msg sub, .msg sty => MsgOK d sty sub ∧ (writeMsgF d sty sub).length < 2 ^ 31
        | _, _ => False

/-- **wire round trip**: parsing what the canonical writer wrote gives back the same fields -/
theorem wire_roundtrip (ty : MsgTy) (m : PMsg) (h : MsgOK 12 ty m) :
    ∃ m', parseBytes ty (writeMsg ty m) = some m' ∧ ∀ n, m'.get n = m.get n := by sorry

/-- hence a well-formed lookup proof survives encode → bytes → parse → convert unchanged (the other
proof types follow the same way) -/
theorem lookup_bytes_roundtrip (p : WLookup) (h : WFLookup p) (hok : MsgOK 12 .lookupProof (encLookup p)) :
    ∃ m', parseBytes .lookupProof (writeMsg .lookupProof (encLookup p)) = some m' ∧ decLookup m' = some p := by sorry

theorem history_bytes_roundtrip (p : WHistory) (h : WFHistory p) (hok : MsgOK 12 .historyProof (encHistory p)) :
    ∃ m', parseBytes .historyProof (writeMsg .historyProof (encHistory p)) = some m' ∧ decHistory m' = some p := by sorry

theorem appendonly_bytes_roundtrip (p : WAppendOnly) (h : WFAppendOnly p) (hok : MsgOK 12 .appendOnly (encAppendOnly p)) :
    ∃ m', parseBytes .appendOnly (writeMsg .appendOnly (encAppendOnly p)) = some m' ∧ decAppendOnly m' = some p := by sorry

/-! ## blob names -/
theorem blobname_roundtrip (n : Blob.Name) (he : n.epoch < 2 ^ 64) (hp : n.previous.length = 32)
    (hc : n.current.length = 32) : Blob.parse? (Blob.render n) = some n := by sorry

end Akd.C19
