/-
C19 — proofs survive protobuf encoding unchanged; malformed input is rejected cleanly.

The model (`Proto.lean`) has the typed layer (`enc*` / `dec*`: the `From` / `TryFrom` conversions of
`akd_core/src/proto/mod.rs`) and the wire layer (`writeMsg` / `parseBytes`: the canonical writer and
the parsing discipline of the generated code).  Decoding is a total function into `Option`
(`parseBytes`, `dec*`, `roundtripBytes`): in the model "never panics" holds by construction; that each
`none` is an `Err` and not a panic in the Rust is a correspondence fact (stream l1.pb).
-/
import AkdModel.Proto
import AkdModel.Blob
import AkdModel.Lemmas.ProtoLemmas
import AkdModel.Lemmas.ProtoParse
import AkdModel.Lemmas.ProtoLen
import AkdModel.Lemmas.ProtoDecEqv
import AkdModel.Lemmas.ProtoBlob
namespace Akd.C19
open Akd.Proto

/-! ## well-formedness of values (what every value produced by the directory satisfies) -/

def WFLabel (l : WLabel) : Prop := l.val.length = 32 ∧ l.len ≤ 256
def WFElement (e : WElement) : Prop := WFLabel e.label ∧ e.value.length = 32
def WFSibling (s : WSibling) : Prop := WFLabel s.label ∧ WFElement s.sibling ∧ s.direction ≤ 1
def WFMembership (p : WMembership) : Prop :=
  WFLabel p.label ∧ p.hashVal.length = 32 ∧ ∀ s ∈ p.siblings, WFSibling s
def WFNonMembership (p : WNonMembership) : Prop :=
  WFLabel p.label ∧ WFLabel p.longestPrefix ∧ WFElement p.child0 ∧ WFElement p.child1 ∧ WFMembership p.mp
def WFLookup (p : WLookup) : Prop :=
  WFMembership p.existence ∧ WFMembership p.marker ∧ WFNonMembership p.freshness
def WFUpdate (p : WUpdate) : Prop :=
  WFMembership p.existence ∧ (∀ m, p.previous = some m → WFMembership m)
def WFHistory (p : WHistory) : Prop :=
  (∀ u ∈ p.updates, WFUpdate u) ∧ (∀ m ∈ p.past, WFMembership m) ∧ (∀ m ∈ p.future, WFNonMembership m)
def WFSingle (p : WSingle) : Prop := (∀ e ∈ p.inserted, WFElement e) ∧ (∀ e ∈ p.unchanged, WFElement e)
def WFAppendOnly (p : WAppendOnly) : Prop := ∀ s ∈ p.proofs, WFSingle s

/-! ## typed layer: `try_from (from x) = x` -/

theorem label_roundtrip (l : WLabel) (h : WFLabel l) : decLabel (encLabel l) = some l := by
  obtain ⟨h1, h2⟩ := h
  have hm := minimize_length_le l.val
  have h3 : ¬ (minimize l.val).length > 32 := by omega
  have h4 : ¬ l.len > 256 := by omega
  simp [decLabel, encLabel, reqNum, reqBytes, PMsg.get, h3, h4, pad32_minimize l.val h1]

theorem element_roundtrip (e : WElement) (h : WFElement e) : decElement (encElement e) = some e := by
  obtain ⟨h1, h2⟩ := h
  simp [decElement, encElement, reqMsg, reqBytes, PMsg.get, label_roundtrip _ h1, digest32, h2]

theorem sibling_roundtrip (s : WSibling) (h : WFSibling s) : decSibling (encSibling s) = some s := by
  obtain ⟨h1, h2, h3⟩ := h
  have hd : s.direction &&& 0xF = s.direction := by
    have : s.direction = 0 ∨ s.direction = 1 := by omega
    rcases this with h | h <;> rw [h] <;> rfl
  simp [decSibling, encSibling, reqMsg, reqNum, PMsg.get, label_roundtrip _ h1, msgsOf, 
    element_roundtrip _ h2, hd, h3]

theorem membership_roundtrip (p : WMembership) (h : WFMembership p) : decMembership (encMembership p) = some p := by
  obtain ⟨h1, h2, h3⟩ := h
  simp [decMembership, encMembership, reqMsg, reqBytes, PMsg.get, label_roundtrip _ h1, digest32, h2,
    msgsOf_map encSibling, mapM_map_some encSibling decSibling id p.siblings (fun s hs => sibling_roundtrip s (h3 s hs))]

theorem nonmembership_roundtrip (p : WNonMembership) (h : WFNonMembership p) :
    decNonMembership (encNonMembership p) = some p := by
  obtain ⟨h1, h2, h3, h4, h5⟩ := h
  simp [decNonMembership, encNonMembership, reqMsg, PMsg.get, label_roundtrip _ h1, label_roundtrip _ h2,
    membership_roundtrip _ h5, msgsOf, element_roundtrip _ h3, element_roundtrip _ h4]

theorem lookup_roundtrip (p : WLookup) (h : WFLookup p) : decLookup (encLookup p) = some p := by
  obtain ⟨h1, h2, h3⟩ := h
  simp [decLookup, encLookup, reqMsg, reqBytes, reqNum, PMsg.get, membership_roundtrip _ h1,
    membership_roundtrip _ h2, nonmembership_roundtrip _ h3]


theorem update_roundtrip (p : WUpdate) (h : WFUpdate p) : decUpdate (encUpdate p) = some p := by
  obtain ⟨h1, h2⟩ := h
  obtain ⟨epoch, value, version, ev, ex, pv, pp, nonce⟩ := p
  cases pv <;> cases pp <;>
    simp [decUpdate, encUpdate, reqMsg, reqBytes, reqNum, optBytes, PMsg.get, membership_roundtrip _ h1]
  all_goals simp [membership_roundtrip _ (h2 _ rfl)]

theorem history_roundtrip (p : WHistory) (h : WFHistory p) : decHistory (encHistory p) = some p := by
  obtain ⟨h1, h2, h3⟩ := h
  simp [decHistory, encHistory, PMsg.get, msgsOf_map encUpdate, msgsOf_map encMembership,
    msgsOf_map encNonMembership, bytesOf_map,
    mapM_map_some encUpdate decUpdate id p.updates (fun s hs => update_roundtrip s (h1 s hs)),
    mapM_map_some encMembership decMembership id p.past (fun s hs => membership_roundtrip s (h2 s hs)),
    mapM_map_some encNonMembership decNonMembership id p.future (fun s hs => nonmembership_roundtrip s (h3 s hs))]

theorem single_roundtrip (p : WSingle) (h : WFSingle p) : decSingle (encSingle p) = some p := by
  obtain ⟨h1, h2⟩ := h
  simp [decSingle, encSingle, PMsg.get, msgsOf_map encElement,
    mapM_map_some encElement decElement id p.inserted (fun s hs => element_roundtrip s (h1 s hs)),
    mapM_map_some encElement decElement id p.unchanged (fun s hs => element_roundtrip s (h2 s hs))]

theorem appendonly_roundtrip (p : WAppendOnly) (h : WFAppendOnly p) : decAppendOnly (encAppendOnly p) = some p := by
  simp [decAppendOnly, encAppendOnly, PMsg.get, msgsOf_map encSingle, numsOf_map,
    mapM_map_some encSingle decSingle id p.proofs (fun s hs => single_roundtrip s (h s hs))]

/-- an over-long label or a wrong-size digest is rejected by the conversion, not accepted -/
theorem label_too_long_rejected (m : PMsg) (v : Bytes) (n : Nat) (hv : m.get 1 = [.bytes v]) (hn : m.get 2 = [.num n])
    (h : 32 < v.length ∨ 256 < n) : decLabel m = none := by
  simp only [decLabel, reqNum, reqBytes, hv, hn]
  rcases h with h | h
  · simp [h]
  · by_cases h' : v.length > 32 <;> simp [h, h']

theorem digest_wrong_size_rejected (m : PMsg) (lm : PMsg) (v : Bytes) (hl : m.get 1 = [.msg lm]) (hv : m.get 2 = [.bytes v])
    (h : v.length ≠ 32) : decElement m = none := by
  simp only [decElement, reqMsg, reqBytes, hv, hl, digest32]
  cases decLabel lm <;> simp [h]

/-! ## wire layer -/

theorem varint64_roundtrip (n : Nat) (h : n < 2 ^ 64) (rest : Bytes) :
    readVarint64 (writeVarint n ++ rest) = some (n, rest) := readVarint64_write n h rest

theorem varint32_roundtrip (n : Nat) (h : n < 2 ^ 32) (rest : Bytes) :
    readVarint32 (writeVarint n ++ rest) = some (n, rest) := readVarint32_write n h rest

/-- a message built by the `enc*` functions: fields with the kinds of the schema, numbers in range,
nesting depth bounded (defined by recursion on the depth) -/
def MsgOK : Nat → MsgTy → PMsg → Prop
  | 0, _, _ => False
  | d + 1, ty, m =>
    m.map (·.1) = (m.map (·.1)).eraseDups ∧
    ∀ n vs, (n, vs) ∈ m → ∃ f, findSpec ty n = some f ∧
      (f.repeated = false → vs.length ≤ 1) ∧
      ∀ v ∈ vs, match v, f.kind with
        | .bytes b, .bytes => b.length < 2 ^ 31
        | .num k, .uint32 => k < 2 ^ 32
        | .num k, .uint64 => k < 2 ^ 64
        | .msg sub, .msg sty => MsgOK d sty sub ∧ (writeMsgF d sty sub).length < 2 ^ 31
        | _, _ => False

/-- two parsed messages are the same up to representation: for every field number the same values in
the same order (`ListRel`: same length, pointwise), nested messages compared the same way one level
down.  What is abstracted is the order of the keys of the association list and the difference between
an absent key and a key with no values — the parser never produces the latter, `enc*` does (a
membership proof without siblings); the conversions `dec*` cannot tell the difference
(`decLookup_eqv` …).  NOT in the statement of `wire_roundtrip` as first written, see there. -/
def MsgEqv : Nat → PMsg → PMsg → Prop
  | 0, _, _ => False
  | d + 1, a, b => ∀ n, ListRel (fun x y => match x, y with
      | .bytes p, .bytes q => p = q
      | .num p, .num q => p = q
      | .msg s, .msg t => MsgEqv d s t
      | _, _ => False) (a.get n) (b.get n)

theorem MsgOK_WireOK : ∀ d ty m, MsgOK d ty m → WireOK d ty m
  | 0, _, _, h => h
  | d + 1, ty, m, h => by
    intro n vs hmem
    obtain ⟨f, hf, hs, hv⟩ := h.2 n vs hmem
    refine ⟨f, hf, hs, fun v hvm => ?_⟩
    have hv' := hv v hvm
    obtain ⟨num, kind, rep⟩ := f
    cases v <;> cases kind <;> simp only [ValOKWith] at hv' ⊢ <;> try exact hv'
    exact ⟨MsgOK_WireOK d _ _ hv'.1, hv'.2⟩

theorem ListRel_imp {α β : Type} {R R' : α → β → Prop} (h : ∀ x y, R x y → R' x y) :
    ∀ (a : List α) (b : List β), ListRel R a b → ListRel R' a b
  | [], [], _ => trivial
  | [], _ :: _, hr => hr.elim
  | _ :: _, [], hr => hr.elim
  | x :: xs, y :: ys, hr => ⟨h x y hr.1, ListRel_imp h xs ys hr.2⟩

theorem MsgEqv_iff_WireEqv : ∀ d a b, MsgEqv d a b ↔ WireEqv d a b
  | 0, _, _ => Iff.rfl
  | d + 1, a, b => by
    constructor
    · intro h n
      refine ListRel_imp (fun x y hxy => ?_) _ _ (h n)
      cases x <;> cases y <;> simp only [ValEqvWith] at hxy ⊢ <;> try exact hxy
      exact (MsgEqv_iff_WireEqv d _ _).mp hxy
    · intro h n
      refine ListRel_imp (fun x y hxy => ?_) _ _ (h n)
      cases x <;> cases y <;> simp only [ValEqvWith] at hxy ⊢ <;> try exact hxy
      exact (MsgEqv_iff_WireEqv d _ _).mpr hxy

/-- **wire round trip**: parsing what the canonical writer wrote gives back the same fields.

Two changes against the first statement, both forced (counterexamples evaluated with `#eval`):
* the conclusion was `∀ n, m'.get n = m.get n`.  That is false as soon as a nested message is not in the
  parser's own normal form (keys in order of appearance, no key without values): for
  `m = [(1, [.msg [(2, [.num 5]), (1, [.bytes []])]])]` at `azksElement` the parser returns the nested
  label as `[(1, …), (2, …)]`; and `encMembership` of a proof without siblings has the entry `(3, [])`
  that no parsed message has.  The conclusion is now `MsgEqv 12 m' m`.
* the hypothesis `hlen`: the top-level stream has limit `2 ^ 64` (`parseBytes`), `MsgOK` bounds nested
  messages only; a top-level repeated field can make the encoding longer, and then the parser stops at
  the limit and returns a prefix of the values. -/
theorem wire_roundtrip (ty : MsgTy) (m : PMsg) (h : MsgOK 12 ty m) (hlen : (writeMsg ty m).length ≤ 2 ^ 64) :
    ∃ m', parseBytes ty (writeMsg ty m) = some m' ∧ MsgEqv 12 m' m := by
  obtain ⟨m', he, hp⟩ := parse_write 12 ty m 120 0 (MsgOK_WireOK 12 ty m h) (by decide) (by decide)
  refine ⟨m', ?_, (MsgEqv_iff_WireEqv 12 m' m).mpr he⟩
  have := hp [] (2 ^ 64) hlen (Or.inl rfl)
  rw [List.append_nil] at this
  unfold parseBytes writeMsg
  rw [this]
  rfl

/-- on scalar fields `MsgEqv` is equality of the values, i.e. the conclusion of `wire_roundtrip` as first
stated; only nested messages are compared up to representation -/
theorem MsgEqv_get_scalar (d : Nat) (a b : PMsg) (h : MsgEqv (d + 1) a b) (n : Nat)
    (hs : ∀ v ∈ b.get n, ∀ s, v ≠ .msg s) : a.get n = b.get n := by
  have key : ∀ (x y : List PVal), ListRel (fun x y => match x, y with
      | .bytes p, .bytes q => p = q
      | .num p, .num q => p = q
      | .msg s, .msg t => MsgEqv d s t
      | _, _ => False) x y → (∀ v ∈ y, ∀ s, v ≠ .msg s) → x = y := by
    intro x
    induction x with
    | nil => intro y hr _; cases y with
      | nil => rfl
      | cons _ _ => exact hr.elim
    | cons v x ih => intro y hr hy; cases y with
      | nil => exact hr.elim
      | cons w y =>
        have h1 := hr.1
        have h2 := ih y hr.2 (fun u hu => hy u (List.mem_cons_of_mem _ hu))
        have h3 := hy w List.mem_cons_self
        cases v <;> cases w <;> simp only at h1
        · rw [h1, h2]
        · rw [h1, h2]
        · exact absurd rfl (h3 _)
  exact key _ _ (h n) hs

/-- the conversions cannot distinguish messages that are equal up to representation -/
theorem decLookup_eqv (d : Nat) (a b : PMsg) (h : MsgEqv d a b) : decLookup a = decLookup b :=
  decLookup_congr d a b ((MsgEqv_iff_WireEqv d a b).mp h)
theorem decHistory_eqv (d : Nat) (a b : PMsg) (h : MsgEqv d a b) : decHistory a = decHistory b :=
  decHistory_congr d a b ((MsgEqv_iff_WireEqv d a b).mp h)
theorem decAppendOnly_eqv (d : Nat) (a b : PMsg) (h : MsgEqv d a b) : decAppendOnly a = decAppendOnly b :=
  decAppendOnly_congr d a b ((MsgEqv_iff_WireEqv d a b).mp h)

/-- hence a well-formed lookup proof survives encode → bytes → parse → convert unchanged (the other
proof types follow the same way); no length hypothesis: all fields of a lookup proof are singular, so
`MsgOK` bounds the whole encoding -/
theorem lookup_bytes_roundtrip (p : WLookup) (h : WFLookup p) (hok : MsgOK 12 .lookupProof (encLookup p)) :
    ∃ m', parseBytes .lookupProof (writeMsg .lookupProof (encLookup p)) = some m' ∧ decLookup m' = some p := by
  have hlen : (writeMsg .lookupProof (encLookup p)).length ≤ 2 ^ 64 := by
    have hb : (writeMsgF 12 .lookupProof (encLookup p)).length ≤ 10 * (2 ^ 31 + 20) :=
      writeMsgF_length_singular 11 .lookupProof (encLookup p) (MsgOK_WireOK 12 _ _ hok) (by decide)
    unfold writeMsg
    omega
  obtain ⟨m', hp, he⟩ := wire_roundtrip .lookupProof (encLookup p) hok hlen
  exact ⟨m', hp, by rw [decLookup_eqv 12 _ _ he, lookup_roundtrip p h]⟩

/-- `hlen` added: the top-level fields are repeated (see `wire_roundtrip`) -/
theorem history_bytes_roundtrip (p : WHistory) (h : WFHistory p) (hok : MsgOK 12 .historyProof (encHistory p))
    (hlen : (writeMsg .historyProof (encHistory p)).length ≤ 2 ^ 64) :
    ∃ m', parseBytes .historyProof (writeMsg .historyProof (encHistory p)) = some m' ∧ decHistory m' = some p := by
  obtain ⟨m', hp, he⟩ := wire_roundtrip .historyProof (encHistory p) hok hlen
  exact ⟨m', hp, by rw [decHistory_eqv 12 _ _ he, history_roundtrip p h]⟩

/-- `hlen` added: the top-level fields are repeated (see `wire_roundtrip`) -/
theorem appendonly_bytes_roundtrip (p : WAppendOnly) (h : WFAppendOnly p) (hok : MsgOK 12 .appendOnly (encAppendOnly p))
    (hlen : (writeMsg .appendOnly (encAppendOnly p)).length ≤ 2 ^ 64) :
    ∃ m', parseBytes .appendOnly (writeMsg .appendOnly (encAppendOnly p)) = some m' ∧ decAppendOnly m' = some p := by
  obtain ⟨m', hp, he⟩ := wire_roundtrip .appendOnly (encAppendOnly p) hok hlen
  exact ⟨m', hp, by rw [decAppendOnly_eqv 12 _ _ he, appendonly_roundtrip p h]⟩

/-- the same as an equation on `roundtripBytes` (what the harness stream `l1.pb` observes) -/
theorem lookup_roundtripBytes (p : WLookup) (h : WFLookup p) (hok : MsgOK 12 .lookupProof (encLookup p)) :
    roundtripBytes .lookupProof (writeMsg .lookupProof (encLookup p)) =
      some (some (writeMsg .lookupProof (encLookup p))) := by
  obtain ⟨m', hp, hd⟩ := lookup_bytes_roundtrip p h hok
  simp [roundtripBytes, hp, hd]

/-! ### non-vacuity: a concrete lookup proof with one sibling level -/

def exLabel : WLabel := ⟨List.replicate 31 0x11 ++ [0], 256⟩
def exElement : WElement := ⟨exLabel, List.replicate 32 0x22⟩
def exMembership : WMembership := ⟨exLabel, List.replicate 32 0x33, [⟨exLabel, exElement, 1⟩]⟩
def exLookup : WLookup :=
  { epoch := 300, value := [1, 2, 3], version := 2, existenceVrf := [9, 9], existence := exMembership,
    markerVrf := [8], marker := exMembership, freshnessVrf := [7],
    freshness := ⟨exLabel, exLabel, exElement, exElement, exMembership⟩, nonce := [4, 5] }

/-- executable check of `MsgOK` -/
def msgOKb : Nat → MsgTy → PMsg → Bool
  | 0, _, _ => false
  | d + 1, ty, m =>
    decide (m.map (·.1) = (m.map (·.1)).eraseDups) &&
    m.all fun e =>
      match findSpec ty e.1 with
      | none => false
      | some f =>
        (f.repeated || decide (e.2.length ≤ 1)) &&
        e.2.all fun v =>
          match v, f.kind with
          | .bytes b, .bytes => decide (b.length < 2 ^ 31)
          | .num k, .uint32 => decide (k < 2 ^ 32)
          | .num k, .uint64 => decide (k < 2 ^ 64)
          | .msg sub, .msg sty => msgOKb d sty sub && decide ((writeMsgF d sty sub).length < 2 ^ 31)
          | _, _ => false

theorem msgOKb_sound : ∀ d ty m, msgOKb d ty m = true → MsgOK d ty m
  | 0, _, _, h => by simp [msgOKb] at h
  | d + 1, ty, m, h => by
    simp only [msgOKb, Bool.and_eq_true, decide_eq_true_eq, List.all_eq_true] at h
    refine ⟨h.1, fun n vs hmem => ?_⟩
    have h2 := h.2 (n, vs) hmem
    simp only at h2
    cases hf : findSpec ty n with
    | none => simp [hf] at h2
    | some f =>
      simp only [hf, Bool.and_eq_true, Bool.or_eq_true, decide_eq_true_eq, List.all_eq_true] at h2
      refine ⟨f, rfl, fun hr => ?_, fun v hv => ?_⟩
      · rcases h2.1 with h3 | h3
        · rw [hr] at h3; cases h3
        · exact h3
      · have h3 := h2.2 v hv
        obtain ⟨num, kind, rep⟩ := f
        cases v <;> cases kind <;> simp only [Bool.and_eq_true, decide_eq_true_eq, Bool.false_eq_true] at h3 ⊢
        all_goals first | exact h3 | exact ⟨msgOKb_sound d _ _ h3.1, h3.2⟩

theorem exLookup_wf : WFLookup exLookup := by
  simp [WFLookup, WFMembership, WFNonMembership, WFSibling, WFElement, WFLabel, exLookup, exMembership,
    exElement, exLabel]

theorem exLookup_ok : MsgOK 12 .lookupProof (encLookup exLookup) := msgOKb_sound _ _ _ (by decide +kernel)

example : decLookup (encLookup exLookup) = some exLookup := lookup_roundtrip _ exLookup_wf

/-- `parseMsg` is defined by well-founded recursion and does not reduce by `decide`/`rfl`; the equation
is an instance of the theorem (and is what `#eval` gives) -/
example : roundtripBytes .lookupProof (writeMsg .lookupProof (encLookup exLookup)) =
    some (some (writeMsg .lookupProof (encLookup exLookup))) :=
  lookup_roundtripBytes _ exLookup_wf exLookup_ok

example : (writeMsg .lookupProof (encLookup exLookup)).length = 824 := by decide +kernel

/-! ## blob names -/
theorem blobname_roundtrip (n : Blob.Name) (he : n.epoch < 2 ^ 64) (hp : n.previous.length = 32)
    (hc : n.current.length = 32) : Blob.parse? (Blob.render n) = some n :=
  Blob.parse_render n he hp hc

end Akd.C19
