/-
C14, sub-batch clause — "inserting the same leaf set ... split into any sub-batches within one epoch, yields the
same tree".

`batchInsert_refines` (Thm/C01b) requires every leaf already in the tree to be OLDER than the epoch being
inserted.  Within one epoch that is false for the second sub-batch: the first one has already put leaves of the
new epoch into the tree (the caller re-uses the epoch by resetting `latest_epoch`, as the order/sub-batch runs of
the harness and `Azks::batch_insert_nodes` callers do).  `batchInsert_refines_sameEpoch` is the refinement theorem
with the weaker hypothesis `lf.ep ≤ a.latestEpoch + 1`; `batchInsert_split` is the clause.
-/
import AkdModel.Thm.C01b
import AkdModel.Lemmas.InsertSameEpoch
namespace Akd.C01
open Akd

/-- the refinement theorem for a tree that may already hold leaves of the epoch being inserted -/
theorem batchInsert_refines_sameEpoch (c : Cfg) (hc : c.emptyLabel.len = 0) (m : InsertMode)
    (s : NodeStore) (a : Azks) (t : CRoot)
    (hrep : ReprRoot c m s t) (hwf : t.WF)
    (hep : ∀ lf ∈ t.leaves, 1 ≤ lf.ep ∧ lf.ep ≤ a.latestEpoch + 1)
    (els : List (BitStr × Dig))
    (hpf : PrefixFree (t.leaves ++ newLeaves els (a.latestEpoch + 1)))
    (hlen : ∀ lf ∈ t.leaves ++ newLeaves els (a.latestEpoch + 1), 1 ≤ lf.lbl.length ∧ lf.lbl.length ≤ 256) :
    ∃ s' n, s.batchInsert c m a (els.map fun x => (NodeLabel.ofBits x.1, x.2))
        = .ok (s', ⟨a.latestEpoch + 1, n⟩) ∧
      ReprRoot c m s' ((newLeaves els (a.latestEpoch + 1)).foldl CRoot.insert1 t) := by
  obtain ⟨s', n, t', hrun, hrep', hwf', hperm⟩ :=
    Ins.batchInsert_root_le c hc m s a t ((reprRoot_iff c m s t).1 hrep) hwf hep els hpf hlen
  obtain ⟨fw, fp⟩ := foldl_insert1_spec t hwf els _ hpf hlen
  have heq : t' = (newLeaves els (a.latestEpoch + 1)).foldl CRoot.insert1 t :=
    wf_unique _ _ hwf' fw (hperm.trans fp.symm)
  exact ⟨s', n, hrun, heq ▸ (reprRoot_iff c m s' t').2 hrep'⟩

/-- **sub-batches**: inserting `e1` and then, in the same epoch, `e2` yields storage representing the same canonical
trie as inserting `e1 ++ e2` at once -/
theorem batchInsert_split (c : Cfg) (hc : c.emptyLabel.len = 0) (m : InsertMode)
    (s : NodeStore) (a : Azks) (t : CRoot)
    (hrep : ReprRoot c m s t) (hwf : t.WF)
    (hep : ∀ lf ∈ t.leaves, 1 ≤ lf.ep ∧ lf.ep ≤ a.latestEpoch)
    (e1 e2 : List (BitStr × Dig))
    (hpf : PrefixFree (t.leaves ++ newLeaves (e1 ++ e2) (a.latestEpoch + 1)))
    (hlen : ∀ lf ∈ t.leaves ++ newLeaves (e1 ++ e2) (a.latestEpoch + 1), 1 ≤ lf.lbl.length ∧ lf.lbl.length ≤ 256) :
    ∃ s1 n1 s2 n2 s12 n12 t',
      s.batchInsert c m a (e1.map fun x => (NodeLabel.ofBits x.1, x.2)) = .ok (s1, ⟨a.latestEpoch + 1, n1⟩) ∧
      s1.batchInsert c m ⟨a.latestEpoch, n1⟩ (e2.map fun x => (NodeLabel.ofBits x.1, x.2))
        = .ok (s2, ⟨a.latestEpoch + 1, n2⟩) ∧
      s.batchInsert c m a ((e1 ++ e2).map fun x => (NodeLabel.ofBits x.1, x.2)) = .ok (s12, ⟨a.latestEpoch + 1, n12⟩) ∧
      ReprRoot c m s2 t' ∧ ReprRoot c m s12 t' := by
  obtain ⟨hpf1, hlen1⟩ := split_fst t e1 e2 _ hpf hlen
  obtain ⟨w1, hep1, hpf2, hlen2⟩ := split_snd t hwf e1 e2 (a.latestEpoch + 1) (Nat.le_add_left _ _)
    (fun lf h => ⟨(hep lf h).1, Nat.le_succ_of_le (hep lf h).2⟩) hpf hlen
  obtain ⟨s1, n1, hrun1, hrep1⟩ := batchInsert_refines c hc m s a t hrep hwf hep e1 hpf1 hlen1
  obtain ⟨s2, n2, hrun2, hrep2⟩ := batchInsert_refines_sameEpoch c hc m s1 ⟨a.latestEpoch, n1⟩ _ hrep1 w1 hep1
    e2 hpf2 hlen2
  obtain ⟨s12, n12, hrun12, hrep12⟩ := batchInsert_refines c hc m s a t hrep hwf hep (e1 ++ e2) hpf hlen
  rw [foldl_newLeaves_append] at hrep12
  exact ⟨s1, n1, s2, n2, s12, n12, _, hrun1, hrun2, hrun12, hrep2, hrep12⟩

/-- in directory mode the two ways publish the same root hash -/
theorem batchInsert_split_rootHash (c : Cfg) (hc : c.emptyLabel.len = 0)
    (s : NodeStore) (a : Azks) (t : CRoot)
    (hrep : ReprRoot c .directory s t) (hwf : t.WF)
    (hep : ∀ lf ∈ t.leaves, 1 ≤ lf.ep ∧ lf.ep ≤ a.latestEpoch)
    (e1 e2 : List (BitStr × Dig))
    (hpf : PrefixFree (t.leaves ++ newLeaves (e1 ++ e2) (a.latestEpoch + 1)))
    (hlen : ∀ lf ∈ t.leaves ++ newLeaves (e1 ++ e2) (a.latestEpoch + 1), 1 ≤ lf.lbl.length ∧ lf.lbl.length ≤ 256) :
    ∃ s1 n1 s2 a2 s12 a12,
      s.batchInsert c .directory a (e1.map fun x => (NodeLabel.ofBits x.1, x.2)) = .ok (s1, ⟨a.latestEpoch + 1, n1⟩) ∧
      s1.batchInsert c .directory ⟨a.latestEpoch, n1⟩ (e2.map fun x => (NodeLabel.ofBits x.1, x.2)) = .ok (s2, a2) ∧
      s.batchInsert c .directory a ((e1 ++ e2).map fun x => (NodeLabel.ofBits x.1, x.2)) = .ok (s12, a12) ∧
      s2.rootHash c a2 = s12.rootHash c a12 := by
  obtain ⟨hpf1, hlen1⟩ := split_fst t e1 e2 _ hpf hlen
  obtain ⟨w1, hep1, hpf2, hlen2⟩ := split_snd t hwf e1 e2 (a.latestEpoch + 1) (Nat.le_add_left _ _)
    (fun lf h => ⟨(hep lf h).1, Nat.le_succ_of_le (hep lf h).2⟩) hpf hlen
  obtain ⟨s1, n1, hrun1, hrep1⟩ := batchInsert_refines c hc .directory s a t hrep hwf hep e1 hpf1 hlen1
  obtain ⟨s2, n2, hrun2, hrep2⟩ := batchInsert_refines_sameEpoch c hc .directory s1 ⟨a.latestEpoch, n1⟩ _ hrep1 w1
    hep1 e2 hpf2 hlen2
  obtain ⟨s12, n12, hrun12, hrep12⟩ := batchInsert_refines c hc .directory s a t hrep hwf hep (e1 ++ e2) hpf hlen
  have hle := foldl_ep_le t hwf a hep (e1 ++ e2) hpf hlen
  refine ⟨s1, n1, s2, _, s12, _, hrun1, hrun2, hrun12, ?_⟩
  rw [rootHash_of_reprRoot c .directory s12 _ _ n12 hrep12 hle]
  rw [foldl_newLeaves_append] at hle
  rw [rootHash_of_reprRoot c .directory s2 _ _ n2 hrep2 hle, foldl_newLeaves_append]

end Akd.C01
