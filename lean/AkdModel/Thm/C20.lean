/-
C20 — tombstoning old values never changes what the directory has committed to.

`Dir.tombstone` (the model of `tombstone_value_states`, manager/mod.rs:421-447) rewrites value states
only.  The tree never reads value states; lookup reads only the latest one; publish compares with the
latest value only.  Hence everything the directory has committed to is unchanged, now and after
further publishes.  (What the two history verifiers make of a tombstoned entry is C07:
`history_sound` / `history_sound_tombstone`.)
-/
import AkdModel.Dir
import AkdModel.Verify
import AkdModel.Lemmas.TombLemmas
namespace Akd.C20
open Akd

/-- the latest update of `u` is later than the cut-off -/
def CutBelowLatest (d : Dir) (u : Bytes) (cut : Nat) : Prop :=
  ∃ a, d.azks = some a ∧ ∃ st, d.stateLeq u a.latestEpoch = some st ∧ cut < st.epoch

/-- the states of `d'` are those of `d` with some values of `u` emptied -/
def SameUpToValues (d d' : Dir) (u : Bytes) (cut : Nat) : Prop :=
  d'.states.length = d.states.length ∧
  ∀ i (h : i < d.states.length) (h' : i < d'.states.length),
    let s := d.states[i]; let s' := d'.states[i]
    s'.username = s.username ∧ s'.epoch = s.epoch ∧ s'.version = s.version ∧ s'.label = s.label ∧
    (s'.value = s.value ∨ (s.username = u ∧ s.epoch ≤ cut ∧ s'.value = []))

private theorem sameUpTo_of_rel {d d' : Dir} {u : Bytes} {cut : Nat}
    (h : Tomb.LRel u cut d.states d'.states) : SameUpToValues d d' u cut :=
  Tomb.rel_index h

private theorem lookup_congr (c : Cfg) {d d' : Dir} (u : Bytes)
    (hn : d'.nodes = d.nodes) (ha : d'.azks = d.azks) (hv : d'.vrf = d.vrf)
    (hk : d'.commitmentKey = d.commitmentKey)
    (hs : ∀ a, d.azks = some a → d'.stateLeq u a.latestEpoch = d.stateLeq u a.latestEpoch) :
    d'.lookup c u = d.lookup c u := by
  unfold Dir.lookup
  rw [ha]
  cases hz : d.azks with
  | none => rfl
  | some a => simp only [hs a hz, hn, hk, Tomb.vrfLabel_congr hv]

private theorem stateLeq_other {d d' : Dir} {u : Bytes} {cut : Nat} (h : d.tombstone u cut = .ok d')
    (u' : Bytes) (e : Nat) (hne : u' ≠ u) : d'.stateLeq u' e = d.stateLeq u' e := by
  rw [Tomb.tombstone_ok h]; exact Tomb.stateLeq_tomb_other d u u' cut e hne

private theorem stateLeq_own {d d' : Dir} {u : Bytes} {cut : Nat} (h : d.tombstone u cut = .ok d')
    (e : Nat) (st : ValueState) (hst : d.stateLeq u e = some st) (hlt : cut < st.epoch) :
    d'.stateLeq u e = d.stateLeq u e := by
  rw [Tomb.tombstone_ok h]; exact Tomb.stateLeq_tomb_own d u cut e st hst hlt

theorem tombstone_keeps_tree (d d' : Dir) (u : Bytes) (cut : Nat) (h : d.tombstone u cut = .ok d') :
    d'.nodes = d.nodes ∧ d'.azks = d.azks ∧ d'.vrf = d.vrf ∧ d'.commitmentKey = d.commitmentKey ∧
    SameUpToValues d d' u cut := by
  rw [Tomb.tombstone_ok h]
  exact ⟨rfl, rfl, rfl, rfl, sameUpTo_of_rel (Tomb.map_tf_rel u cut d.states)⟩

/-- every epoch hash is unchanged -/
theorem tombstone_epochHash (c : Cfg) (d d' : Dir) (u : Bytes) (cut : Nat) (h : d.tombstone u cut = .ok d') :
    d'.epochHash c = d.epochHash c := by
  rw [Tomb.tombstone_ok h]; rfl

/-- every audit proof is unchanged -/
theorem tombstone_audit (c : Cfg) (d d' : Dir) (u : Bytes) (cut : Nat) (h : d.tombstone u cut = .ok d')
    (s e : Nat) : (d'.audit c s e).toOption.map (fun p => (p.proofs.map (fun q => (q.inserted, q.unchanged)), p.epochs))
      = (d.audit c s e).toOption.map (fun p => (p.proofs.map (fun q => (q.inserted, q.unchanged)), p.epochs)) := by
  rw [Tomb.tombstone_ok h]; rfl

/-- all other labels' lookups are unchanged (same proof, same epoch, same root) -/
theorem tombstone_other_lookup (c : Cfg) (d d' : Dir) (u u' : Bytes) (cut : Nat)
    (h : d.tombstone u cut = .ok d') (hne : u' ≠ u) :
    (d'.lookup c u').toOption.map (fun r => (r.1.epoch, r.1.value, r.1.version, r.1.existence, r.1.marker, r.1.freshness, r.1.commitmentNonce, r.2))
      = (d.lookup c u').toOption.map (fun r => (r.1.epoch, r.1.value, r.1.version, r.1.existence, r.1.marker, r.1.freshness, r.1.commitmentNonce, r.2)) := by
  obtain ⟨hn, ha, hv, hk, _⟩ := tombstone_keeps_tree d d' u cut h
  rw [lookup_congr c u' hn ha hv hk (fun a _ => stateLeq_other h u' _ hne)]

set_option linter.unusedVariables false in  -- `huniq` is not needed: `stateLeq` picks the same position in both lists
/-- the label's own lookup is unchanged when the cut-off is before its latest update -/
theorem tombstone_own_lookup (c : Cfg) (d d' : Dir) (u : Bytes) (cut : Nat)
    (h : d.tombstone u cut = .ok d') (hcut : CutBelowLatest d u cut)
    (huniq : d.states.Pairwise (fun a b => ¬ (a.username = b.username ∧ a.epoch = b.epoch))) :
    (d'.lookup c u).toOption.map (fun r => (r.1.epoch, r.1.value, r.1.version, r.1.existence, r.1.marker, r.1.freshness, r.1.commitmentNonce, r.2))
      = (d.lookup c u).toOption.map (fun r => (r.1.epoch, r.1.value, r.1.version, r.1.existence, r.1.marker, r.1.freshness, r.1.commitmentNonce, r.2)) := by
  obtain ⟨a, hz, st, hst, hlt⟩ := hcut
  obtain ⟨hn, ha, hv, hk, _⟩ := tombstone_keeps_tree d d' u cut h
  rw [lookup_congr c u hn ha hv hk (fun a' hz' => by
    have : a' = a := Option.some.inj (hz'.symm.trans hz)
    subst this
    exact stateLeq_own h _ st hst hlt)]

set_option linter.unusedVariables false in  -- `huniq` is not needed: `stateLeq` picks the same position in both lists
/-- a further publish takes the same decisions and produces the same tree, epoch and root hash -/
theorem tombstone_then_publish (c : Cfg) (d d' : Dir) (u : Bytes) (cut : Nat)
    (h : d.tombstone u cut = .ok d') (hcut : CutBelowLatest d u cut)
    (huniq : d.states.Pairwise (fun a b => ¬ (a.username = b.username ∧ a.epoch = b.epoch)))
    (b : List (Bytes × Bytes)) :
    (∀ e, d.publish c b = .error e → ∃ e', d'.publish c b = .error e') ∧
    (∀ d₁ ep root, d.publish c b = .ok (d₁, ep, root) →
      ∃ d₁', d'.publish c b = .ok (d₁', ep, root) ∧ d₁'.nodes = d₁.nodes ∧ d₁'.azks = d₁.azks ∧
        SameUpToValues d₁ d₁' u cut) := by
  obtain ⟨a, hz, st, hst, hlt⟩ := hcut
  obtain ⟨hn, ha, hv, hk, _⟩ := tombstone_keeps_tree d d' u cut h
  have hrel : Tomb.LRel u cut d.states d'.states := by
    rw [Tomb.tombstone_ok h]; exact Tomb.map_tf_rel u cut d.states
  have hder : ∀ a', d.azks = some a' →
      Dir.deriveUpdates c d' a'.latestEpoch b = Dir.deriveUpdates c d a'.latestEpoch b := by
    intro a' hz'
    have : a' = a := Option.some.inj (hz'.symm.trans hz)
    subst this
    refine Tomb.deriveUpdates_congr c _ (fun u' => ?_) hv hk b
    by_cases hu : u' = u
    · subst hu; exact stateLeq_own h _ st hst hlt
    · exact stateLeq_other h u' _ hu
  obtain ⟨herr, hok⟩ := Tomb.publish_congr c b hn ha hder
  refine ⟨fun e he => ⟨e, herr e he⟩, fun d₁ ep root hp => ?_⟩
  obtain ⟨d₁', hp', hn', ha', hst'⟩ := hok d₁ ep root hp
  refine ⟨d₁', hp', hn', ha', ?_⟩
  rcases hst' with ⟨rfl, rfl⟩ | ⟨sts, h1, h2⟩
  · exact sameUpTo_of_rel hrel
  · apply sameUpTo_of_rel
    rw [h1, h2]
    exact Tomb.foldl_setState_rel u cut sts hrel

end Akd.C20
