/-
C08 — lookup and history verifiers agree on a label's latest version under one root.

The property is about any tree, so it reduces to arithmetic on the version sets
the two verifiers force to be present / absent (DESIGN §7/C08):

* a history proof for the range `[s, n]` at epoch `E` forces fresh `{s..n} ∪ past s`
  present, stale `{v-1 | v ∈ [s,n], v ≥ 2}` present, fresh `future n E` absent;
* a lookup proof for version `m` at `E` forces fresh `m` and fresh `2^⌊log₂ m⌋` present,
  stale `m` absent, and `m ≤ E`.

Two accepted proofs are contradictory iff one forces present what the other forces absent.
-/
import AkdModel.Marker
import AkdModel.Lemmas.MarkerLemmas
namespace Akd.C08
open Akd.Marker

def past (s : Nat) : List Nat := (past? s).getD []
def future (n E : Nat) : List Nat := (future? n E).getD []

/-- history `[s,n]` vs history `[s',m]` with `n < m`: some fresh version is shown absent by
the first and present by the second. -/
def conflictHH (n s' m E : Nat) : Bool :=
  (future n E).any fun x => (past s').contains x || (s' ≤ x && x ≤ m)

/-- complete history with latest `n` vs lookup of `m ≠ n`. -/
def conflictHL (n m E : Nat) : Bool :=
  if m < n then true  -- stale `m` is present for the history (version m+1 ∈ [2,n]) and absent for the lookup
  else (future n E).any fun x => x == m || x == 2 ^ Nat.log2 m

/-- the function does not panic on the inputs its callers produce -/
theorem markers_no_panic (s n E : Nat) (hs : 1 ≤ s) (hsn : s ≤ n) (hn : n ≤ E) :
    (markers? s n E).isSome = true := by
  have hp := past?_isSome hs
  obtain ⟨p, hp⟩ := Option.isSome_iff_exists.1 hp
  simp [markers?, hp, future?_eq (show 1 ≤ n by omega) hn]

theorem past_lt_start (s x : Nat) (h : x ∈ past s) : 1 ≤ x ∧ x < s :=
  Akd.Marker.past_bounds h

theorem future_bounds (n E x : Nat) (h : x ∈ future n E) : n < x ∧ x ≤ E :=
  Akd.Marker.future_bounds h

theorem succ_mem_future (n E : Nat) (hn : 1 ≤ n) (h : n + 1 ≤ E) : n + 1 ∈ future n E := by
  obtain ⟨x, hx, hx' | hx'⟩ := exists_future_past hn (Nat.lt_add_one n) h
  · subst hx'; exact hx
  · have h1 := Akd.Marker.future_bounds hx
    have h2 := Akd.Marker.past_bounds hx'
    omega

/-- **Full strength, unbounded**: no two history proofs with different latest versions are
both consistent with one tree. -/
theorem history_history_agree (s n s' m E : Nat)
    (hs : 1 ≤ s) (hsn : s ≤ n) (hs' : 1 ≤ s') (hsm : s' ≤ m) (hnm : n < m) (hmE : m ≤ E) :
    conflictHH n s' m E = true := by
  have hn : 1 ≤ n := Nat.le_trans hs hsn
  have _ := hs'  -- `1 ≤ s'` is not needed: `s' = 0` falls under `s' ≤ n + 1`
  have key : ∃ x, x ∈ future n E ∧ (x ∈ past s' ∨ (s' ≤ x ∧ x ≤ m)) := by
    by_cases hc : s' ≤ n + 1
    · exact ⟨n + 1, succ_mem_future n E hn (by omega), Or.inr ⟨hc, by omega⟩⟩
    · obtain ⟨x, hx, hx' | hx'⟩ :=
        exists_future_past (n := n) (t := s') (E := E) hn (by omega) (by omega)
      · exact ⟨x, hx, Or.inr ⟨by omega, by omega⟩⟩
      · exact ⟨x, hx, Or.inl hx'⟩
  obtain ⟨x, hx, hx'⟩ := key
  simp only [conflictHH, List.any_eq_true, Bool.or_eq_true, Bool.and_eq_true, decide_eq_true_eq,
    List.contains_iff_mem]
  exact ⟨x, hx, hx'⟩

/-- a lookup for a version below the history's latest is always contradicted (stale `m`). -/
theorem lookup_below_history (n m E : Nat) (h : m < n) : conflictHL n m E = true := by
  simp [conflictHL, h]

/-- the next version is always contradicted. -/
theorem lookup_succ_history (n E : Nat) (hn : 1 ≤ n) (h : n + 1 ≤ E) :
    conflictHL n (n + 1) E = true := by
  have hlt : ¬ n + 1 < n := by omega
  simp only [conflictHL, hlt, if_false, List.any_eq_true, Bool.or_eq_true, beq_iff_eq]
  exact ⟨n + 1, succ_mem_future n E hn h, Or.inl rfl⟩

/-- exact characterisation for `n < m`. -/
theorem lookup_history_conflict_iff (n m E : Nat) (h : n < m) :
    conflictHL n m E = true ↔ (m ∈ future n E ∨ 2 ^ Nat.log2 m ∈ future n E) := by
  have hlt : ¬ m < n := by omega
  simp only [conflictHL, hlt, if_false, List.any_eq_true, Bool.or_eq_true, beq_iff_eq]
  constructor
  · rintro ⟨x, hx, rfl | rfl⟩
    · exact Or.inl hx
    · exact Or.inr hx
  · rintro (h | h)
    · exact ⟨_, h, Or.inl rfl⟩
    · exact ⟨_, h, Or.inr rfl⟩

/-- **The full-strength lookup/history clause is false for the code as it is**: smallest gap. -/
theorem lookup_history_gap_witness : conflictHL 4 7 7 = false := by decide

/-- the instance reproduced on the real verifiers (finding C08-F1). -/
theorem lookup_history_gap_witness_33 : conflictHL 5 33 33 = false := by decide

/-! non-vacuity: the hypotheses of `history_history_agree` are met by concrete ranges -/
example : conflictHH 5 20 33 33 = true := by decide
example : (markers? 85 85 1000) = some ([16, 64, 80, 84], [86, 88, 96, 128, 256]) := by decide

end Akd.C08
