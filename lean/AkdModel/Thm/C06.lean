/-
C06 — a verifying lookup proof can only report the label's latest version.

`t` is the tree of an honestly maintained directory *as far as label `u` is concerned*
(`HonestFor`): it contains exactly the fresh leaves of `u`'s versions `1..n`, each with the
commitment to its value and the epoch of that update, and exactly the stale leaves of the
superseded versions `1..n-1`, each stamped with the epoch of its successor.  (`Thm/C01c.lean` shows
that the directory's publish produces such a tree for every label.)  `π` is EVERY proof value.
-/
import AkdModel.Verify
import AkdModel.Spec
import AkdModel.Thm.C05
import AkdModel.Thm.C08
import AkdModel.Lemmas.SoundLemmas
namespace Akd.C06
open Akd

/-- the VRF contract on the inputs in play: distinct inputs give distinct 256-bit labels -/
structure VrfOK (vrf : VrfTable) : Prop where
  inj : ∀ k k' l, vrf.get? k = some l → vrf.get? k' = some l → k = k'
  len : ∀ k l, vrf.get? k = some l → l.len = 256

/-- versions are numbered 1..n in order, with non-decreasing… strictly increasing epochs -/
def VersionsOK (vs : List Spec.Ver) : Prop :=
  (∀ i (h : i < vs.length), (vs[i]).version = i + 1) ∧
  vs.Pairwise (fun a b => a.epoch < b.epoch)

structure HonestFor (c : Cfg) (key : Dig) (vrf : VrfTable) (t : CRoot) (u : Bytes) (vs : List Spec.Ver) : Prop where
  versions : VersionsOK vs
  /-- every version's fresh leaf is present with its commitment and epoch -/
  fresh_present : ∀ v ∈ vs, ∃ l, vrf.get? ⟨u, true, v.version⟩ = some l ∧
      (⟨l.bits, c.commit v.value (c.nonce key l v.version v.value), v.epoch⟩ : Leaf) ∈ t.leaves
  /-- a leaf at a fresh label of `u` is one of those -/
  fresh_only : ∀ ver l lf, vrf.get? ⟨u, true, ver⟩ = some l → lf ∈ t.leaves → lf.lbl = l.bits →
      ∃ v ∈ vs, v.version = ver ∧ lf.value = c.commit v.value (c.nonce key l ver v.value) ∧ lf.ep = v.epoch
  /-- a stale leaf of version `ver ≥ 1` exists iff `ver` has been superseded; it carries the stale value
  and the epoch of the superseding version.  (Version 0 does not exist and the verifiers never query
  its stale label: lookup needs `version ≠ 0`, history uses `version - 1` only for `version ≥ 2`.) -/
  stale_iff : ∀ ver l, 1 ≤ ver → vrf.get? ⟨u, false, ver⟩ = some l →
      ((∃ lf ∈ t.leaves, lf.lbl = l.bits) ↔ ∃ w ∈ vs, w.version = ver + 1)
  stale_stamp : ∀ ver l lf, 1 ≤ ver → vrf.get? ⟨u, false, ver⟩ = some l → lf ∈ t.leaves → lf.lbl = l.bits →
      lf.value = c.staleValue ∧ ∃ w ∈ vs, w.version = ver + 1 ∧ lf.ep = w.epoch

/-! ### consequences of `VersionsOK` -/

theorem VersionsOK.mem_index {vs : List Spec.Ver} (h : VersionsOK vs) {v : Spec.Ver} (hv : v ∈ vs) :
    ∃ i, ∃ hi : i < vs.length, vs[i] = v ∧ v.version = i + 1 := by
  obtain ⟨i, hi, rfl⟩ := List.getElem_of_mem hv
  exact ⟨i, hi, rfl, h.1 i hi⟩

/-- a version number determines the entry -/
theorem VersionsOK.unique {vs : List Spec.Ver} (h : VersionsOK vs) {v w : Spec.Ver}
    (hv : v ∈ vs) (hw : w ∈ vs) (e : v.version = w.version) : v = w := by
  obtain ⟨i, hi, rfl, h1⟩ := h.mem_index hv
  obtain ⟨j, hj, rfl, h2⟩ := h.mem_index hw
  have : i = j := by omega
  subst this; rfl

/-- the entry with version `i+1` sits at index `i` -/
theorem VersionsOK.getElem_of_version {vs : List Spec.Ver} (h : VersionsOK vs) {v : Spec.Ver}
    (hv : v ∈ vs) : ∃ hi : v.version - 1 < vs.length, vs[v.version - 1] = v ∧ 1 ≤ v.version := by
  obtain ⟨i, hi, rfl, h1⟩ := h.mem_index hv
  have e : (vs[i]).version - 1 = i := by omega
  exact ⟨by omega, by simp only [e], by omega⟩

/-- an entry without a successor is the last one -/
theorem VersionsOK.getLast_of_no_succ {vs : List Spec.Ver} (h : VersionsOK vs) {v : Spec.Ver}
    (hv : v ∈ vs) (hno : ∀ w ∈ vs, w.version ≠ v.version + 1) : vs.getLast? = some v := by
  obtain ⟨i, hi, rfl, h1⟩ := h.mem_index hv
  have hlast : i + 1 = vs.length := by
    rcases Nat.lt_or_ge (i + 1) vs.length with hlt | hge
    · exact absurd (by rw [h.1 (i + 1) hlt, h1]) (hno vs[i + 1] (List.getElem_mem _))
    · omega
  rw [List.getLast?_eq_getElem?]
  have : vs.length - 1 = i := by omega
  rw [this, List.getElem?_eq_getElem hi]

/-! ### what each accepted base check means against an honest tree -/

section Bound
variable {c : Cfg} {key : Dig} {vrf : VrfTable} {t : CRoot} {u : Bytes} {vs : List Spec.Ver}

/-- an accepted fresh-label existence proof with value, nonce and epoch is bound to the true
version, value and epoch -/
theorem bound_strict (hc : c.Lawful) (h256 : C05.Leaves256 t) (hon : HonestFor c key vrf t u vs)
    {value : Bytes} {ep : Nat} {nonce : Dig} {ver : Nat} {pf : VrfProof} {mp : MembershipProof}
    (h : Verify.existenceWithVal c vrf (t.rootHash c) u value ep nonce true ver pf mp = .ok ()) :
    ∃ v ∈ vs, v.version = ver ∧ value = v.value ∧ ep = v.epoch := by
  obtain ⟨h1, h2, h3⟩ := Snd.existenceWithVal_ok h
  obtain ⟨lf, hlf, hl, hval, hep⟩ := Snd.leaf_of_membership c hc t h256 mp _ _ h1 h3
  obtain ⟨v, hv, hver, hval', hep'⟩ := hon.fresh_only ver mp.label lf h2 hlf hl
  refine ⟨v, hv, hver, ?_, ?_⟩
  · exact (hc.commit_inj _ _ _ _ (hval.symm.trans hval')).1
  · exact hep.symm.trans hep'

/-- an accepted fresh-label existence proof (any digest) is bound to a true version -/
theorem bound_version (hc : c.Lawful) (hfresh : C05.EmptyLabelFresh c) (hv : VrfOK vrf)
    (hwf : t.WF) (h256 : C05.Leaves256 t) (hon : HonestFor c key vrf t u vs)
    {ver : Nat} {pf : VrfProof} {mp : MembershipProof}
    (h : Verify.existence c vrf (t.rootHash c) u true ver pf mp = .ok ()) :
    ∃ v ∈ vs, v.version = ver := by
  obtain ⟨h2, h3⟩ := Snd.existence_ok h
  obtain ⟨lf, hlf, hl⟩ := Snd.leaf_of_membership_256 c hc hfresh t hwf h256 mp (hv.len _ _ h2) h3
  obtain ⟨v, hv', hver, -, -⟩ := hon.fresh_only ver mp.label lf h2 hlf hl
  exact ⟨v, hv', hver⟩

/-- an accepted stale-label existence proof with epoch `ep`: the next version exists and was
published in `ep` -/
theorem bound_stale (hc : c.Lawful) (h256 : C05.Leaves256 t) (hon : HonestFor c key vrf t u vs)
    {ep : Nat} {ver : Nat} (hver1 : 1 ≤ ver) {pf : VrfProof} {mp : MembershipProof}
    (h : Verify.existenceWithCommitment c vrf (t.rootHash c) u c.staleValue ep false ver pf mp = .ok ()) :
    ∃ w ∈ vs, w.version = ver + 1 ∧ ep = w.epoch := by
  obtain ⟨h1, h2, h3⟩ := Snd.existenceWithCommitment_ok h
  obtain ⟨lf, hlf, hl, -, hep⟩ := Snd.leaf_of_membership c hc t h256 mp _ _ h1 h3
  obtain ⟨-, w, hw, hver, hep'⟩ := hon.stale_stamp ver mp.label lf hver1 h2 hlf hl
  exact ⟨w, hw, hver, hep.symm.trans hep'⟩

/-- an accepted fresh-label non-existence proof: that version does not exist -/
theorem absent_fresh (hc : c.Lawful) (hfresh : C05.EmptyLabelFresh c) (hv : VrfOK vrf)
    (hwf : t.WF) (h256 : C05.Leaves256 t) (hon : HonestFor c key vrf t u vs)
    {ver : Nat} {pf : VrfProof} {np : NonMembershipProof}
    (h : Verify.nonexistence c vrf (t.rootHash c) u true ver pf np = .ok ()) :
    ∀ v ∈ vs, v.version ≠ ver := by
  obtain ⟨h2, h3⟩ := Snd.nonexistence_ok h
  intro v hv' hver
  obtain ⟨l, hl, hmem⟩ := hon.fresh_present v hv'
  rw [hver, h2] at hl
  injection hl with hl
  subst hl
  exact Snd.no_leaf_of_nonmembership c hc hfresh t hwf h256 np (hv.len _ _ h2) h3 _ hmem rfl

/-- an accepted stale-label non-existence proof: that version has not been superseded -/
theorem absent_stale (hc : c.Lawful) (hfresh : C05.EmptyLabelFresh c) (hv : VrfOK vrf)
    (hwf : t.WF) (h256 : C05.Leaves256 t) (hon : HonestFor c key vrf t u vs)
    {ver : Nat} (hver1 : 1 ≤ ver) {pf : VrfProof} {np : NonMembershipProof}
    (h : Verify.nonexistence c vrf (t.rootHash c) u false ver pf np = .ok ()) :
    ∀ w ∈ vs, w.version ≠ ver + 1 := by
  obtain ⟨h2, h3⟩ := Snd.nonexistence_ok h
  intro w hw hver
  obtain ⟨lf, hlf, hl⟩ := (hon.stale_iff ver np.label hver1 h2).mpr ⟨w, hw, hver⟩
  exact Snd.no_leaf_of_nonmembership c hc hfresh t hwf h256 np (hv.len _ _ h2) h3 lf hlf hl

end Bound

/-- the checks of an accepted lookup proof -/
theorem lookup_ok {c : Cfg} {vrf : VrfTable} {root : Dig} {E : Nat} {u : Bytes} {π : LookupProof}
    {r : Verify.VerifyResult} (h : Verify.lookup c vrf root E u π = .ok r) :
    π.version ≤ E ∧ π.version ≠ 0 ∧ r = ⟨π.epoch, π.version, π.value⟩ ∧
    Verify.existenceWithVal c vrf root u π.value π.epoch π.commitmentNonce true π.version
      π.existenceVrf π.existence = .ok () ∧
    Verify.existence c vrf root u true (Dir.markerVersion π.version) π.markerVrf π.marker = .ok () ∧
    Verify.nonexistence c vrf root u false π.version π.freshnessVrf π.freshness = .ok () := by
  unfold Verify.lookup at h
  split at h
  · cases h
  rename_i h0
  split at h
  · cases h
  rename_i h1
  split at h
  · cases h
  rename_i h2
  split at h
  · cases h
  rename_i h3
  split at h
  · cases h
  rename_i h4
  injection h with h
  exact ⟨Nat.le_of_not_gt h0, h2, h.symm, h1, h3, h4⟩

/-- **lookup soundness** (full strength): whatever proof is accepted against the honest root
reports the latest version, its value and the epoch of that update -/
theorem lookup_sound (c : Cfg) (hc : c.Lawful) (hfresh : C05.EmptyLabelFresh c)
    (key : Dig) (vrf : VrfTable) (hv : VrfOK vrf)
    (t : CRoot) (hwf : t.WF) (h256 : C05.Leaves256 t)
    (u : Bytes) (vs : List Spec.Ver) (hon : HonestFor c key vrf t u vs)
    (E : Nat) (π : LookupProof) (r : Verify.VerifyResult)
    (hacc : Verify.lookup c vrf (t.rootHash c) E u π = .ok r) :
    ∃ last, vs.getLast? = some last ∧ r = ⟨last.epoch, last.version, last.value⟩ := by
  obtain ⟨-, hne0, hr, hex, -, hnon⟩ := lookup_ok hacc
  obtain ⟨v, hmem, hver, hval, hep⟩ := bound_strict hc h256 hon hex
  have hno := absent_stale hc hfresh hv hwf h256 hon (Nat.pos_of_ne_zero hne0) hnon
  rw [← hver] at hno
  refine ⟨v, hon.versions.getLast_of_no_succ hmem hno, ?_⟩
  rw [hr, hver, hval, hep]

/-- in particular nothing is accepted for a label that was never published -/
theorem lookup_unpublished_rejected (c : Cfg) (hc : c.Lawful) (hfresh : C05.EmptyLabelFresh c)
    (key : Dig) (vrf : VrfTable) (hv : VrfOK vrf)
    (t : CRoot) (hwf : t.WF) (h256 : C05.Leaves256 t)
    (u : Bytes) (hon : HonestFor c key vrf t u [])
    (E : Nat) (π : LookupProof) :
    ∀ r, Verify.lookup c vrf (t.rootHash c) E u π ≠ .ok r := by
  intro r hacc
  obtain ⟨last, hl, -⟩ := lookup_sound c hc hfresh key vrf hv t hwf h256 u [] hon E π r hacc
  simp at hl

/-- a version greater than the current epoch is rejected outright -/
theorem lookup_version_gt_epoch (c : Cfg) (vrf : VrfTable) (root : Dig) (E : Nat) (u : Bytes) (π : LookupProof)
    (h : π.version > E) : Verify.lookup c vrf root E u π = .error .lookup := by
  unfold Verify.lookup
  rw [if_pos h]

/-! ## non-vacuity: the hypotheses hold together, and a proof is accepted -/
namespace Ex
open NodeLabel

def u : Bytes := [1]
def bF1 : BitStr := List.replicate 256 false
def bS1 : BitStr := true :: List.replicate 255 false
def bF2 : BitStr := false :: true :: List.replicate 254 false
def bS2 : BitStr := true :: true :: List.replicate 254 false
def bF3 : BitStr := false :: false :: true :: List.replicate 253 false
/-- the labels of fresh(1), stale(1), fresh(2), stale(2), fresh(3) -/
def vrf : VrfTable :=
  [(⟨u, true, 1⟩, ofBits bF1), (⟨u, false, 1⟩, ofBits bS1), (⟨u, true, 2⟩, ofBits bF2),
   (⟨u, false, 2⟩, ofBits bS2), (⟨u, true, 3⟩, ofBits bF3)]
/-- two versions, published in epochs 1 and 3 -/
def vs : List Spec.Ver := [⟨1, [10], 1⟩, ⟨2, [20], 3⟩]
def key : Dig := .raw [7]
def cfg : Cfg := Cfg.whatsappV1
/-- the canonical tree over the leaves the specification prescribes: fresh(1), stale(1), fresh(2) -/
def t : CRoot := CRoot.ofLeaves (Spec.leaves cfg key vrf [(u, vs)])

def lfF1 : Leaf := ⟨bF1, cfg.commit [10] (cfg.nonce key (ofBits bF1) 1 [10]), 1⟩
def lfS1 : Leaf := ⟨bS1, cfg.staleValue, 3⟩
def lfF2 : Leaf := ⟨bF2, cfg.commit [20] (cfg.nonce key (ofBits bF2) 2 [20]), 3⟩

theorem t_leaves : t.leaves = [lfF1, lfF2, lfS1] := by decide +kernel

theorem bitsF1 : (ofBits bF1).bits = bF1 := C17.bits_ofBits _ (by decide +kernel)
theorem bitsS1 : (ofBits bS1).bits = bS1 := C17.bits_ofBits _ (by decide +kernel)
theorem bitsF2 : (ofBits bF2).bits = bF2 := C17.bits_ofBits _ (by decide +kernel)
theorem bitsS2 : (ofBits bS2).bits = bS2 := C17.bits_ofBits _ (by decide +kernel)

theorem get_cases (k : VrfClaim) (l : NodeLabel) (h : vrf.get? k = some l) :
    (k = ⟨u, true, 1⟩ ∧ l = ofBits bF1) ∨ (k = ⟨u, false, 1⟩ ∧ l = ofBits bS1) ∨
    (k = ⟨u, true, 2⟩ ∧ l = ofBits bF2) ∨ (k = ⟨u, false, 2⟩ ∧ l = ofBits bS2) ∨
    (k = ⟨u, true, 3⟩ ∧ l = ofBits bF3) := by
  simp only [vrf, VrfTable.get?] at h
  split at h
  · rename_i h1; injection h with h; exact Or.inl ⟨h1.symm, h.symm⟩
  split at h
  · rename_i h1; injection h with h; exact Or.inr (Or.inl ⟨h1.symm, h.symm⟩)
  split at h
  · rename_i h1; injection h with h; exact Or.inr (Or.inr (Or.inl ⟨h1.symm, h.symm⟩))
  split at h
  · rename_i h1; injection h with h; exact Or.inr (Or.inr (Or.inr (Or.inl ⟨h1.symm, h.symm⟩)))
  split at h
  · rename_i h1; injection h with h; exact Or.inr (Or.inr (Or.inr (Or.inr ⟨h1.symm, h.symm⟩)))
  cases h

theorem mem_cases (lf : Leaf) (h : lf ∈ t.leaves) : lf = lfF1 ∨ lf = lfF2 ∨ lf = lfS1 := by
  rw [t_leaves] at h
  simpa using h

theorem memF1 : lfF1 ∈ t.leaves := by rw [t_leaves]; simp
theorem memF2 : lfF2 ∈ t.leaves := by rw [t_leaves]; simp
theorem memS1 : lfS1 ∈ t.leaves := by rw [t_leaves]; simp

theorem vrfOK : VrfOK vrf := by
  refine ⟨?_, ?_⟩
  · intro k k' l h1 h2
    rcases get_cases k l h1 with ⟨rfl, rfl⟩ | ⟨rfl, rfl⟩ | ⟨rfl, rfl⟩ | ⟨rfl, rfl⟩ | ⟨rfl, rfl⟩ <;>
      rcases get_cases k' _ h2 with ⟨rfl, h⟩ | ⟨rfl, h⟩ | ⟨rfl, h⟩ | ⟨rfl, h⟩ | ⟨rfl, h⟩ <;>
      first | rfl | exact absurd h (by decide +kernel)
  · intro k l h
    rcases get_cases k l h with ⟨-, rfl⟩ | ⟨-, rfl⟩ | ⟨-, rfl⟩ | ⟨-, rfl⟩ | ⟨-, rfl⟩ <;> decide +kernel

theorem wf : t.WF := by decide +kernel

theorem leaves256 : C05.Leaves256 t := by
  intro lf h
  rcases mem_cases lf h with rfl | rfl | rfl <;> decide +kernel

/-- the tree is honest for `u` with the two versions -/
theorem honest : HonestFor cfg key vrf t u vs := by
  refine ⟨⟨by decide, by decide⟩, ?_, ?_, ?_, ?_⟩
  · intro v hv
    simp only [vs, List.mem_cons, List.not_mem_nil, or_false] at hv
    rcases hv with rfl | rfl
    · exact ⟨ofBits bF1, by decide +kernel, by rw [bitsF1]; exact memF1⟩
    · exact ⟨ofBits bF2, by decide +kernel, by rw [bitsF2]; exact memF2⟩
  · intro ver l lf hg hm hl
    rcases get_cases _ l hg with ⟨hk, rfl⟩ | ⟨hk, rfl⟩ | ⟨hk, rfl⟩ | ⟨hk, rfl⟩ | ⟨hk, rfl⟩
    · injection hk with _ _ hver
      subst hver
      rw [bitsF1] at hl
      rcases mem_cases lf hm with rfl | rfl | rfl
      · exact ⟨⟨1, [10], 1⟩, by simp [vs], rfl, rfl, rfl⟩
      · exact absurd hl (by decide +kernel)
      · exact absurd hl (by decide +kernel)
    · injection hk with _ hf _; cases hf
    · injection hk with _ _ hver
      subst hver
      rw [bitsF2] at hl
      rcases mem_cases lf hm with rfl | rfl | rfl
      · exact absurd hl (by decide +kernel)
      · exact ⟨⟨2, [20], 3⟩, by simp [vs], rfl, rfl, rfl⟩
      · exact absurd hl (by decide +kernel)
    · injection hk with _ hf _; cases hf
    · injection hk with _ _ hver
      subst hver
      rw [C17.bits_ofBits bF3 (by decide +kernel)] at hl
      rcases mem_cases lf hm with rfl | rfl | rfl <;> exact absurd hl (by decide +kernel)
  · intro ver l _ hg
    rcases get_cases _ l hg with ⟨hk, rfl⟩ | ⟨hk, rfl⟩ | ⟨hk, rfl⟩ | ⟨hk, rfl⟩ | ⟨hk, rfl⟩
    · injection hk with _ hf _; cases hf
    · injection hk with _ _ hver
      subst hver
      exact ⟨fun _ => ⟨⟨2, [20], 3⟩, by simp [vs], rfl⟩,
        fun _ => ⟨lfS1, memS1, by rw [bitsS1]; rfl⟩⟩
    · injection hk with _ hf _; cases hf
    · injection hk with _ _ hver
      subst hver
      rw [bitsS2]
      constructor
      · rintro ⟨lf, hm, hl⟩
        rcases mem_cases lf hm with rfl | rfl | rfl <;> exact absurd hl (by decide +kernel)
      · rintro ⟨w, hw, hwv⟩
        simp only [vs, List.mem_cons, List.not_mem_nil, or_false] at hw
        rcases hw with rfl | rfl <;> exact absurd hwv (by decide)
    · injection hk with _ hf _; cases hf
  · intro ver l lf _ hg hm hl
    rcases get_cases _ l hg with ⟨hk, rfl⟩ | ⟨hk, rfl⟩ | ⟨hk, rfl⟩ | ⟨hk, rfl⟩ | ⟨hk, rfl⟩
    · injection hk with _ hf _; cases hf
    · injection hk with _ _ hver
      subst hver
      rw [bitsS1] at hl
      rcases mem_cases lf hm with rfl | rfl | rfl
      · exact absurd hl (by decide +kernel)
      · exact absurd hl (by decide +kernel)
      · exact ⟨rfl, ⟨2, [20], 3⟩, by simp [vs], rfl, rfl⟩
    · injection hk with _ hf _; cases hf
    · injection hk with _ _ hver
      subst hver
      rw [bitsS2] at hl
      rcases mem_cases lf hm with rfl | rfl | rfl <;> exact absurd hl (by decide +kernel)
    · injection hk with _ hf _; cases hf

/-- decidable equality of verifier outcomes, for the closed examples only -/
scoped instance exceptDecEq {ε α : Type} [DecidableEq ε] [DecidableEq α] : DecidableEq (Except ε α)
  | .ok a, .ok b => if h : a = b then isTrue (h ▸ rfl) else isFalse (fun e => h (Except.ok.inj e))
  | .error a, .error b => if h : a = b then isTrue (h ▸ rfl) else isFalse (fun e => h (Except.error.inj e))
  | .ok _, .error _ => isFalse (fun e => nomatch e)
  | .error _, .ok _ => isFalse (fun e => nomatch e)

/-- the honest lookup proof at epoch 3 -/
def lookupProof : LookupProof :=
  ⟨3, [20], 2, some ⟨u, true, 2⟩, t.genMembership cfg bF2, some ⟨u, true, 2⟩, t.genMembership cfg bF2,
    some ⟨u, false, 2⟩, t.genNonMembership cfg bS2, cfg.nonce key (ofBits bF2) 2 [20]⟩

/-- all hypotheses of `lookup_sound` hold together, including acceptance -/
example : cfg.Lawful ∧ C05.EmptyLabelFresh cfg ∧ VrfOK vrf ∧ t.WF ∧ C05.Leaves256 t ∧
    HonestFor cfg key vrf t u vs ∧
    Verify.lookup cfg vrf (t.rootHash cfg) 3 u lookupProof = .ok ⟨3, 2, [20]⟩ :=
  ⟨Cfg.whatsappV1_lawful, C05.emptyLabelFresh_whatsappV1, vrfOK, wf, leaves256, honest,
    by decide +kernel⟩

end Ex

end Akd.C06
