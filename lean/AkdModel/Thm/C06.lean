/-
C06 — a verifying lookup proof can only report the label's latest version.

`t` is the tree of an honestly maintained directory *as far as label `u` is concerned*
(`HonestFor`): it contains exactly the fresh leaves of `u`'s versions `1..n`, each with the
commitment to its value and the epoch of that update, and exactly the stale leaves of the
superseded versions `1..n-1`, each stamped with the epoch of its successor.  (`Thm/C01c.lean` shows
that the directory's publish produces such a tree for every label.)  `π` is EVERY proof value.
-/
import AkdModel.Verify
import AkdModel.Spec
import AkdModel.Thm.C05
import AkdModel.Thm.C08
import AkdModel.Lemmas.SoundLemmas
namespace Akd.C06
open Akd

/-- the VRF contract on the inputs in play: distinct inputs give distinct 256-bit labels -/
structure VrfOK (vrf : VrfTable) : Prop where
  inj : ∀ k k' l, vrf.get? k = some l → vrf.get? k' = some l → k = k'
  len : ∀ k l, vrf.get? k = some l → l.len = 256

/-- versions are numbered 1..n in order, with non-decreasing… strictly increasing epochs -/
def VersionsOK (vs : List Spec.Ver) : Prop :=
  (∀ i (h : i < vs.length), (vs[i]).version = i + 1) ∧
  vs.Pairwise (fun a b => a.epoch < b.epoch)

structure HonestFor (c : Cfg) (key : Dig) (vrf : VrfTable) (t : CRoot) (u : Bytes) (vs : List Spec.Ver) : Prop where
  versions : VersionsOK vs
  /-- every version's fresh leaf is present with its commitment and epoch -/
  fresh_present : ∀ v ∈ vs, ∃ l, vrf.get? ⟨u, true, v.version⟩ = some l ∧
      (⟨l.bits, c.commit v.value (c.nonce key l v.version v.value), v.epoch⟩ : Leaf) ∈ t.leaves
  /-- a leaf at a fresh label of `u` is one of those -/
  fresh_only : ∀ ver l lf, vrf.get? ⟨u, true, ver⟩ = some l → lf ∈ t.leaves → lf.lbl = l.bits →
      ∃ v ∈ vs, v.version = ver ∧ lf.value = c.commit v.value (c.nonce key l ver v.value) ∧ lf.ep = v.epoch
  /-- a stale leaf of version `ver` exists iff `ver` has been superseded; it carries the stale value
  and the epoch of the superseding version -/
  stale_iff : ∀ ver l, vrf.get? ⟨u, false, ver⟩ = some l →
      ((∃ lf ∈ t.leaves, lf.lbl = l.bits) ↔ ∃ w ∈ vs, w.version = ver + 1)
  stale_stamp : ∀ ver l lf, vrf.get? ⟨u, false, ver⟩ = some l → lf ∈ t.leaves → lf.lbl = l.bits →
      lf.value = c.staleValue ∧ ∃ w ∈ vs, w.version = ver + 1 ∧ lf.ep = w.epoch

/-- **lookup soundness** (full strength): whatever proof is accepted against the honest root
reports the latest version, its value and the epoch of that update -/
theorem lookup_sound (c : Cfg) (hc : c.Lawful) (hfresh : C05.EmptyLabelFresh c)
    (key : Dig) (vrf : VrfTable) (hv : VrfOK vrf)
    (t : CRoot) (hwf : t.WF) (h256 : C05.Leaves256 t)
    (u : Bytes) (vs : List Spec.Ver) (hon : HonestFor c key vrf t u vs)
    (E : Nat) (π : LookupProof) (r : Verify.VerifyResult)
    (hacc : Verify.lookup c vrf (t.rootHash c) E u π = .ok r) :
    ∃ last, vs.getLast? = some last ∧ r = ⟨last.epoch, last.version, last.value⟩ := by
  sorry

/-- in particular nothing is accepted for a label that was never published -/
theorem lookup_unpublished_rejected (c : Cfg) (hc : c.Lawful) (hfresh : C05.EmptyLabelFresh c)
    (key : Dig) (vrf : VrfTable) (hv : VrfOK vrf)
    (t : CRoot) (hwf : t.WF) (h256 : C05.Leaves256 t)
    (u : Bytes) (hon : HonestFor c key vrf t u [])
    (E : Nat) (π : LookupProof) :
    ∀ r, Verify.lookup c vrf (t.rootHash c) E u π ≠ .ok r := by
  sorry

/-- a version greater than the current epoch is rejected outright -/
theorem lookup_version_gt_epoch (c : Cfg) (vrf : VrfTable) (root : Dig) (E : Nat) (u : Bytes) (π : LookupProof)
    (h : π.version > E) : Verify.lookup c vrf root E u π = .error .lookup := by
  sorry

end Akd.C06
