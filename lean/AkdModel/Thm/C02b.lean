/-
C02, batch clause — "batch lookup returns the same proof results per label".

`Dir.batchLookup` (model of `Directory::batch_lookup`, `AkdModel/Batch.lean`) mirrors the code's structure: all
lookup infos first, one root hash, then the proofs.  The theorems say that this is, label by label, exactly the
single `lookup`: same proof, same epoch, same root hash; it fails iff some single lookup fails.
-/
import AkdModel.Batch
import AkdModel.Thm.C02
import AkdModel.Lemmas.BatchLemmas
namespace Akd.C02
open Akd C01

/-- a successful batch lookup is, label by label, the single lookup (same proof, epoch and root hash) -/
theorem batchLookup_sound (c : Cfg) (d : Dir) (us : List Bytes) (ps : List LookupProof) (e : Nat) (h : Dig)
    (hb : d.batchLookup c us = .ok (ps, e, h)) :
    ps.length = us.length ∧
      ∀ i (hi : i < us.length) (hj : i < ps.length), d.lookup c us[i] = .ok (ps[i], e, h) := by
  obtain ⟨azks, infos, hz, he, hi, hh, hp⟩ := (Dir.batchLookup_ok_iff c d us ps e h).1 hb
  rw [Dir.mapM_ok_iff] at hi hp
  obtain ⟨hil, hi⟩ := hi
  obtain ⟨hpl, hp⟩ := hp
  refine ⟨hpl.trans hil, fun i hi' hj => ?_⟩
  have h1 := hi i hi' (by omega)
  rw [Dir.infoPair_ok_iff] at h1
  have h2 : d.lookupWithInfo c azks infos[i].1 infos[i].2 = .ok ps[i] := hp i (by omega) hj
  rw [h1.1] at h2
  rw [Dir.lookup_ok_iff]
  exact ⟨azks, infos[i].2, hz, he, h1.2, hh, h2⟩

/-- if every single lookup succeeds — necessarily with one epoch and root hash — the batch lookup succeeds
with exactly those proofs -/
theorem batchLookup_complete (c : Cfg) (d : Dir) (us : List Bytes) (hne : us ≠ []) (ps : List LookupProof)
    (e : Nat) (h : Dig) (hl : ps.length = us.length)
    (hall : ∀ i (hi : i < us.length) (hj : i < ps.length), d.lookup c us[i] = .ok (ps[i], e, h)) :
    d.batchLookup c us = .ok (ps, e, h) := by
  have hpos : 0 < us.length := List.length_pos_iff.2 hne
  obtain ⟨azks, i0, hz, he, -, hh, -⟩ := (Dir.lookup_ok_iff c d _ _ e h).1 (hall 0 hpos (by omega))
  have hpiece : ∀ i (hi : i < us.length) (hj : i < ps.length), ∃ inf,
      d.lookupInfo azks.latestEpoch us[i] = .ok inf ∧ d.lookupWithInfo c azks us[i] inf = .ok ps[i] := by
    intro i hi hj
    obtain ⟨azks', inf, hz', -, h1, -, h2⟩ := (Dir.lookup_ok_iff c d _ _ e h).1 (hall i hi hj)
    rw [hz] at hz'
    injection hz' with hz'
    subst hz'
    exact ⟨inf, h1, h2⟩
  have hex : ∀ u ∈ us, ∃ r, (do let i ← d.lookupInfo azks.latestEpoch u; pure (u, i) :
      Except DErr (Bytes × Dir.LookupInfo)) = .ok r := by
    intro u hu
    obtain ⟨i, hi, rfl⟩ := List.getElem_of_mem hu
    obtain ⟨inf, h1, -⟩ := hpiece i hi (by omega)
    exact ⟨(us[i], inf), (Dir.infoPair_ok_iff d _ _ _).2 ⟨rfl, h1⟩⟩
  obtain ⟨infos, hinfos⟩ := Dir.mapM_ok_of_forall _ us hex
  rw [Dir.batchLookup_ok_iff]
  refine ⟨azks, infos, hz, he, hinfos, hh, ?_⟩
  rw [Dir.mapM_ok_iff] at hinfos ⊢
  refine ⟨hl.trans hinfos.1.symm, fun i hi hj => ?_⟩
  have h1 := hinfos.2 i (by omega) hi
  rw [Dir.infoPair_ok_iff] at h1
  obtain ⟨inf, h3, h4⟩ := hpiece i (by omega) hj
  have h5 := h1.2
  rw [h3] at h5
  injection h5 with h5
  show d.lookupWithInfo c azks infos[i].1 infos[i].2 = .ok ps[i]
  rw [h1.1, ← h5]
  exact h4

/-- the batch fails as soon as one of its labels has no lookup proof -/
theorem batchLookup_fails (c : Cfg) (d : Dir) (us : List Bytes) (u : Bytes) (hu : u ∈ us)
    (herr : ∃ e, d.lookup c u = .error e) : ∃ e, d.batchLookup c us = .error e := by
  obtain ⟨e, he⟩ := herr
  cases hb : d.batchLookup c us with
  | error e' => exact ⟨e', rfl⟩
  | ok r =>
    obtain ⟨ps, e', h⟩ := r
    obtain ⟨hl, hall⟩ := batchLookup_sound c d us ps e' h hb
    obtain ⟨i, hi, rfl⟩ := List.getElem_of_mem hu
    have := hall i hi (by omega)
    rw [he] at this
    cases this

/-- **batch lookup completeness**: in a state that represents the specification state, the batch lookup of
published labels succeeds with the current epoch and root hash, and each returned proof verifies to exactly
(epoch of the latest update, version count, latest value) of its label -/
theorem batch_lookup_complete (c : Cfg) (hc : c.Lawful) (hce : c.emptyLabel.len = 0) (hfresh : C05.EmptyLabelFresh c)
    (d : Dir) (sp : Spec.State) (users : List Bytes) (N : Nat)
    (hv : C06.VrfOK d.vrf) (ht : VrfTotal d.vrf users N) (hN : sp.epoch + 1 ≤ N)
    (hu : ∀ x ∈ sp.table, x.1 ∈ users)
    (href : Refines c d sp) (us : List Bytes) (hne : us ≠ []) (hmem : ∀ u ∈ us, u ∈ users)
    (hpub : ∀ u ∈ us, sp.table.get u ≠ []) :
    ∃ ps, d.batchLookup c us = .ok (ps, sp.epoch, Spec.rootHash c d.commitmentKey d.vrf sp) ∧
      ps.length = us.length ∧
      ∀ i (hi : i < us.length) (hj : i < ps.length) (last : Spec.Ver),
        (sp.table.get us[i]).getLast? = some last →
        Verify.lookup c d.vrf (Spec.rootHash c d.commitmentKey d.vrf sp) sp.epoch us[i] ps[i]
          = .ok ⟨last.epoch, last.version, last.value⟩ := by
  have hlast : ∀ u ∈ us, ∃ last, (sp.table.get u).getLast? = some last := by
    intro u hmu
    cases hg : (sp.table.get u).getLast? with
    | none => exact absurd (List.getLast?_eq_none_iff.1 hg) (hpub u hmu)
    | some last => exact ⟨last, rfl⟩
  have hex : ∀ u ∈ us, ∃ r, d.lookup c u = .ok r := by
    intro u hmu
    obtain ⟨last, hl⟩ := hlast u hmu
    obtain ⟨π, hπ, -⟩ := lookup_complete c hc hce hfresh d sp users N hv ht hN hu href u (hmem u hmu) last hl
    exact ⟨_, hπ⟩
  obtain ⟨rs, hrs⟩ := Dir.mapM_ok_of_forall _ us hex
  rw [Dir.mapM_ok_iff] at hrs
  obtain ⟨hrl, hrs⟩ := hrs
  have hpl : (rs.map (·.1)).length = us.length := by rw [List.length_map]; exact hrl
  have hfact : ∀ i (hi : i < us.length) (hj : i < (rs.map (·.1)).length) (last : Spec.Ver),
      (sp.table.get us[i]).getLast? = some last →
      d.lookup c us[i] = .ok ((rs.map (·.1))[i], sp.epoch, Spec.rootHash c d.commitmentKey d.vrf sp) ∧
      Verify.lookup c d.vrf (Spec.rootHash c d.commitmentKey d.vrf sp) sp.epoch us[i] (rs.map (·.1))[i]
        = .ok ⟨last.epoch, last.version, last.value⟩ := by
    intro i hi hj last hl
    obtain ⟨π, hπ, hver⟩ :=
      lookup_complete c hc hce hfresh d sp users N hv ht hN hu href us[i] (hmem _ (List.getElem_mem hi)) last hl
    have h1 := hrs i hi (by omega)
    rw [hπ] at h1
    injection h1 with h1
    have h2 : (rs.map (·.1))[i] = π := by rw [List.getElem_map, ← h1]
    rw [h2]
    exact ⟨hπ, hver⟩
  refine ⟨rs.map (·.1), ?_, hpl, fun i hi hj last hl => (hfact i hi hj last hl).2⟩
  refine batchLookup_complete c d us hne _ _ _ hpl (fun i hi hj => ?_)
  obtain ⟨last, hl⟩ := hlast us[i] (List.getElem_mem hi)
  exact (hfact i hi hj last hl).1

/-- a batch that contains a label that was never published has no answer -/
theorem batch_lookup_unpublished (c : Cfg) (d : Dir) (sp : Spec.State) (href : Refines c d sp)
    (us : List Bytes) (u : Bytes) (hu : u ∈ us) (hnone : sp.table.get u = []) :
    ∃ e, d.batchLookup c us = .error e :=
  batchLookup_fails c d us u hu (lookup_unpublished c d sp href u hnone)

end Akd.C02
