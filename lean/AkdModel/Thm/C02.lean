/-
C02 — lookup returns a verifying proof of the latest value for every published label.

Composition: the directory state represents the specification state (`C01.Refines`, established for
every history by `C01.history_refines`); proof GENERATION over storage (`Insert.lean`:
`lcpProof`, `membershipProof`, `nonMembershipProof`, the literal walk of
`get_lcp_node_label_with_membership_proof`) computes the canonical proofs of `CTrie.lean`
(`*_refines` below); those verify (`C05` completeness); and the tree is honest for every label
(`C01.refines_honest`), so verification yields exactly the specification's latest version.
-/
import AkdModel.Thm.C01c
import AkdModel.Thm.C05
import AkdModel.Thm.C06
import AkdModel.Lemmas.GenLemmas
namespace Akd.C02
open Akd C01

/-- the side condition `hnp` of the two `*Proof_refines` theorems holds whenever all leaves have
256-bit labels (as in the directory) and the query has at most 256 bits -/
theorem noProperPrefix_of_256 (t : CRoot) (x : BitStr) (h256 : ∀ lf ∈ t.leaves, lf.lbl.length = 256)
    (hx : x.length ≤ 256) : ∀ lf ∈ t.leaves, lf.lbl <+: x → lf.lbl = x := fun lf hlf hp =>
  hp.eq_of_length_le (by rw [h256 lf hlf]; exact hx)

/-- proof generation over storage = canonical proof generation (membership / longest-prefix walk).

STATEMENT CHANGED: hypothesis `hnp` added (no leaf label is a PROPER prefix of the query).  Without
it the statement is false (`membershipProof_refines_counterexample` at the end of this file): at a
leaf whose label is a proper prefix of the query the Rust loop finds no child, `break`s with
`equal = false` and pops back to the parent, while the canonical walk `CTree.path` stays at the leaf.
It cannot happen in the directory: all leaf labels and all queries have 256 bits
(`noProperPrefix_of_256`). -/
theorem membershipProof_refines (c : Cfg) (s : NodeStore) (a : Azks) (t : CRoot)
    (hrep : ReprRoot c .directory s t) (hwf : t.WF)
    (hl : ∀ lf ∈ t.leaves, 1 ≤ lf.lbl.length ∧ lf.lbl.length ≤ 256)
    (hep : ∀ lf ∈ t.leaves, lf.ep ≤ a.latestEpoch)
    (x : BitStr) (hx : x.length ≤ 256)
    (hnp : ∀ lf ∈ t.leaves, lf.lbl <+: x → lf.lbl = x) :
    s.membershipProof c a (NodeLabel.ofBits x) = .ok (t.genMembership c x) :=
  Gen.membershipProof_core c s a t x hx ((reprRoot_iff c .directory s t).1 hrep) hwf
    (fun lf h => (hl lf h).2) hep hnp

/-- STATEMENT CHANGED: hypothesis `hnp` added, see `membershipProof_refines`. -/
theorem nonMembershipProof_refines (c : Cfg) (s : NodeStore) (a : Azks) (t : CRoot)
    (hrep : ReprRoot c .directory s t) (hwf : t.WF)
    (hl : ∀ lf ∈ t.leaves, 1 ≤ lf.lbl.length ∧ lf.lbl.length ≤ 256)
    (hep : ∀ lf ∈ t.leaves, lf.ep ≤ a.latestEpoch)
    (x : BitStr) (hx : x.length ≤ 256)
    (hnp : ∀ lf ∈ t.leaves, lf.lbl <+: x → lf.lbl = x) :
    s.nonMembershipProof c a (NodeLabel.ofBits x) = .ok (t.genNonMembership c x) :=
  Gen.nonMembershipProof_core c s a t x hx ((reprRoot_iff c .directory s t).1 hrep) hwf
    (fun lf h => (hl lf h).2) hep hnp

theorem rootHash_refines (c : Cfg) (s : NodeStore) (a : Azks) (t : CRoot)
    (hrep : ReprRoot c .directory s t) (hep : ∀ lf ∈ t.leaves, lf.ep ≤ a.latestEpoch) :
    s.rootHash c a = .ok (t.rootHash c) :=
  rootHash_of_reprRoot c .directory s t a.latestEpoch a.numNodes hrep hep

set_option linter.unusedVariables false in
/-- **lookup completeness**: in a state that represents the specification state, the lookup of a
published label succeeds, returns the current epoch and root hash, and verification of the returned
proof yields exactly (epoch of the latest update, version count, latest value) -/
theorem lookup_complete (c : Cfg) (hc : c.Lawful) (hce : c.emptyLabel.len = 0) (hfresh : C05.EmptyLabelFresh c)
    (d : Dir) (sp : Spec.State) (users : List Bytes) (N : Nat)
    (hv : C06.VrfOK d.vrf) (ht : VrfTotal d.vrf users N) (hN : sp.epoch + 1 ≤ N)
    (hu : ∀ x ∈ sp.table, x.1 ∈ users)
    (href : Refines c d sp) (u : Bytes) (hmem : u ∈ users) (last : Spec.Ver)
    (hlast : (sp.table.get u).getLast? = some last) :
    ∃ π, d.lookup c u = .ok (π, sp.epoch, Spec.rootHash c d.commitmentKey d.vrf sp) ∧
      Verify.lookup c d.vrf (Spec.rootHash c d.commitmentKey d.vrf sp) sp.epoch u π
        = .ok ⟨last.epoch, last.version, last.value⟩ := by
  obtain ⟨hE, le, lm, ln, hle, hlm, hln, hgen⟩ := Gen.lookup_gen c d sp users N hv ht hN href u hmem last hlast
  obtain ⟨hwf, h256, -⟩ := Gen.refines_tree_facts c d sp hv href
  exact ⟨_, hgen, Gen.honestLookup_verifies c hc hfresh d.commitmentKey d.vrf hv _ hwf h256 u (sp.table.get u)
    (refines_honest c hc d sp hv users N ht hN hu href u hmem) last hlast sp.epoch hE le lm ln hle hlm hln⟩

/-- a label that was never published has no lookup proof -/
theorem lookup_unpublished (c : Cfg) (d : Dir) (sp : Spec.State) (href : Refines c d sp) (u : Bytes)
    (hnone : sp.table.get u = []) : ∃ e, d.lookup c u = .error e :=
  ⟨.notFound, Gen.lookup_unpublished_core c d sp href u hnone⟩

/-! ## why `hnp` is needed: a counterexample to the two `*Proof_refines` statements without it -/
section Counterexample

private def cxEls : List (BitStr × Dig) := [([false], Dig.raw [1]), ([true, true], Dig.raw [2])]
private def cxQuery : BitStr := [false, true]
/-- the canonical tree over the leaves `0` and `11` (epoch 1) -/
private def cxTree : CRoot := (newLeaves cxEls 1).foldl CRoot.insert1 CRoot.empty
/-- the storage after `Azks::new` and one batch insertion of the two leaves -/
private def cxStore : NodeStore × Azks :=
  match (({} : NodeStore).setRec ⟨NodeLabel.root, TreeNode.newRoot Cfg.whatsappV1, none⟩).batchInsert
      Cfg.whatsappV1 .directory ⟨0, 1⟩ (cxEls.map fun x => (NodeLabel.ofBits x.1, x.2)) with
  | .ok r => r
  | .error _ => ({}, ⟨0, 0⟩)

private def lenOf : Except Err MembershipProof → Nat
  | .ok p => p.label.len
  | .error _ => 7

private def lenOfN : Except Err NonMembershipProof → Nat
  | .ok p => p.longestPrefix.len
  | .error _ => 7

/-- leaves `0` and `11`, query `01`: every hypothesis of the original statements holds, but the
storage walk answers with the ROOT (label length 0: at the leaf `0` it finds no child towards `01`,
breaks and pops), the canonical walk with the LEAF `0` (label length 1) -/
theorem membershipProof_refines_counterexample :
    ∃ (s : NodeStore) (a : Azks) (t : CRoot) (x : BitStr),
      ReprRoot Cfg.whatsappV1 .directory s t ∧ t.WF ∧
      (∀ lf ∈ t.leaves, 1 ≤ lf.lbl.length ∧ lf.lbl.length ≤ 256) ∧
      (∀ lf ∈ t.leaves, lf.ep ≤ a.latestEpoch) ∧ x.length ≤ 256 ∧
      s.membershipProof Cfg.whatsappV1 a (NodeLabel.ofBits x) ≠ .ok (t.genMembership Cfg.whatsappV1 x) ∧
      s.nonMembershipProof Cfg.whatsappV1 a (NodeLabel.ofBits x) ≠ .ok (t.genNonMembership Cfg.whatsappV1 x) := by
  obtain ⟨s₀, h0, hr0⟩ := azksNew_repr Cfg.whatsappV1 .directory ({} : NodeStore)
  have hs₀ : s₀ = ({} : NodeStore).setRec ⟨NodeLabel.root, TreeNode.newRoot Cfg.whatsappV1, none⟩ := by
    have : ({} : NodeStore).azksNew Cfg.whatsappV1 =
        .ok (({} : NodeStore).setRec ⟨NodeLabel.root, TreeNode.newRoot Cfg.whatsappV1, none⟩, ⟨0, 1⟩) := rfl
    rw [this] at h0
    injection h0 with h0
    injection h0 with h0
    exact h0.symm
  obtain ⟨s', n, h1, hr1⟩ := batchInsert_refines Cfg.whatsappV1 rfl .directory s₀ ⟨0, 1⟩ CRoot.empty hr0
    Canon.Root.empty_wf (by simp [CRoot.empty, CRoot.leaves]) cxEls
    (by simp [PrefixFree, CRoot.empty, CRoot.leaves, newLeaves, cxEls])
    (by simp [CRoot.empty, CRoot.leaves, newLeaves, cxEls])
  have hst : cxStore = (s', ⟨1, n⟩) := by
    unfold cxStore
    rw [← hs₀, h1]
  have hs' : s' = cxStore.1 := by rw [hst]
  have ha : (⟨1, n⟩ : Azks) = cxStore.2 := by rw [hst]
  refine ⟨s', ⟨1, n⟩, cxTree, cxQuery, hr1, by decide +kernel, by decide +kernel,
    (show ∀ lf ∈ cxTree.leaves, lf.ep ≤ 1 by decide +kernel), by decide +kernel, ?_, ?_⟩
  · rw [hs', ha]
    intro h
    have h1 : lenOf (cxStore.1.membershipProof Cfg.whatsappV1 cxStore.2 (NodeLabel.ofBits cxQuery)) = 0 := by
      decide +kernel
    have h2 : (cxTree.genMembership Cfg.whatsappV1 cxQuery).label.len = 1 := by decide +kernel
    rw [h] at h1
    simp only [lenOf] at h1
    omega
  · rw [hs', ha]
    intro h
    have h1 : lenOfN (cxStore.1.nonMembershipProof Cfg.whatsappV1 cxStore.2 (NodeLabel.ofBits cxQuery)) = 0 := by
      decide +kernel
    have h2 : (cxTree.genNonMembership Cfg.whatsappV1 cxQuery).longestPrefix.len = 1 := by decide +kernel
    rw [h] at h1
    simp only [lenOfN] at h1
    omega

end Counterexample
end Akd.C02
