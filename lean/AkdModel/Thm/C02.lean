/-
C02 — lookup returns a verifying proof of the latest value for every published label.

Composition: the directory state represents the specification state (`C01.Refines`, established for
every history by `C01.history_refines`); proof GENERATION over storage (`Insert.lean`:
`lcpProof`, `membershipProof`, `nonMembershipProof`, the literal walk of
`get_lcp_node_label_with_membership_proof`) computes the canonical proofs of `CTrie.lean`
(`*_refines` below); those verify (`C05` completeness); and the tree is honest for every label
(`C01.refines_honest`), so verification yields exactly the specification's latest version.
-/
import AkdModel.Thm.C01c
import AkdModel.Thm.C05
import AkdModel.Thm.C06
import AkdModel.Lemmas.GenLemmas
namespace Akd.C02
open Akd C01

/-- proof generation over storage = canonical proof generation (membership / longest-prefix walk) -/
theorem membershipProof_refines (c : Cfg) (s : NodeStore) (a : Azks) (t : CRoot)
    (hrep : ReprRoot c .directory s t) (hwf : t.WF)
    (hl : ∀ lf ∈ t.leaves, 1 ≤ lf.lbl.length ∧ lf.lbl.length ≤ 256)
    (hep : ∀ lf ∈ t.leaves, lf.ep ≤ a.latestEpoch)
    (x : BitStr) (hx : x.length ≤ 256) :
    s.membershipProof c a (NodeLabel.ofBits x) = .ok (t.genMembership c x) := by
  sorry

theorem nonMembershipProof_refines (c : Cfg) (s : NodeStore) (a : Azks) (t : CRoot)
    (hrep : ReprRoot c .directory s t) (hwf : t.WF)
    (hl : ∀ lf ∈ t.leaves, 1 ≤ lf.lbl.length ∧ lf.lbl.length ≤ 256)
    (hep : ∀ lf ∈ t.leaves, lf.ep ≤ a.latestEpoch)
    (x : BitStr) (hx : x.length ≤ 256) :
    s.nonMembershipProof c a (NodeLabel.ofBits x) = .ok (t.genNonMembership c x) := by
  sorry

theorem rootHash_refines (c : Cfg) (s : NodeStore) (a : Azks) (t : CRoot)
    (hrep : ReprRoot c .directory s t) (hep : ∀ lf ∈ t.leaves, lf.ep ≤ a.latestEpoch) :
    s.rootHash c a = .ok (t.rootHash c) := by
  sorry

/-- **lookup completeness**: in a state that represents the specification state, the lookup of a
published label succeeds, returns the current epoch and root hash, and verification of the returned
proof yields exactly (epoch of the latest update, version count, latest value) -/
theorem lookup_complete (c : Cfg) (hc : c.Lawful) (hce : c.emptyLabel.len = 0) (hfresh : C05.EmptyLabelFresh c)
    (d : Dir) (sp : Spec.State) (users : List Bytes) (N : Nat)
    (hv : C06.VrfOK d.vrf) (ht : VrfTotal d.vrf users N) (hN : sp.epoch + 1 ≤ N)
    (hu : ∀ x ∈ sp.table, x.1 ∈ users)
    (href : Refines c d sp) (u : Bytes) (hmem : u ∈ users) (last : Spec.Ver)
    (hlast : (sp.table.get u).getLast? = some last) :
    ∃ π, d.lookup c u = .ok (π, sp.epoch, Spec.rootHash c d.commitmentKey d.vrf sp) ∧
      Verify.lookup c d.vrf (Spec.rootHash c d.commitmentKey d.vrf sp) sp.epoch u π
        = .ok ⟨last.epoch, last.version, last.value⟩ := by
  sorry

/-- a label that was never published has no lookup proof -/
theorem lookup_unpublished (c : Cfg) (d : Dir) (sp : Spec.State) (href : Refines c d sp) (u : Bytes)
    (hnone : sp.table.get u = []) : ∃ e, d.lookup c u = .error e := by
  sorry

end Akd.C02
