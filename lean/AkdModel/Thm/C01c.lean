/-
C01 (part c) — end to end: after ANY sequence of publish calls the directory's epoch equals the
number of effective publishes and its root hash is the hash of the canonical trie over exactly the
leaves the history calls for (`Spec.lean`): one fresh leaf per (label, version) with the value
commitment and the epoch of that update, one stale leaf per superseded version with the epoch in
which it was superseded.  Re-submissions change nothing; a batch that repeats a label is rejected.

Composition of: `Dir.publish` (the model of `directory.rs:104-265`), the refinement theorem
`batchInsert_refines` (C01b), and order-independence of the canonical trie (C01a).
-/
import AkdModel.Dir
import AkdModel.Spec
import AkdModel.Thm.C01b
import AkdModel.Thm.C06
import AkdModel.Lemmas.PublishLemmas
namespace Akd.C01
open Akd

/-- the oracle table answers every query the histories in play can make: both freshness values and
every version up to `N` for the labels in `users` -/
def VrfTotal (vrf : VrfTable) (users : List Bytes) (N : Nat) : Prop :=
  ∀ u ∈ users, ∀ f v, 1 ≤ v → v ≤ N → (vrf.get? ⟨u, f, v⟩).isSome

/-- the value-state table holds exactly the specification's versions -/
def StatesMatch (d : Dir) (sp : Spec.State) : Prop :=
  (∀ s ∈ d.states, ∃ v ∈ sp.table.get s.username,
      v.version = s.version ∧ v.epoch = s.epoch ∧ v.value = s.value ∧
      d.vrf.get? ⟨s.username, true, s.version⟩ = some s.label) ∧
  (∀ u v, v ∈ sp.table.get u → ∃ s ∈ d.states,
      s.username = u ∧ s.version = v.version ∧ s.epoch = v.epoch ∧ s.value = v.value) ∧
  d.states.Pairwise (fun a b => ¬ (a.username = b.username ∧ a.epoch = b.epoch))

/-- the directory state represents the specification state -/
structure Refines (c : Cfg) (d : Dir) (sp : Spec.State) : Prop where
  azks : ∃ n, d.azks = some ⟨sp.epoch, n⟩
  idle : d.nodes.inTxn = false ∧ d.nodes.log = []
  tree : ReprRoot c .directory d.nodes (CRoot.ofLeaves (Spec.leaves c d.commitmentKey d.vrf sp.table))
  states : StatesMatch d sp
  /-- per label the versions are numbered 1..n with increasing epochs, none beyond the current epoch -/
  versions : ∀ u, C06.VersionsOK (sp.table.get u) ∧ ∀ v ∈ sp.table.get u, 1 ≤ v.epoch ∧ v.epoch ≤ sp.epoch
  /-- labels are unique keys of the table -/
  keys : sp.table.Pairwise (fun a b => a.1 ≠ b.1)

/-- a fresh directory represents the empty history -/
theorem init_refines (c : Cfg) (vrf : VrfTable) (key : Dig) :
    ∃ d, Dir.init c { vrf := vrf, commitmentKey := key } = .ok d ∧ Refines c d {} := by
  sorry

/-- **one publish**: the model of `publish` follows the specification, whatever the batch -/
theorem publish_refines (c : Cfg) (hc : c.emptyLabel.len = 0) (d : Dir) (sp : Spec.State)
    (users : List Bytes) (N : Nat)
    (hv : C06.VrfOK d.vrf) (ht : VrfTotal d.vrf users N) (hN : sp.epoch + 2 ≤ N)
    (href : Refines c d sp) (b : List (Bytes × Bytes)) (hb : ∀ x ∈ b, x.1 ∈ users)
    (hu : ∀ x ∈ sp.table, x.1 ∈ users) :
    let sp' := Spec.applyBatch sp b
    ((b.map (·.1)).eraseDups.length ≠ b.length → (∃ e, d.publish c b = .error e) ∧ sp' = sp) ∧
    ((b.map (·.1)).eraseDups.length = b.length →
      ∃ d', d.publish c b = .ok (d', sp'.epoch, Spec.rootHash c d.commitmentKey d.vrf sp') ∧
        Refines c d' sp' ∧ d'.vrf = d.vrf ∧ d'.commitmentKey = d.commitmentKey ∧
        (sp' = sp → d' = d)) := by
  sorry

/-- fold of publish over a history, ignoring rejected batches (the caller sees the error) -/
def runDir (c : Cfg) (d : Dir) : List (List (Bytes × Bytes)) → Dir
  | [] => d
  | b :: rest => match d.publish c b with
    | .ok (d', _, _) => runDir c d' rest
    | .error _ => runDir c d rest

/-- **every history**: epoch = number of effective publishes, root hash = canonical root over the
specification's leaves, at the end of any sequence of batches -/
theorem history_refines (c : Cfg) (hc : c.emptyLabel.len = 0) (vrf : VrfTable) (key : Dig)
    (users : List Bytes) (h : List (List (Bytes × Bytes)))
    (hv : C06.VrfOK vrf) (ht : VrfTotal vrf users (h.length + 2))
    (hb : ∀ b ∈ h, ∀ x ∈ b, x.1 ∈ users) :
    ∃ d0, Dir.init c { vrf := vrf, commitmentKey := key } = .ok d0 ∧
      Refines c (runDir c d0 h) (Spec.run h) ∧
      (runDir c d0 h).epochHash c = .ok ((Spec.run h).epoch, Spec.rootHash c key vrf (Spec.run h)) := by
  sorry

/-- the tree of the represented state is honest for every label in the sense of C06/C07 -/
theorem refines_honest (c : Cfg) (hc : c.Lawful) (d : Dir) (sp : Spec.State) (hv : C06.VrfOK d.vrf)
    (users : List Bytes) (N : Nat) (ht : VrfTotal d.vrf users N) (hN : sp.epoch + 1 ≤ N)
    (hu : ∀ x ∈ sp.table, x.1 ∈ users)
    (href : Refines c d sp) (u : Bytes) (hmem : u ∈ users) :
    C06.HonestFor c d.commitmentKey d.vrf (CRoot.ofLeaves (Spec.leaves c d.commitmentKey d.vrf sp.table)) u
      (sp.table.get u) := by
  sorry

end Akd.C01
