/-
C01 (part c) — end to end: after ANY sequence of publish calls the directory's epoch equals the
number of effective publishes and its root hash is the hash of the canonical trie over exactly the
leaves the history calls for (`Spec.lean`): one fresh leaf per (label, version) with the value
commitment and the epoch of that update, one stale leaf per superseded version with the epoch in
which it was superseded.  Re-submissions change nothing; a batch that repeats a label is rejected.

Composition of: `Dir.publish` (the model of `directory.rs:104-265`), the refinement theorem
`batchInsert_refines` (C01b), and order-independence of the canonical trie (C01a).
-/
import AkdModel.Dir
import AkdModel.Spec
import AkdModel.Thm.C01b
import AkdModel.Thm.C06
import AkdModel.Lemmas.PublishLemmas
namespace Akd.C01
open Akd

/-- the oracle table answers every query the histories in play can make: both freshness values and
every version up to `N` for the labels in `users` -/
def VrfTotal (vrf : VrfTable) (users : List Bytes) (N : Nat) : Prop :=
  ∀ u ∈ users, ∀ f v, 1 ≤ v → v ≤ N → (vrf.get? ⟨u, f, v⟩).isSome

/-- the value-state table holds exactly the specification's versions -/
def StatesMatch (d : Dir) (sp : Spec.State) : Prop :=
  (∀ s ∈ d.states, ∃ v ∈ sp.table.get s.username,
      v.version = s.version ∧ v.epoch = s.epoch ∧ v.value = s.value ∧
      d.vrf.get? ⟨s.username, true, s.version⟩ = some s.label) ∧
  (∀ u v, v ∈ sp.table.get u → ∃ s ∈ d.states,
      s.username = u ∧ s.version = v.version ∧ s.epoch = v.epoch ∧ s.value = v.value) ∧
  d.states.Pairwise (fun a b => ¬ (a.username = b.username ∧ a.epoch = b.epoch))

/-- the directory state represents the specification state -/
structure Refines (c : Cfg) (d : Dir) (sp : Spec.State) : Prop where
  azks : ∃ n, d.azks = some ⟨sp.epoch, n⟩
  idle : d.nodes.inTxn = false ∧ d.nodes.log = []
  tree : ReprRoot c .directory d.nodes (CRoot.ofLeaves (Spec.leaves c d.commitmentKey d.vrf sp.table))
  states : StatesMatch d sp
  /-- per label the versions are numbered 1..n with increasing epochs, none beyond the current epoch -/
  versions : ∀ u, C06.VersionsOK (sp.table.get u) ∧ ∀ v ∈ sp.table.get u, 1 ≤ v.epoch ∧ v.epoch ≤ sp.epoch
  /-- labels are unique keys of the table -/
  keys : sp.table.Pairwise (fun a b => a.1 ≠ b.1)

/-- a fresh directory represents the empty history -/
theorem init_refines (c : Cfg) (vrf : VrfTable) (key : Dig) :
    ∃ d, Dir.init c { vrf := vrf, commitmentKey := key } = .ok d ∧ Refines c d {} := by
  obtain ⟨s', h1, h2⟩ := azksNew_repr c .directory ({} : NodeStore)
  have hs : s' = ({} : NodeStore).setRec ⟨NodeLabel.root, TreeNode.newRoot c, none⟩ := by
    have : ({} : NodeStore).azksNew c = .ok (({} : NodeStore).setRec ⟨NodeLabel.root, TreeNode.newRoot c, none⟩, ⟨0, 1⟩) := rfl
    rw [this] at h1
    injection h1 with h1
    injection h1 with h1
    exact h1.symm
  refine ⟨{ nodes := s', azks := some ⟨0, 1⟩, vrf := vrf, commitmentKey := key }, ?_, ?_⟩
  · simp only [Dir.init, h1]
  · refine ⟨⟨1, rfl⟩, ?_, h2, ?_, ?_, List.Pairwise.nil⟩
    · subst hs; exact ⟨rfl, rfl⟩
    · exact ⟨fun s hs => (nomatch hs), fun u v hv => (nomatch hv), List.Pairwise.nil⟩
    · intro u
      exact ⟨⟨fun i h => absurd h (Nat.not_lt_zero i), List.Pairwise.nil⟩, fun v hv => (nomatch hv)⟩

set_option linter.unusedVariables false in
/-- **one publish**: the model of `publish` follows the specification, whatever the batch -/
theorem publish_refines (c : Cfg) (hc : c.emptyLabel.len = 0) (d : Dir) (sp : Spec.State)
    (users : List Bytes) (N : Nat)
    (hv : C06.VrfOK d.vrf) (ht : VrfTotal d.vrf users N) (hN : sp.epoch + 2 ≤ N)
    (href : Refines c d sp) (b : List (Bytes × Bytes)) (hb : ∀ x ∈ b, x.1 ∈ users)
    (hu : ∀ x ∈ sp.table, x.1 ∈ users) :
    let sp' := Spec.applyBatch sp b
    ((b.map (·.1)).eraseDups.length ≠ b.length → (∃ e, d.publish c b = .error e) ∧ sp' = sp) ∧
    ((b.map (·.1)).eraseDups.length = b.length →
      ∃ d', d.publish c b = .ok (d', sp'.epoch, Spec.rootHash c d.commitmentKey d.vrf sp') ∧
        Refines c d' sp' ∧ d'.vrf = d.vrf ∧ d'.commitmentKey = d.commitmentKey ∧
        (sp' = sp → d' = d)) := by
  intro sp'
  constructor
  · intro hdup
    refine ⟨⟨.duplicate, ?_⟩, Pub.applyBatch_dup sp b hdup⟩
    unfold Dir.publish
    simp only [bind, Except.bind, throw, throwThe, MonadExceptOf.throw]
    rw [if_pos hdup]
  · intro hnd0
    obtain ⟨n, hazks⟩ := href.azks
    have hnd : (b.map (·.1)).Nodup :=
      Pub.nodup_of_eraseDups_length _ _ (Nat.le_refl _) (by rw [hnd0, List.length_map])
    have hV : ∀ u, Pub.VersOK (sp.table.get u) := fun u => (href.versions u).1
    have hEp : ∀ u, ∀ v ∈ sp.table.get u, 1 ≤ v.epoch ∧ v.epoch ≤ sp.epoch := fun u => (href.versions u).2
    have hLen : ∀ u, (sp.table.get u).length ≤ sp.epoch := fun u => Pub.versOK_length_le (hV u) _ (hEp u)
    have htot : ∀ x ∈ b, ∀ f ver, 1 ≤ ver → ver ≤ (sp.table.get x.1).length + 1 →
        (d.vrf.get? ⟨x.1, f, ver⟩).isSome := fun x hx f ver h1 h2 =>
      ht x.1 (hb x hx) f ver h1 (by have := hLen x.1; omega)
    obtain ⟨els', hder, hnl, hemp⟩ := Pub.derive_spec c d sp.table sp.epoch href.states hV
      (fun u v hv' => (hEp u v hv').2) hv.len b htot
    have happ : sp' = _ := Pub.applyBatch_eq sp b hnd0
    -- the tree before the batch
    have hpfL := Pub.prefixFree_leaves hv.inj hv.len c d.commitmentKey sp.table href.keys hV
    have hlenL := Pub.leaves_len hv.len c d.commitmentKey sp.table
    have hepL := Pub.leaves_ep c d.commitmentKey d.vrf sp.table href.keys 1 sp.epoch hEp
    have hspecL := ofLeaves_spec _ hpfL (fun x hx h => by have := hlenL x hx; rw [h] at this; cases this)
    unfold Dir.publish
    simp only [bind, Except.bind, pure, Except.pure, throw, throwThe, MonadExceptOf.throw]
    rw [if_neg (fun h => h hnd0), hazks]
    simp only [hder]
    by_cases hch : b.filter (Pub.isChange sp.table) = []
    · -- nothing changes
      have hsp : sp' = sp := by rw [happ, hch]; rfl
      have hroot := rootHash_of_reprRoot c .directory d.nodes _ sp.epoch n href.tree
        (fun lf hlf => (hepL lf (hspecL.2.mem_iff.1 hlf)).2)
      rw [hemp.2 hch]
      simp only [List.map_nil, List.isEmpty_nil, if_true, hroot, Dir.liftT]
      exact ⟨d, by rw [hsp]; rfl, hsp ▸ href, rfl, rfl, fun _ => rfl⟩
    · -- an effective batch
      have hsp : sp' = ⟨sp.epoch + 1, (b.filter (Pub.isChange sp.table)).foldl (Pub.step (sp.epoch + 1)) sp.table⟩ := by
        rw [happ, if_neg (by simpa using hch)]
      have hndch : ((b.filter (Pub.isChange sp.table)).map (·.1)).Nodup :=
        hnd.sublist (List.filter_sublist.map _)
      obtain ⟨i1, i2, _, i4, _⟩ := Pub.fold_spec c d.commitmentKey d.vrf (sp.epoch + 1) sp.table hV
        (b.filter (Pub.isChange sp.table)) sp.table hndch (fun _ _ => rfl)
      rw [← hnl] at i1
      have hvers' := Pub.versions_fold sp.table sp.epoch (b.filter (Pub.isChange sp.table)) hV hEp hndch
      have hkeys' := i4 href.keys
      have hV' := fun u => (hvers' u).1
      have hpfL' := Pub.prefixFree_leaves hv.inj hv.len c d.commitmentKey _ hkeys' hV'
      have hlenL' := Pub.leaves_len hv.len c d.commitmentKey
        ((b.filter (Pub.isChange sp.table)).foldl (Pub.step (sp.epoch + 1)) sp.table)
      have hepL' := Pub.leaves_ep c d.commitmentKey d.vrf _ hkeys' 1 (sp.epoch + 1) (fun u => (hvers' u).2)
      have hspecL' := ofLeaves_spec _ hpfL' (fun x hx h => by have := hlenL' x hx; rw [h] at this; cases this)
      -- old leaves ++ new leaves ~ the leaves of the new table
      have hperm : ((CRoot.ofLeaves (Spec.leaves c d.commitmentKey d.vrf sp.table)).leaves ++
          newLeaves els' (sp.epoch + 1)).Perm (Spec.leaves c d.commitmentKey d.vrf
            ((b.filter (Pub.isChange sp.table)).foldl (Pub.step (sp.epoch + 1)) sp.table)) :=
        (List.Perm.append_right _ hspecL.2).trans i1.symm
      have hpf : PrefixFree ((CRoot.ofLeaves (Spec.leaves c d.commitmentKey d.vrf sp.table)).leaves ++
          newLeaves els' (sp.epoch + 1)) := (hperm.pairwise_iff Canon.Incomp.symm).2 hpfL'
      have hlen : ∀ lf ∈ (CRoot.ofLeaves (Spec.leaves c d.commitmentKey d.vrf sp.table)).leaves ++
          newLeaves els' (sp.epoch + 1), 1 ≤ lf.lbl.length ∧ lf.lbl.length ≤ 256 := fun lf hlf => by
        have := hlenL' lf (hperm.mem_iff.1 hlf); omega
      have hep : ∀ lf ∈ (CRoot.ofLeaves (Spec.leaves c d.commitmentKey d.vrf sp.table)).leaves,
          1 ≤ lf.ep ∧ lf.ep ≤ (⟨sp.epoch, n⟩ : Azks).latestEpoch := fun lf hlf => hepL lf (hspecL.2.mem_iff.1 hlf)
      have hbegin : ReprRoot c .directory d.nodes.begin _ :=
        Pub.reprRoot_getRec_congr c .directory d.nodes d.nodes.begin
          (Pub.getRec_begin d.nodes href.idle.1 href.idle.2) _ href.tree
      obtain ⟨s', n', hrun, hrep'⟩ := batchInsert_refines c hc .directory d.nodes.begin ⟨sp.epoch, n⟩ _ hbegin
        hspecL.1 hep els' hpf hlen
      obtain ⟨fw, fp⟩ := foldl_insert1_spec _ hspecL.1 els' (sp.epoch + 1) hpf hlen
      have htree : (newLeaves els' (sp.epoch + 1)).foldl CRoot.insert1
          (CRoot.ofLeaves (Spec.leaves c d.commitmentKey d.vrf sp.table)) =
          CRoot.ofLeaves (Spec.leaves c d.commitmentKey d.vrf
            ((b.filter (Pub.isChange sp.table)).foldl (Pub.step (sp.epoch + 1)) sp.table)) :=
        wf_unique _ _ fw hspecL'.1 ((fp.trans hperm).trans hspecL'.2.symm)
      simp only at hrun hrep'
      rw [htree] at hrep'
      have hlog := Pub.logOK_batchInsert hrun (Pub.logOK_begin d.nodes href.idle.2)
      have hrepc : ReprRoot c .directory s'.commit _ :=
        Pub.reprRoot_getRec_congr c .directory s' s'.commit (Pub.getRec_commit s' hlog) _ hrep'
      have hroot := rootHash_of_reprRoot c .directory s'.commit _ (sp.epoch + 1) n' hrepc
        (fun lf hlf => (hepL' lf (hspecL'.2.mem_iff.1 hlf)).2)
      have hne : els' ≠ [] := fun h => hch (hemp.1 h)
      have hemp' : (els'.map fun x => (NodeLabel.ofBits x.1, x.2)).isEmpty = false := by
        cases els' with
        | nil => exact absurd rfl hne
        | cons _ _ => rfl
      -- the value states
      have hstates : ((b.filter (Pub.isChange sp.table)).map (Pub.mkState d.vrf sp.table (sp.epoch + 1))).foldl
          Dir.setState d.states = d.states ++ (b.filter (Pub.isChange sp.table)).map
            (Pub.mkState d.vrf sp.table (sp.epoch + 1)) := by
        apply Pub.foldl_setState_append
        · intro s hs w hw h
          obtain ⟨x, _, rfl⟩ := List.mem_map.1 hw
          obtain ⟨v, hvm, _, he, _⟩ := href.states.1 s hs
          have := (hEp _ v hvm).2
          have h2 := h.2
          simp only [Pub.mkState] at h2
          omega
        · rw [List.pairwise_map]
          have : (b.filter (Pub.isChange sp.table)).Pairwise (fun a b => a.1 ≠ b.1) := by
            have := hndch
            rwa [List.Nodup, List.pairwise_map] at this
          exact this.imp (fun h h' => h h'.1)
      have hsm := Pub.smatch_fold sp.table sp.epoch (b.filter (Pub.isChange sp.table)) hV hEp hndch
        d.states d.vrf href.states (fun x hx => htot x ((List.mem_filter.1 hx).1) true _ (by omega) (Nat.le_refl _))
      simp only [hemp', Bool.false_eq_true, if_false, href.idle.1, hrun, Dir.liftT, hroot, hstates]
      rw [if_neg (fun h => h rfl)]
      refine ⟨{ d with nodes := s'.commit, azks := some ⟨sp.epoch + 1, n'⟩,
                       states := d.states ++ (b.filter (Pub.isChange sp.table)).map
                         (Pub.mkState d.vrf sp.table (sp.epoch + 1)) }, ?_, ?_, rfl, rfl, fun h => ?_⟩
      · rw [hsp]; rfl
      · rw [hsp]
        exact ⟨⟨n', rfl⟩, Pub.commit_idle s', hrepc, hsm, hvers', hkeys'⟩
      · rw [hsp] at h
        have := congrArg Spec.State.epoch h
        simp at this

/-- fold of publish over a history, ignoring rejected batches (the caller sees the error) -/
def runDir (c : Cfg) (d : Dir) : List (List (Bytes × Bytes)) → Dir
  | [] => d
  | b :: rest => match d.publish c b with
    | .ok (d', _, _) => runDir c d' rest
    | .error _ => runDir c d rest

/-- what `get_epoch_hash` returns in a state that represents `sp` -/
theorem epochHash_of_refines (c : Cfg) (d : Dir) (sp : Spec.State) (hv : C06.VrfOK d.vrf) (href : Refines c d sp) :
    d.epochHash c = .ok (sp.epoch, Spec.rootHash c d.commitmentKey d.vrf sp) := by
  obtain ⟨n, hazks⟩ := href.azks
  have hV : ∀ u, Pub.VersOK (sp.table.get u) := fun u => (href.versions u).1
  have hpfL := Pub.prefixFree_leaves hv.inj hv.len c d.commitmentKey sp.table href.keys hV
  have hlenL := Pub.leaves_len hv.len c d.commitmentKey sp.table
  have hepL := Pub.leaves_ep c d.commitmentKey d.vrf sp.table href.keys 1 sp.epoch (fun u => (href.versions u).2)
  have hspecL := ofLeaves_spec _ hpfL (fun x hx h => by have := hlenL x hx; rw [h] at this; cases this)
  have hroot := rootHash_of_reprRoot c .directory d.nodes _ sp.epoch n href.tree
    (fun lf hlf => (hepL lf (hspecL.2.mem_iff.1 hlf)).2)
  unfold Dir.epochHash
  simp only [bind, Except.bind, pure, Except.pure, hazks, hroot, Dir.liftT]
  rfl

theorem runDir_refines (c : Cfg) (hc : c.emptyLabel.len = 0) (users : List Bytes) (N : Nat) :
    ∀ (h : List (List (Bytes × Bytes))) (d : Dir) (sp : Spec.State),
      C06.VrfOK d.vrf → VrfTotal d.vrf users N → sp.epoch + h.length + 1 ≤ N → Refines c d sp →
      (∀ x ∈ sp.table, x.1 ∈ users) → (∀ b ∈ h, ∀ x ∈ b, x.1 ∈ users) →
      Refines c (runDir c d h) (h.foldl Spec.applyBatch sp) ∧ (runDir c d h).vrf = d.vrf ∧
        (runDir c d h).commitmentKey = d.commitmentKey
  | [], d, sp, _, _, _, href, _, _ => ⟨href, rfl, rfl⟩
  | b :: rest, d, sp, hv, ht, hN, href, hu, hb => by
    simp only [List.length_cons] at hN
    have hstep := publish_refines c hc d sp users N hv ht (by omega) href b
      (hb b List.mem_cons_self) hu
    simp only at hstep
    have hle := Pub.applyBatch_epoch_le sp b
    have hu' : ∀ x ∈ (Spec.applyBatch sp b).table, x.1 ∈ users := by
      intro x hx
      rcases Pub.applyBatch_keys sp b x hx with h | h
      · obtain ⟨y, hy, hyx⟩ := List.mem_map.1 h
        exact hyx ▸ hb b List.mem_cons_self y hy
      · exact hu x h
    have hb' : ∀ b' ∈ rest, ∀ x ∈ b', x.1 ∈ users := fun b' hb'' => hb b' (List.mem_cons_of_mem _ hb'')
    rw [List.foldl_cons]
    by_cases hdup : (b.map (·.1)).eraseDups.length = b.length
    · obtain ⟨d', hpub, href', hvrf, hkey, _⟩ := hstep.2 hdup
      have hrun : runDir c d (b :: rest) = runDir c d' rest := by
        simp only [runDir, hpub]
      rw [hrun, ← hvrf, ← hkey]
      exact runDir_refines c hc users N rest d' _ (hvrf ▸ hv) (hvrf ▸ ht) (by omega) href' hu' hb'
    · obtain ⟨⟨e, hpub⟩, hsp⟩ := hstep.1 hdup
      have hrun : runDir c d (b :: rest) = runDir c d rest := by
        simp only [runDir, hpub]
      rw [hrun, hsp]
      exact runDir_refines c hc users N rest d sp hv ht (by omega) href hu hb'

/-- **every history**: epoch = number of effective publishes, root hash = canonical root over the
specification's leaves, at the end of any sequence of batches -/
theorem history_refines (c : Cfg) (hc : c.emptyLabel.len = 0) (vrf : VrfTable) (key : Dig)
    (users : List Bytes) (h : List (List (Bytes × Bytes)))
    (hv : C06.VrfOK vrf) (ht : VrfTotal vrf users (h.length + 2))
    (hb : ∀ b ∈ h, ∀ x ∈ b, x.1 ∈ users) :
    ∃ d0, Dir.init c { vrf := vrf, commitmentKey := key } = .ok d0 ∧
      Refines c (runDir c d0 h) (Spec.run h) ∧
      (runDir c d0 h).epochHash c = .ok ((Spec.run h).epoch, Spec.rootHash c key vrf (Spec.run h)) := by
  obtain ⟨d0, hinit, href0⟩ := init_refines c vrf key
  have hvrf0 : d0.vrf = vrf ∧ d0.commitmentKey = key := by
    simp only [Dir.init] at hinit
    split at hinit
    · injection hinit with hinit; subst hinit; exact ⟨rfl, rfl⟩
    · cases hinit
  obtain ⟨hr, h1, h2⟩ := runDir_refines c hc users (h.length + 2) h d0 {} (hvrf0.1 ▸ hv) (hvrf0.1 ▸ ht)
    (by show 0 + h.length + 1 ≤ h.length + 2; omega) href0 (fun x hx => nomatch hx) hb
  refine ⟨d0, hinit, hr, ?_⟩
  have := epochHash_of_refines c _ _ (by rw [h1, hvrf0.1]; exact hv) hr
  rw [h1, h2, hvrf0.1, hvrf0.2] at this
  exact this

set_option linter.unusedVariables false in
/-- the tree of the represented state is honest for every label in the sense of C06/C07 -/
theorem refines_honest (c : Cfg) (hc : c.Lawful) (d : Dir) (sp : Spec.State) (hv : C06.VrfOK d.vrf)
    (users : List Bytes) (N : Nat) (ht : VrfTotal d.vrf users N) (hN : sp.epoch + 1 ≤ N)
    (hu : ∀ x ∈ sp.table, x.1 ∈ users)
    (href : Refines c d sp) (u : Bytes) (hmem : u ∈ users) :
    C06.HonestFor c d.commitmentKey d.vrf (CRoot.ofLeaves (Spec.leaves c d.commitmentKey d.vrf sp.table)) u
      (sp.table.get u) := by
  have hV : ∀ u, Pub.VersOK (sp.table.get u) := fun u => (href.versions u).1
  have hEp : ∀ u, ∀ v ∈ sp.table.get u, 1 ≤ v.epoch ∧ v.epoch ≤ sp.epoch := fun u => (href.versions u).2
  have hpfL := Pub.prefixFree_leaves hv.inj hv.len c d.commitmentKey sp.table href.keys hV
  have hlenL := Pub.leaves_len hv.len c d.commitmentKey sp.table
  have hspecL := ofLeaves_spec _ hpfL (fun x hx h => by have := hlenL x hx; rw [h] at this; cases this)
  have hmemL : ∀ lf, lf ∈ (CRoot.ofLeaves (Spec.leaves c d.commitmentKey d.vrf sp.table)).leaves ↔
      lf ∈ Spec.leaves c d.commitmentKey d.vrf sp.table := fun lf => hspecL.2.mem_iff
  refine ⟨hV u, ?_, ?_, ?_, ?_⟩
  · intro v hvm
    have hlen := Pub.versOK_length_le (hV u) _ (hEp u)
    have hver := Pub.versOK_version_le (hV u) hvm
    obtain ⟨l, hl⟩ := Option.isSome_iff_exists.1 (ht u hmem true v.version hver.1 (by omega))
    exact ⟨l, hl, (hmemL _).2 (Pub.fresh_present c d.commitmentKey sp.table u v hvm l hl)⟩
  · intro ver l lf hl hlf hlbl
    exact Pub.fresh_only hv.inj hv.len c d.commitmentKey sp.table href.keys u ver l lf hl ((hmemL _).1 hlf) hlbl
  · intro ver l hver hl
    rw [← Pub.stale_iff hv.inj hv.len c d.commitmentKey sp.table href.keys hV u ver hver l hl]
    constructor
    · rintro ⟨lf, h1, h2⟩; exact ⟨lf, (hmemL _).1 h1, h2⟩
    · rintro ⟨lf, h1, h2⟩; exact ⟨lf, (hmemL _).2 h1, h2⟩
  · intro ver l lf _ hl hlf hlbl
    exact Pub.stale_stamp hv.inj hv.len c d.commitmentKey sp.table href.keys u ver l lf hl ((hmemL _).1 hlf) hlbl

/-! ### non-vacuity: a concrete oracle table and history satisfying every hypothesis -/

def exU : Bytes := [1]
def exLab (b : UInt8) : NodeLabel := ⟨Vector.replicate 32 b, 256⟩
def exVrf : VrfTable :=
  [(⟨exU, true, 1⟩, exLab 1), (⟨exU, false, 1⟩, exLab 2), (⟨exU, true, 2⟩, exLab 3), (⟨exU, false, 2⟩, exLab 4),
   (⟨exU, true, 3⟩, exLab 5), (⟨exU, false, 3⟩, exLab 6), (⟨exU, true, 4⟩, exLab 7), (⟨exU, false, 4⟩, exLab 8)]

theorem exLab_inj (a b : UInt8) (h : exLab a = exLab b) : a = b := by
  have := congrArg (fun l => l.val[0]) h
  simpa [exLab] using this

theorem exVrf_mem (k : VrfClaim) (l : NodeLabel) (h : exVrf.get? k = some l) : (k, l) ∈ exVrf := by
  have : ∀ (t : VrfTable), t.get? k = some l → (k, l) ∈ t := by
    intro t
    induction t with
    | nil => intro h; cases h
    | cons x xs ih =>
      obtain ⟨k', l'⟩ := x
      intro h
      simp only [VrfTable.get?] at h
      split at h
      · rename_i hk; cases h; rw [hk]; exact List.mem_cons_self
      · exact List.mem_cons_of_mem _ (ih h)
  exact this _ h

theorem exVrf_ok : C06.VrfOK exVrf := by
  constructor
  · intro k k' l h1 h2
    have m1 := exVrf_mem k l h1
    have m2 := exVrf_mem k' l h2
    simp only [exVrf, List.mem_cons, Prod.mk.injEq, List.not_mem_nil, or_false] at m1 m2
    rcases m1 with ⟨rfl, rfl⟩ | ⟨rfl, rfl⟩ | ⟨rfl, rfl⟩ | ⟨rfl, rfl⟩ | ⟨rfl, rfl⟩ | ⟨rfl, rfl⟩ | ⟨rfl, rfl⟩ | ⟨rfl, rfl⟩ <;>
    rcases m2 with ⟨rfl, h⟩ | ⟨rfl, h⟩ | ⟨rfl, h⟩ | ⟨rfl, h⟩ | ⟨rfl, h⟩ | ⟨rfl, h⟩ | ⟨rfl, h⟩ | ⟨rfl, h⟩ <;>
    first | rfl | (exact absurd (exLab_inj _ _ h) (by decide))
  · intro k l h
    have m1 := exVrf_mem k l h
    simp only [exVrf, List.mem_cons, Prod.mk.injEq, List.not_mem_nil, or_false] at m1
    rcases m1 with ⟨_, rfl⟩ | ⟨_, rfl⟩ | ⟨_, rfl⟩ | ⟨_, rfl⟩ | ⟨_, rfl⟩ | ⟨_, rfl⟩ | ⟨_, rfl⟩ | ⟨_, rfl⟩ <;> rfl

theorem exVrf_total : VrfTotal exVrf [exU] 4 := by
  intro u hu f v h1 h2
  simp only [List.mem_singleton] at hu
  subst hu
  have : v = 1 ∨ v = 2 ∨ v = 3 ∨ v = 4 := by omega
  rcases this with rfl | rfl | rfl | rfl <;> cases f <;> decide

/-- non-vacuity: the hypotheses of `history_refines` hold for a two-batch history of one label -/
example (c : Cfg) (hc : c.emptyLabel.len = 0) (key : Dig) :
    ∃ d0, Dir.init c { vrf := exVrf, commitmentKey := key } = .ok d0 ∧
      Refines c (runDir c d0 [[(exU, [9])], [(exU, [8])]]) (Spec.run [[(exU, [9])], [(exU, [8])]]) ∧
      (Spec.run [[(exU, [9])], [(exU, [8])]]).epoch = 2 :=
  let ⟨d0, h1, h2, _⟩ := history_refines c hc exVrf key [exU] [[(exU, [9])], [(exU, [8])]] exVrf_ok exVrf_total
    (by simp)
  ⟨d0, h1, h2, by decide⟩

end Akd.C01
