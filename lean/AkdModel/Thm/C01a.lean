/-
C01 (part a) — "the canonical compressed binary trie over a set of leaves" is well defined:
a well-formed trie is determined by its leaf set, one-at-a-time insertion keeps tries
well-formed and adds exactly the new leaf, and therefore `CRoot.ofLeaves` does not depend on the
order of insertion.  Everything here is on bit strings (`CTrie.lean`); no hashing is involved
except in the last corollary.
-/
import AkdModel.CTrie
import AkdModel.Lemmas.CanonLemmas
import AkdModel.Lemmas.CanonHash
namespace Akd.C01
open Akd

/-- no label is a prefix of (or equal to) another one -/
def PrefixFree (xs : List Leaf) : Prop :=
  xs.Pairwise (fun a b => ¬ a.lbl <+: b.lbl ∧ ¬ b.lbl <+: a.lbl)

/-- a leaf whose label is neither a prefix nor an extension of any leaf label of `t` -/
def Fresh (t : CRoot) (x : Leaf) : Prop :=
  x.lbl ≠ [] ∧ ∀ lf ∈ t.leaves, ¬ x.lbl <+: lf.lbl ∧ ¬ lf.lbl <+: x.lbl

/-- insertion keeps the trie well-formed -/
theorem insert1_wf (t : CRoot) (x : Leaf) (hwf : t.WF) (hx : Fresh t x) : (t.insert1 x).WF :=
  (Canon.Root.insert1_spec t x hwf hx.1 hx.2).1

/-- insertion adds exactly the new leaf -/
theorem insert1_leaves (t : CRoot) (x : Leaf) (hwf : t.WF) (hx : Fresh t x) :
    (t.insert1 x).leaves.Perm (x :: t.leaves) :=
  (Canon.Root.insert1_spec t x hwf hx.1 hx.2).2

/-- a well-formed trie has a prefix-free leaf list -/
theorem wf_prefixFree (t : CRoot) (hwf : t.WF) : PrefixFree t.leaves :=
  Canon.Root.pairwise hwf

/-- **uniqueness**: two well-formed tries with the same leaves (as multisets) are equal -/
theorem wf_unique (t₁ t₂ : CRoot) (h₁ : t₁.WF) (h₂ : t₂.WF) (hp : t₁.leaves.Perm t₂.leaves) : t₁ = t₂ :=
  Canon.Root.wf_unique t₁ t₂ h₁ h₂ hp

/-- the canonical trie over a prefix-free leaf list: well-formed, with exactly those leaves -/
theorem ofLeaves_spec (xs : List Leaf) (hpf : PrefixFree xs) (hne : ∀ x ∈ xs, x.lbl ≠ []) :
    (CRoot.ofLeaves xs).WF ∧ (CRoot.ofLeaves xs).leaves.Perm xs :=
  Canon.Root.ofLeaves_spec xs hpf hne

/-- … and it does not depend on the order of insertion -/
theorem ofLeaves_perm (xs ys : List Leaf) (hpf : PrefixFree xs) (hne : ∀ x ∈ xs, x.lbl ≠ [])
    (hp : xs.Perm ys) : CRoot.ofLeaves xs = CRoot.ofLeaves ys := by
  have hpf' : PrefixFree ys := (hp.pairwise_iff Canon.Incomp.symm).1 hpf
  have hne' : ∀ x ∈ ys, x.lbl ≠ [] := fun x h => hne x (hp.mem_iff.2 h)
  have sx := ofLeaves_spec xs hpf hne
  have sy := ofLeaves_spec ys hpf' hne'
  exact wf_unique _ _ sx.1 sy.1 ((sx.2.trans hp).trans sy.2.symm)

/-- hence equal leaf sets give equal root hashes, under either configuration -/
theorem rootHash_perm (c : Cfg) (xs ys : List Leaf) (hpf : PrefixFree xs) (hne : ∀ x ∈ xs, x.lbl ≠ [])
    (hp : xs.Perm ys) : (CRoot.ofLeaves xs).rootHash c = (CRoot.ofLeaves ys).rootHash c := by
  rw [ofLeaves_perm xs ys hpf hne hp]

/-- conversely, with a lawful configuration the root hash determines the trie (labels of length ≤ 256):
two well-formed tries with the same root hash are equal -/
theorem rootHash_injective (c : Cfg) (hc : c.Lawful) (t₁ t₂ : CRoot) (h₁ : t₁.WF) (h₂ : t₂.WF)
    (hl₁ : ∀ lf ∈ t₁.leaves, lf.lbl.length ≤ 256) (hl₂ : ∀ lf ∈ t₂.leaves, lf.lbl.length ≤ 256)
    (h : t₁.rootHash c = t₂.rootHash c) : t₁ = t₂ :=
  Canon.Root.value_inj c hc t₁ t₂ h₁ h₂ hl₁ hl₂ (hc.root_inj _ _ h)

/-! non-vacuity -/
example : PrefixFree [⟨[false, false], .raw [1], 1⟩, ⟨[false, true], .raw [2], 1⟩, ⟨[true], .raw [3], 2⟩] := by
  simp [PrefixFree]

end Akd.C01
