/-
C18 — a node label is bound to the label, freshness and version it was derived from   (partial)

What is logic and is proved here:
* the VRF input bytes are injective in (label, freshness, version);
* completeness of ECVRF in an abstract module-over-scalars model (the verification equations hold
  for every honestly generated proof, and the output is the evaluation);
* the 80-byte proof encoding round-trips, and any other length is rejected;
* the decision logic of `verify_label` over the VRF contract.
What is NOT a theorem (assumed contract, DESIGN §4 (ii)): uniqueness / non-malleability of ECVRF
outputs, key separation, SHA-512 and Edwards-curve arithmetic.
-/
import Mathlib.Algebra.Module.Defs
import Mathlib.Tactic.Ring
import AkdModel.Vrf
import AkdModel.Verify
import AkdModel.Thm.C06
import AkdModel.Lemmas.VrfLemmas
namespace Akd.C18
open Akd Akd.Vrf

/-- distinct (label, freshness, version) triples reach the VRF as distinct inputs -/
theorem labelInput_injective (l l' : Bytes) (f f' : Bool) (v v' : Nat)
    (hl : l.length < 2 ^ 64) (hl' : l'.length < 2 ^ 64) (hv : v < 2 ^ 64) (hv' : v' < 2 ^ 64)
    (h : labelInput l f v = labelInput l' f' v') : l = l' ∧ f = f' ∧ v = v' := by
  sorry

theorem proof_bytes_roundtrip (p : Proof) (hg : p.gamma.length = 32) (hc : p.c < 2 ^ 128) (hs : p.s < ell) :
    decodeProof (encodeProof p) = some p := by
  sorry

theorem proof_wrong_length_rejected (bs : Bytes) (h : bs.length ≠ 80) : decodeProof bs = none := by
  sorry

/-- a non-canonical encoding of `s` (`s + ℓ`, which still fits 32 bytes) decodes to the SAME proof:
altering the bytes this way cannot make a different label verify -/
theorem proof_s_plus_ell (p : Proof) (hg : p.gamma.length = 32) (hc : p.c < 2 ^ 128) (hs : p.s < ell) :
    decodeProof (p.gamma ++ le 16 p.c ++ le 32 (p.s + ell)) = some p := by
  sorry

/-! ### ECVRF completeness in an abstract model: scalars form a commutative ring `R`, points an
`R`-module `M`; `B` is the base point, `H α` the hash-to-curve of the input, `hsh` the challenge hash. -/
section ecvrf
variable {R M A : Type} [CommRing R] [AddCommGroup M] [Module R M]

structure EProof (R M : Type) where
  gamma : M
  c : R
  s : R

/-- `VRFExpandedPrivateKey::prove` with secret scalar `x` and nonce `k` (ecvrf_impl.rs:110-141) -/
def prove (B : M) (H : A → M) (hsh : M → M → M → M → M → R) (x k : R) (α : A) : EProof R M :=
  let Γ := x • H α
  let c := hsh (x • B) (H α) Γ (k • B) (k • H α)
  ⟨Γ, c, k + c * x⟩

/-- `VRFPublicKey::verify` (ecvrf_impl.rs:197-228) -/
def verify (B : M) (H : A → M) (hsh : M → M → M → M → M → R) (Y : M) (α : A) (π : EProof R M) : Prop :=
  π.c = hsh Y (H α) π.gamma (π.s • B - π.c • Y) (π.s • H α - π.c • π.gamma)

/-- every honestly generated proof verifies under the public key `x • B`, and its `gamma` — from which
the output (hence the node label) is computed — is the evaluation `x • H α` -/
theorem vrf_complete (B : M) (H : A → M) (hsh : M → M → M → M → M → R) (x k : R) (α : A) :
    verify B H hsh (x • B) α (prove B H hsh x k α) ∧ (prove B H hsh x k α).gamma = x • H α := by
  sorry

/-- the proof's `gamma` does not depend on the nonce: evaluation is deterministic -/
theorem vrf_deterministic (B : M) (H : A → M) (hsh : M → M → M → M → M → R) (x k k' : R) (α : A) :
    (prove B H hsh x k α).gamma = (prove B H hsh x k' α).gamma := by
  sorry
end ecvrf

/-! ### the decision logic of `verify_label` over the VRF contract -/

/-- accepted iff the proof is the honest one for exactly this (label, freshness, version) and the claimed
node label is the VRF output for it -/
theorem verifyLabel_spec (t : VrfTable) (u : Akd.Bytes) (f : Bool) (v : Nat) (pf : VrfProof) (nl : NodeLabel) :
    Verify.verifyLabel t u f v pf nl = true ↔ pf = some ⟨u, f, v⟩ ∧ t.get? ⟨u, f, v⟩ = some nl := by
  sorry

/-- with distinct outputs for distinct inputs, a proof accepted for one (label, freshness, version, node
label) is rejected as soon as any single one of them is altered -/
theorem verifyLabel_single_field (t : VrfTable) (hv : C06.VrfOK t) (u u' : Akd.Bytes) (f f' : Bool) (v v' : Nat)
    (pf : VrfProof) (nl nl' : NodeLabel)
    (h : Verify.verifyLabel t u f v pf nl = true)
    (hne : (u', f', v', nl') ≠ (u, f, v, nl)) (hpf : Verify.verifyLabel t u' f' v' pf nl' = true) : False := by
  sorry

end Akd.C18
