/-
C18 — a node label is bound to the label, freshness and version it was derived from   (partial)

What is logic and is proved here:
* the VRF input bytes are injective in (label, freshness, version);
* completeness of ECVRF in an abstract module-over-scalars model (the verification equations hold
  for every honestly generated proof, and the output is the evaluation);
* the 80-byte proof encoding round-trips, and any other length is rejected;
* the decision logic of `verify_label` over the VRF contract.
What is NOT a theorem (assumed contract, DESIGN §4 (ii)): uniqueness / non-malleability of ECVRF
outputs, key separation, SHA-512 and Edwards-curve arithmetic.
-/
import Mathlib.Algebra.Module.Defs
import Mathlib.Tactic.Ring
import AkdModel.Vrf
import AkdModel.Verify
import AkdModel.Thm.C06
import AkdModel.Lemmas.VrfLemmas
namespace Akd.C18
open Akd Akd.Vrf

/-- distinct (label, freshness, version) triples reach the VRF as distinct inputs -/
theorem labelInput_injective (l l' : Bytes) (f f' : Bool) (v v' : Nat)
    (hl : l.length < 2 ^ 64) (hl' : l'.length < 2 ^ 64) (hv : v < 2 ^ 64) (hv' : v' < 2 ^ 64)
    (h : labelInput l f v = labelInput l' f' v') : l = l' ∧ f = f' ∧ v = v' :=
  labelInput_inj hl hl' hv hv' h

theorem proof_bytes_roundtrip (p : Proof) (hg : p.gamma.length = 32) (hc : p.c < 2 ^ 128) (hs : p.s < ell) :
    decodeProof (encodeProof p) = some p := by
  have hc' : p.c < 256 ^ 16 := by simpa using hc
  have hs' : p.s < 256 ^ 32 := Nat.lt_trans hs (Nat.lt_trans ell_lt (by decide))
  rw [encodeProof, decodeProof_parts _ _ _ hg, Nat.mod_eq_of_lt hc', Nat.mod_eq_of_lt hs',
    Nat.mod_eq_of_lt (c_lt_ell hc), Nat.mod_eq_of_lt hs]

theorem proof_wrong_length_rejected (bs : Bytes) (h : bs.length ≠ 80) : decodeProof bs = none := by
  unfold decodeProof
  rw [if_pos h]

/-- a non-canonical encoding of `s` (`s + ℓ`, which still fits 32 bytes) decodes to the SAME proof:
altering the bytes this way cannot make a different label verify -/
theorem proof_s_plus_ell (p : Proof) (hg : p.gamma.length = 32) (hc : p.c < 2 ^ 128) (hs : p.s < ell) :
    decodeProof (p.gamma ++ le 16 p.c ++ le 32 (p.s + ell)) = some p := by
  have hc' : p.c < 256 ^ 16 := by simpa using hc
  have hs' : p.s + ell < 256 ^ 32 :=
    Nat.lt_trans (Nat.add_lt_add_right hs ell) two_ell_lt
  rw [decodeProof_parts _ _ _ hg, Nat.mod_eq_of_lt hc', Nat.mod_eq_of_lt hs',
    Nat.mod_eq_of_lt (c_lt_ell hc), Nat.add_mod_right, Nat.mod_eq_of_lt hs]

/-! ### ECVRF completeness in an abstract model: scalars form a commutative ring `R`, points an
`R`-module `M`; `B` is the base point, `H α` the hash-to-curve of the input, `hsh` the challenge hash. -/
section ecvrf
variable {R M A : Type} [CommRing R] [AddCommGroup M] [Module R M]

structure EProof (R M : Type) where
  gamma : M
  c : R
  s : R

/-- `VRFExpandedPrivateKey::prove` with secret scalar `x` and nonce `k` (ecvrf_impl.rs:110-141) -/
def prove (B : M) (H : A → M) (hsh : M → M → M → M → M → R) (x k : R) (α : A) : EProof R M :=
  let Γ := x • H α
  let c := hsh (x • B) (H α) Γ (k • B) (k • H α)
  ⟨Γ, c, k + c * x⟩

/-- `VRFPublicKey::verify` (ecvrf_impl.rs:197-228) -/
def verify (B : M) (H : A → M) (hsh : M → M → M → M → M → R) (Y : M) (α : A) (π : EProof R M) : Prop :=
  π.c = hsh Y (H α) π.gamma (π.s • B - π.c • Y) (π.s • H α - π.c • π.gamma)

/-- every honestly generated proof verifies under the public key `x • B`, and its `gamma` — from which
the output (hence the node label) is computed — is the evaluation `x • H α` -/
theorem vrf_complete (B : M) (H : A → M) (hsh : M → M → M → M → M → R) (x k : R) (α : A) :
    verify B H hsh (x • B) α (prove B H hsh x k α) ∧ (prove B H hsh x k α).gamma = x • H α := by
  refine ⟨?_, rfl⟩
  have e1 : (k + hsh (x • B) (H α) (x • H α) (k • B) (k • H α) * x) • B
      - hsh (x • B) (H α) (x • H α) (k • B) (k • H α) • x • B = k • B := by
    rw [add_smul, mul_smul, add_sub_cancel_right]
  have e2 : (k + hsh (x • B) (H α) (x • H α) (k • B) (k • H α) * x) • H α
      - hsh (x • B) (H α) (x • H α) (k • B) (k • H α) • x • H α = k • H α := by
    rw [add_smul, mul_smul, add_sub_cancel_right]
  simp only [verify, prove]
  rw [e1, e2]

/-- the proof's `gamma` does not depend on the nonce: evaluation is deterministic -/
theorem vrf_deterministic (B : M) (H : A → M) (hsh : M → M → M → M → M → R) (x k k' : R) (α : A) :
    (prove B H hsh x k α).gamma = (prove B H hsh x k' α).gamma := rfl
end ecvrf

/-! ### the decision logic of `verify_label` over the VRF contract -/

/-- accepted iff the proof is the honest one for exactly this (label, freshness, version) and the claimed
node label is the VRF output for it -/
theorem verifyLabel_spec (t : VrfTable) (u : Akd.Bytes) (f : Bool) (v : Nat) (pf : VrfProof) (nl : NodeLabel) :
    Verify.verifyLabel t u f v pf nl = true ↔ pf = some ⟨u, f, v⟩ ∧ t.get? ⟨u, f, v⟩ = some nl := by
  cases pf with
  | none => simp [Verify.verifyLabel]
  | some cl =>
    obtain ⟨cu, cf, cv⟩ := cl
    simp only [Verify.verifyLabel, Bool.and_eq_true, decide_eq_true_eq, Option.some.injEq,
      VrfClaim.mk.injEq]
    constructor
    · rintro ⟨⟨⟨rfl, rfl⟩, rfl⟩, h⟩
      refine ⟨⟨rfl, rfl, rfl⟩, ?_⟩
      cases hg : t.get? ⟨cu, cf, cv⟩ with
      | none => rw [hg] at h; exact absurd h (by simp)
      | some l => rw [hg] at h; simpa using h
    · rintro ⟨⟨rfl, rfl, rfl⟩, h⟩
      rw [h]
      simp

-- `hv` is kept as stated but is not needed: the proof object already pins the claim, and `get?` is a
-- function; the place where `VrfOK.inj` matters is `verifyLabel_label_binds` below
set_option linter.unusedVariables false in
/-- with distinct outputs for distinct inputs, a proof accepted for one (label, freshness, version, node
label) is rejected as soon as any single one of them is altered -/
theorem verifyLabel_single_field (t : VrfTable) (hv : C06.VrfOK t) (u u' : Akd.Bytes) (f f' : Bool) (v v' : Nat)
    (pf : VrfProof) (nl nl' : NodeLabel)
    (h : Verify.verifyLabel t u f v pf nl = true)
    (hne : (u', f', v', nl') ≠ (u, f, v, nl)) (hpf : Verify.verifyLabel t u' f' v' pf nl' = true) : False := by
  obtain ⟨h1, h2⟩ := (verifyLabel_spec t u f v pf nl).mp h
  obtain ⟨h3, h4⟩ := (verifyLabel_spec t u' f' v' pf nl').mp hpf
  -- the claim is pinned by the proof object itself; `hv.inj` is not needed for this direction
  have hk : (⟨u', f', v'⟩ : VrfClaim) = ⟨u, f, v⟩ := Option.some.inj (h3.symm.trans h1)
  rw [hk, h2] at h4
  injection hk with e1 e2 e3
  exact hne (by rw [e1, e2, e3, Option.some.inj h4])

/-- the complementary use of `VrfOK.inj`: two accepted proofs (possibly different proof objects) for the
same node label are for the same (label, freshness, version) -/
theorem verifyLabel_label_binds (t : VrfTable) (hv : C06.VrfOK t) (u u' : Akd.Bytes) (f f' : Bool) (v v' : Nat)
    (pf pf' : VrfProof) (nl : NodeLabel)
    (h : Verify.verifyLabel t u f v pf nl = true) (h' : Verify.verifyLabel t u' f' v' pf' nl = true) :
    u = u' ∧ f = f' ∧ v = v' := by
  obtain ⟨-, h2⟩ := (verifyLabel_spec t u f v pf nl).mp h
  obtain ⟨-, h4⟩ := (verifyLabel_spec t u' f' v' pf' nl).mp h'
  have hk := hv.inj _ _ nl h2 h4
  injection hk with e1 e2 e3
  exact ⟨e1, e2, e3⟩

/-! ### non-vacuity -/

example : labelInput [] true 1 ≠ labelInput [0] false 1 := by decide
example : labelInput [1, 2] true 7 ≠ labelInput [1, 2] true 8 := by decide
example : labelInput [1, 2] true 7 ≠ labelInput [1, 2] false 7 := by decide
example : labelInput [1, 2] true 258 =
    [0, 0, 0, 0, 0, 0, 0, 2, 1, 2, 1, 0, 0, 0, 0, 0, 0, 1, 2] := by decide
/-- without the bound the encoding is not injective: `be8` truncates to 64 bits -/
example : labelInput [] true 0 = labelInput [] true (2 ^ 64) := by decide

def exProof : Proof := ⟨List.replicate 32 7, 2 ^ 127 + 5, ell - 1⟩
example : exProof.gamma.length = 32 ∧ exProof.c < 2 ^ 128 ∧ exProof.s < ell := by decide
example : decodeProof (encodeProof exProof) = some exProof :=
  proof_bytes_roundtrip exProof (by decide) (by decide) (by decide)
example : (encodeProof exProof).length = 80 := by decide
example : decodeProof (List.replicate 79 0) = none := proof_wrong_length_rejected _ (by decide)
example : decodeProof (List.replicate 81 0) = none := proof_wrong_length_rejected _ (by decide)
/-- the `s + ℓ` encoding really is a different byte string -/
example : le 32 (3 + ell) ≠ le 32 3 := by decide
/-- and the canonicity hypothesis `s < ℓ` is needed: `s = ℓ` is reduced to `0` -/
example : ofLe (le 32 ell) % ell = 0 := by decide

/-- the abstract ECVRF model instantiated at `R = M = ℤ` -/
example : verify (R := Int) (M := Int) (A := Int) 1 (fun a => a + 2) (fun a b c d e => a + b + c + d + e) (3 • (1 : Int)) 5
    (prove (R := Int) (M := Int) (A := Int) 1 (fun a => a + 2) (fun a b c d e => a + b + c + d + e) 3 11 5) :=
  (vrf_complete (R := Int) (M := Int) (A := Int) 1 _ _ 3 11 5).1

def exTable : VrfTable := [(⟨[1], true, 1⟩, ⟨Vector.replicate 32 1, 256⟩), (⟨[1], false, 1⟩, ⟨Vector.replicate 32 2, 256⟩)]
example : Verify.verifyLabel exTable [1] true 1 (some ⟨[1], true, 1⟩) ⟨Vector.replicate 32 1, 256⟩ = true := by decide
example : Verify.verifyLabel exTable [1] false 1 (some ⟨[1], true, 1⟩) ⟨Vector.replicate 32 1, 256⟩ = false := by decide
example : Verify.verifyLabel exTable [1] true 2 (some ⟨[1], true, 1⟩) ⟨Vector.replicate 32 1, 256⟩ = false := by decide
example : Verify.verifyLabel exTable [1] true 1 (some ⟨[1], true, 1⟩) ⟨Vector.replicate 32 2, 256⟩ = false := by decide

end Akd.C18
