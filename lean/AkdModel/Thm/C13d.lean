/-
C13, lagging instances, end to end — an instance whose view has fallen behind storage BY ANY NUMBER OF EPOCHS.

`d1` is the directory after the publish history `h1`, `d2` after `h1 ++ h2` (any further publishes, including rejected
and no-op batches).  An instance that still holds `d1`'s epoch record but reads today's storage (`d2`'s node store and
value states) answers the epoch hash and every lookup, key-history and audit request exactly as `d1` did — i.e. with the
(epoch, root hash) pair the directory published at that epoch and the proof it served then, which verifies against it
(C02/C03/C04) — or with an error.

Composition of `viewLe_publish` (one publish), `ViewLe.trans` and `lagging_requests` (Thm/C13c) over the history; the
storage invariants those need (`AtEpoch`, `WellKeyed`, "the database holds nothing but the nodes of the tree") are
established here for every state reached by publishes (`StoreOK`).
-/
import AkdModel.Thm.C13c
import AkdModel.Thm.C01c
import AkdModel.Lemmas.LagHistory
namespace Akd.C13
open Akd C01 C11

/-- the storage invariants of a directory state, next to `Refines` -/
structure StoreOK (c : Cfg) (d : Dir) (sp : Spec.State) : Prop where
  refines : Refines c d sp
  atEpoch : AtEpoch d.nodes.db sp.epoch
  keyed : WellKeyed d.nodes.db
  dom : ∀ k, (d.nodes.db.get? k).isSome → k ∈ nodeKeys (CRoot.ofLeaves (Spec.leaves c d.commitmentKey d.vrf sp.table))
  statesLe : ∀ x ∈ d.states, x.epoch ≤ sp.epoch

/-- a fresh directory satisfies the invariants -/
theorem storeOK_init (c : Cfg) (vrf : VrfTable) (key : Dig) :
    ∃ d, Dir.init c { vrf := vrf, commitmentKey := key } = .ok d ∧ StoreOK c d {} := by
  obtain ⟨d, hinit, href⟩ := init_refines c vrf key
  have hd : Dir.init c { vrf := vrf, commitmentKey := key } = .ok
      { nodes := ({} : NodeStore).setRec ⟨NodeLabel.root, TreeNode.newRoot c, none⟩, azks := some ⟨0, 1⟩,
        vrf := vrf, commitmentKey := key } := rfl
  rw [hd] at hinit
  injection hinit with hinit
  subst hinit
  have hdb : ∀ k r, NodeMap.get? (({} : NodeStore).setRec ⟨NodeLabel.root, TreeNode.newRoot c, none⟩).db k = some r →
      k = NodeLabel.root ∧ r = ⟨NodeLabel.root, TreeNode.newRoot c, none⟩ := by
    intro k r h
    have h' : NodeMap.get? [(NodeLabel.root, (⟨NodeLabel.root, TreeNode.newRoot c, none⟩ : NodeRec))] k = some r := h
    simp only [NodeMap.get?] at h'
    split at h'
    · rename_i hk
      simp only [Option.some.injEq] at h'
      exact ⟨hk.symm, h'.symm⟩
    · cases h'
  refine ⟨_, hd, href, ?_, ?_, ?_, fun x hx => nomatch hx⟩
  · intro k r h
    obtain ⟨_, rfl⟩ := hdb k r h
    exact Nat.le_refl _
  · intro k r h
    obtain ⟨rfl, rfl⟩ := hdb k r h
    exact ⟨rfl, fun p hp => nomatch hp⟩
  · intro k hk
    obtain ⟨r, hr⟩ := Option.isSome_iff_exists.1 hk
    obtain ⟨rfl, _⟩ := hdb k r hr
    exact List.mem_cons_self

/-- **one publish** keeps the invariants and only lets earlier epochs' views shrink; the value states it adds are of the
new epoch -/
theorem storeOK_publish (c : Cfg) (hc : c.emptyLabel.len = 0) (d : Dir) (sp : Spec.State)
    (users : List Bytes) (N : Nat)
    (hv : C06.VrfOK d.vrf) (ht : VrfTotal d.vrf users N) (hN : sp.epoch + 2 ≤ N)
    (hok : StoreOK c d sp) (b : List (Bytes × Bytes)) (hb : ∀ x ∈ b, x.1 ∈ users)
    (hu : ∀ x ∈ sp.table, x.1 ∈ users) (d' : Dir) (ep : Nat) (h : Dig)
    (hpub : d.publish c b = .ok (d', ep, h)) :
    StoreOK c d' (Spec.applyBatch sp b) ∧
    (∀ e, e ≤ sp.epoch → ViewLe d.nodes d'.nodes e) ∧
    (∃ extra, d'.states = d.states ++ extra ∧ ∀ x ∈ extra, sp.epoch < x.epoch) := by
  by_cases hdup : (b.map (·.1)).eraseDups.length = b.length
  · obtain ⟨d2, hpub2, href', hvrf, hkey, hat', hkeyed', hdom', hview, extra, hst, hextra⟩ :=
      Lag.publish_step c hc d sp users N hv ht hN hok.refines hok.atEpoch hok.keyed hok.dom b hb hu hdup
    rw [hpub] at hpub2
    injection hpub2 with hpub2
    injection hpub2 with hd2 _
    subst hd2
    refine ⟨⟨href', hat', hkeyed', ?_, ?_⟩, hview, extra, hst, fun x hx => by have := (hextra x hx).1; omega⟩
    · rw [hvrf, hkey]; exact hdom'
    · intro x hx
      obtain ⟨v, hvm, _, he, _⟩ := href'.states.1 x hx
      have := ((href'.versions x.username).2 v hvm).2
      omega
  · obtain ⟨⟨e, herr⟩, _⟩ := (publish_refines c hc d sp users N hv ht hN hok.refines b hb hu).1 hdup
    rw [herr] at hpub
    cases hpub

/-- **any number of epochs behind**: the instance that holds the epoch record of the state after `h1` and reads the
storage of the state after `h1 ++ h2` answers as the directory did after `h1`, or with an error -/
theorem lagging_instance (c : Cfg) (hc : c.emptyLabel.len = 0) (vrf : VrfTable) (key : Dig)
    (users : List Bytes) (h1 h2 : List (List (Bytes × Bytes)))
    (hv : C06.VrfOK vrf) (ht : VrfTotal vrf users ((h1 ++ h2).length + 2))
    (hb : ∀ b ∈ h1 ++ h2, ∀ x ∈ b, x.1 ∈ users) :
    ∃ d0, Dir.init c { vrf := vrf, commitmentKey := key } = .ok d0 ∧
      let d1 := runDir c d0 h1
      let d2 := runDir c d0 (h1 ++ h2)
      let dlag : Dir := { d2 with azks := d1.azks }
      (dlag.epochHash c = d1.epochHash c ∨ ∃ x, dlag.epochHash c = .error x) ∧
      (∀ u, dlag.lookup c u = d1.lookup c u ∨ ∃ x, dlag.lookup c u = .error x) ∧
      (∀ u p, dlag.keyHistory c u p = d1.keyHistory c u p ∨ ∃ x, dlag.keyHistory c u p = .error x) ∧
      (∀ s0 e0, dlag.audit c s0 e0 = d1.audit c s0 e0 ∨ ∃ x, dlag.audit c s0 e0 = .error x) := by
  obtain ⟨d0, hinit, hok0⟩ := storeOK_init c vrf key
  have hvrf0 : d0.vrf = vrf ∧ d0.commitmentKey = key := by
    simp only [Dir.init] at hinit
    split at hinit
    · injection hinit with hinit; subst hinit; exact ⟨rfl, rfl⟩
    · cases hinit
  refine ⟨d0, hinit, ?_⟩
  intro d1 d2 dlag
  have hlen : (h1 ++ h2).length = h1.length + h2.length := List.length_append
  obtain ⟨i1, i2, i3, i4, i5, _⟩ := Lag.run_inv c hc users ((h1 ++ h2).length + 2) h1 d0 {} (hvrf0.1 ▸ hv) (hvrf0.1 ▸ ht)
    (by show 0 + h1.length + 1 ≤ _; omega)
    ⟨hok0.refines, hok0.atEpoch, hok0.keyed, hok0.dom, hok0.statesLe⟩ (fun x hx => nomatch hx)
    (fun b hb' => hb b (List.mem_append_left _ hb'))
  have hE : (h1.foldl Spec.applyBatch {}).epoch ≤ h1.length := by
    have : ({} : Spec.State).epoch = 0 := rfl
    omega
  exact Lag.lagging_run c hc users ((h1 ++ h2).length + 2) h2 d1 (h1.foldl Spec.applyBatch {})
    (by rw [i2, hvrf0.1]; exact hv) (by rw [i2, hvrf0.1]; exact ht) (by omega) i1 i5
    (fun b hb' => hb b (List.mem_append_right _ hb')) dlag
    (by show dlag = { runDir c (runDir c d0 h1) h2 with azks := d1.azks }; rw [← Lag.runDir_append])

end Akd.C13
