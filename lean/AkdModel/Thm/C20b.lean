/-
C20, storage level — `StorageManager::tombstone_value_states` (manager/mod.rs, model `State.tombstone`)
replaces exactly the label's stored values up to the cut by tombstones (payload 0), inside an open
transaction as outside, and touches nothing else: no later state of the label, no state of another
label, no tree node, not the epoch record.  (That the tree, the epoch hashes and the proofs do not depend
on the stored values at all is `Thm/C20.lean`, at directory level.)
-/
import AkdModel.Thm.C16
import AkdModel.Lemmas.TombStoreLemmas
namespace Akd.Store

/-- the label's states as the manager sees them (`get_user_data`): pending records override the database's -/
def view (s : State) (u : Nat) : List Rec :=
  if s.active then Map.setAll (State.userStates s.db u) (State.userStates s.log u) else State.userStates s.db u

/-- what tombstoning up to `cut` does to one state -/
def tombOne (cut : Nat) (r : Rec) : Rec :=
  if State.epochOf r ≤ cut ∧ r.payload ≠ 0 then { r with payload := 0 } else r

/-- what a read of key `k` returns through the manager -/
def readOf (s : State) (k : Key) : Option Rec := truth s k

/-- **exactness**: after `tombstone u cut` the label's states are the old ones with exactly those of
epoch ≤ cut turned into tombstones (as a set; versions and epochs unchanged) -/
theorem tombstone_exact (s : State) (h : Inv s) (u cut : Nat) :
    ∀ r, r ∈ view (s.tombstone fixed u cut false).1 u ↔ ∃ r0 ∈ view s u, r = tombOne cut r0 := by
  intro r
  show r ∈ State.tview _ u ↔ ∃ r0 ∈ State.tview s u, r = tombOne cut r0
  rw [State.mem_tview_tombstone s h.dbWF h.logWF u cut r,
    State.mem_setAll_tombUpd (State.KU_tview h.dbWF h.logWF u) cut r]
  rfl

/-- later states keep their value -/
theorem tombstone_keeps_later (s : State) (h : Inv s) (u cut : Nat) (r : Rec) (hr : r ∈ view s u)
    (hlt : cut < State.epochOf r) : r ∈ view (s.tombstone fixed u cut false).1 u := by
  refine (tombstone_exact s h u cut r).2 ⟨r, hr, ?_⟩
  unfold tombOne
  rw [if_neg (fun hc => Nat.not_le_of_gt hlt hc.1)]

/-- every other key — states of other labels, tree nodes, the epoch record — reads as before -/
theorem tombstone_frame (s : State) (h : Inv s) (u cut : Nat) (k : Key)
    (hk : ∀ e, k ≠ .vs u e) : readOf (s.tombstone fixed u cut false).1 k = readOf s k := by
  obtain ⟨e1, e2⟩ := State.tombstone_get?_other s h.dbWF h.logWF u cut k hk
  unfold readOf truth
  rw [State.tombstone_active_eq, e2]
  cases ha : s.active with
  | true => rw [if_pos rfl, if_pos rfl, e1 ha]
  | false => rfl

/-- the transaction flag is untouched, and outside a transaction nothing is left pending -/
theorem tombstone_active (s : State) (u cut : Nat) (f : Bool) :
    (s.tombstone fixed u cut f).1.active = s.active := by
  exact State.tombstone_active_eq fixed s u cut f

/-- non-vacuity: a label with three states, one already a tombstone, cut in the middle, inside a transaction
in which one state is pending -/
example :
    let s : State := { db := [⟨.vs 1 1, 1, 7⟩, ⟨.vs 1 2, 2, 0⟩, ⟨.vs 2 1, 1, 5⟩, ⟨.azks, 0, 3⟩],
                       log := [⟨.vs 1 3, 3, 9⟩], active := true, canClean := false }
    view (s.tombstone fixed 1 2 false).1 1 = [⟨.vs 1 1, 1, 0⟩, ⟨.vs 1 2, 2, 0⟩, ⟨.vs 1 3, 3, 9⟩]
    ∧ view (s.tombstone fixed 1 2 false).1 2 = [⟨.vs 2 1, 1, 5⟩] := by
  decide

end Akd.Store
