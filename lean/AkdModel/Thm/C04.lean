/-
C04 — every epoch range can be audited against the published root hashes.

`t` is the trie the storage represents at the latest epoch `E`; the trie published at epoch `i ≤ E`
is the canonical trie over the leaves inserted up to `i` (the tree is append-only).  The audit proof
generated for (s, e) from the LATEST tree — however many epochs follow e — verifies against the
root hashes of epochs s..e.

Hypothesis `hlast` (added; the statement is false without it, see `audit_counterexample` below):
the tree is empty or some leaf was inserted at an epoch `≥ en`.  In the directory every epoch
`1..latestEpoch` has at least one leaf (`Dir.publish` does not advance the epoch for an empty batch),
which implies `hlast` (`audit_complete_dense`).  `NodeStore.batchInsert` itself does advance
`latestEpoch` on an empty batch; after such an epoch the root's `lastEpoch` stays behind, and
`appendOnlyHelper` returns an EMPTY proof for the whole (non-empty) tree — the code path
`if node.nodeType = .root then ([], [])`.
-/
import AkdModel.Thm.C09
import AkdModel.Lemmas.AuditGenLemmas
import AkdModel.Lemmas.AuditGenCex
namespace Akd.C04
open Akd C01

/-- the trie as it was published at epoch `i` -/
def treeAt (t : CRoot) (i : Nat) : CRoot := CRoot.ofLeaves (t.leaves.filter (fun lf => lf.ep ≤ i))

/-- the generated proof: for each epoch `ep` in `st..en-1`, `unchanged` = the maximal sub-tries all of
whose leaves have epoch `≤ ep` (as elements `(label, digest)`), `inserted` = the leaves of epoch
`ep + 1` with their un-epoched values -/
def auditProof (c : Cfg) (t : CRoot) (st en : Nat) : NodeStore.AppendOnlyProof :=
  ⟨AGen.proofsFrom c t st (en - st), AGen.epochsFrom st (en - st)⟩

/-- **the output of proof generation** (characterisation of `appendOnlyHelper` / `appendOnlyProof`) -/
theorem appendOnlyProof_eq (c : Cfg)
    (s : NodeStore) (a : Azks) (t : CRoot)
    (hrep : ReprRoot c .directory s t) (hwf : t.WF)
    (hl : ∀ lf ∈ t.leaves, 1 ≤ lf.lbl.length ∧ lf.lbl.length ≤ 256)
    (hep : ∀ lf ∈ t.leaves, 1 ≤ lf.ep ∧ lf.ep ≤ a.latestEpoch)
    (st en : Nat) (hse : st < en) (hen : en ≤ a.latestEpoch)
    (hlast : t.leaves = [] ∨ ∃ lf ∈ t.leaves, en ≤ lf.ep) :
    s.appendOnlyProof c a st en = .ok (auditProof c t st en) := by
  have hrep' := (reprRoot_iff c .directory s t).1 hrep
  have hmax : ∀ lf ∈ t.leaves, lf.ep ≤ a.latestEpoch := fun lf h => (hep lf h).2
  obtain ⟨r, _, hroot⟩ := AGen.getNode_root c s a.latestEpoch t hmax hrep'
  unfold NodeStore.appendOnlyProof
  rw [if_neg (by simp only [Bool.or_eq_true, decide_eq_true_eq]; omega), hroot]
  simp only
  rw [AGen.go_spec c s a r.latest t (en - st) st ⟨[], []⟩]
  · rfl
  · intro e h1 h2
    refine AGen.helper_root c s a.latestEpoch e (e + 1) (Nat.le_succ _) t hwf (fun lf h => (hl lf h).2) hmax hrep'
      ?_ r.latest hroot
    rcases hlast with h | ⟨lf, hlf, hge⟩
    · exact .inl h
    · have := AGen.le_oMax t lf hlf
      exact .inr (by omega)

/-- **audit completeness** -/
theorem audit_complete (c : Cfg) (hc : c.Lawful) (hce : c.emptyLabel.len = 0)
    (s : NodeStore) (a : Azks) (t : CRoot)
    (hrep : ReprRoot c .directory s t) (hwf : t.WF)
    (hl : ∀ lf ∈ t.leaves, 1 ≤ lf.lbl.length ∧ lf.lbl.length ≤ 256)
    (hep : ∀ lf ∈ t.leaves, 1 ≤ lf.ep ∧ lf.ep ≤ a.latestEpoch)
    (st en : Nat) (hse : st < en) (hen : en ≤ a.latestEpoch)
    (hlast : t.leaves = [] ∨ ∃ lf ∈ t.leaves, en ≤ lf.ep) :
    ∃ π, s.appendOnlyProof c a st en = .ok π ∧
      Auditor.verify c ((List.range (en - st + 1)).map fun i => (treeAt t (st + i)).rootHash c) π = .ok () := by
  have _ := hc
  refine ⟨auditProof c t st en, appendOnlyProof_eq c s a t hrep hwf hl hep st en hse hen hlast, ?_⟩
  have hh : ((List.range (en - st + 1)).map fun i => (treeAt t (st + i)).rootHash c)
      = AGen.hashAt c t st :: AGen.restHashes c t (st + 1) (en - st) := AGen.range_hashes c t (en - st) st
  unfold Auditor.verify
  rw [hh]
  simp only [auditProof, List.length_cons, AGen.epochsFrom_length, AGen.proofsFrom_length]
  rw [if_neg (by
    have : ∀ k, (AGen.restHashes c t (st + 1) k).length = k := by
      intro k
      generalize st + 1 = ep
      induction k generalizing ep with
      | zero => rfl
      | succ k ih => simp [AGen.restHashes, ih]
    rw [this]; simp), if_neg (by simp)]
  exact AGen.vgo_spec c hce t hwf hl (en - st) st

/-- corollary: in a tree in which every epoch `1..latestEpoch` has a leaf (every directory state) -/
theorem audit_complete_dense (c : Cfg) (hc : c.Lawful) (hce : c.emptyLabel.len = 0)
    (s : NodeStore) (a : Azks) (t : CRoot)
    (hrep : ReprRoot c .directory s t) (hwf : t.WF)
    (hl : ∀ lf ∈ t.leaves, 1 ≤ lf.lbl.length ∧ lf.lbl.length ≤ 256)
    (hep : ∀ lf ∈ t.leaves, 1 ≤ lf.ep ∧ lf.ep ≤ a.latestEpoch)
    (hdense : ∀ ep, 1 ≤ ep → ep ≤ a.latestEpoch → ∃ lf ∈ t.leaves, lf.ep = ep)
    (st en : Nat) (hse : st < en) (hen : en ≤ a.latestEpoch) :
    ∃ π, s.appendOnlyProof c a st en = .ok π ∧
      Auditor.verify c ((List.range (en - st + 1)).map fun i => (treeAt t (st + i)).rootHash c) π = .ok () := by
  obtain ⟨lf, hlf, he⟩ := hdense en (by omega) hen
  exact audit_complete c hc hce s a t hrep hwf hl hep st en hse hen (.inr ⟨lf, hlf, by omega⟩)

/-- without `hlast` the statement is false: one batch at epoch 1, then two empty batches through
`NodeStore.batchInsert` (latest epoch 3); the proof generated for (1, 2) is empty and the auditor
rejects it against the root hashes of epochs 1 and 2 (`Lemmas/AuditGenCex.lean`) -/
theorem audit_counterexample : AGen.cexCheck Cfg.whatsappV1 = true := AGen.audit_counterexample

/-- invalid ranges are refused -/
theorem audit_refused (c : Cfg) (d : Dir) (st en : Nat) (a : Azks) (ha : d.azks = some a)
    (h : st ≥ en ∨ en > a.latestEpoch) : ∃ e, d.audit c st en = .error e := by
  unfold Dir.audit
  simp only [ha]
  by_cases h1 : st ≥ en
  · exact ⟨.invalidEpoch, by simp [h1, bind, Except.bind, throw, throwThe, MonadExceptOf.throw]⟩
  · have h2 : a.latestEpoch < en := by omega
    exact ⟨.invalidEpoch, by simp [h1, h2, bind, Except.bind, throw, throwThe, MonadExceptOf.throw]⟩

end Akd.C04
