/-
C04 — every epoch range can be audited against the published root hashes.

`t` is the trie the storage represents at the latest epoch `E`; the trie published at epoch `i ≤ E`
is the canonical trie over the leaves inserted up to `i` (the tree is append-only).  The audit proof
generated for (s, e) from the LATEST tree — however many epochs follow e — verifies against the
root hashes of epochs s..e.
-/
import AkdModel.Thm.C02
import AkdModel.Thm.C09
import AkdModel.Lemmas.AuditGenLemmas
namespace Akd.C04
open Akd C01

/-- the trie as it was published at epoch `i` -/
def treeAt (t : CRoot) (i : Nat) : CRoot := CRoot.ofLeaves (t.leaves.filter (fun lf => lf.ep ≤ i))

/-- **audit completeness** -/
theorem audit_complete (c : Cfg) (hc : c.Lawful) (hce : c.emptyLabel.len = 0)
    (s : NodeStore) (a : Azks) (t : CRoot)
    (hrep : ReprRoot c .directory s t) (hwf : t.WF)
    (hl : ∀ lf ∈ t.leaves, 1 ≤ lf.lbl.length ∧ lf.lbl.length ≤ 256)
    (hep : ∀ lf ∈ t.leaves, 1 ≤ lf.ep ∧ lf.ep ≤ a.latestEpoch)
    (st en : Nat) (hse : st < en) (hen : en ≤ a.latestEpoch) :
    ∃ π, s.appendOnlyProof c a st en = .ok π ∧
      Auditor.verify c ((List.range (en - st + 1)).map fun i => (treeAt t (st + i)).rootHash c) π = .ok () := by
  sorry

/-- invalid ranges are refused -/
theorem audit_refused (c : Cfg) (d : Dir) (st en : Nat) (a : Azks) (ha : d.azks = some a)
    (h : st ≥ en ∨ en > a.latestEpoch) : ∃ e, d.audit c st en = .error e := by
  sorry

end Akd.C04
