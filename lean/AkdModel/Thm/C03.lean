/-
C03 — key history returns a verifying, complete account of a label's versions.
Same composition as C02, with the marker arithmetic of C08 (past markers are versions below the
start — present; future markers are versions above the end and at most the epoch — absent).
-/
import AkdModel.Thm.C02
import AkdModel.Thm.C07
import AkdModel.Thm.C08
import AkdModel.Lemmas.GenHistoryVerify
namespace Akd.C03
open Akd C01

-- (`hce` and `hvals` are not needed by the proof: in allow-mode an honest entry with an empty value is
-- checked by `verify_existence` alone and is accepted as well)
set_option linter.unusedVariables false in
/-- **history completeness**: for a published label and every parameter (Complete, MostRecent n with
n ≥ 1), the history request succeeds and the returned proof verifies — with the strict verifier and
with the one that allows missing values — to the label's versions newest first, all of them or the
newest min(n, total), each with its value and epoch -/
theorem history_complete (c : Cfg) (hc : c.Lawful) (hce : c.emptyLabel.len = 0) (hfresh : C05.EmptyLabelFresh c)
    (d : Dir) (sp : Spec.State) (users : List Bytes) (N : Nat)
    (hv : C06.VrfOK d.vrf) (ht : VrfTotal d.vrf users N) (hN : sp.epoch + 1 ≤ N)
    (hu : ∀ x ∈ sp.table, x.1 ∈ users)
    (href : Refines c d sp) (u : Bytes) (hmem : u ∈ users) (hpub : sp.table.get u ≠ [])
    (p : HistoryParams) (hp : ∀ n, p = .mostRecent n → 1 ≤ n) (allow : Bool)
    (hvals : allow = true → ∀ v ∈ sp.table.get u, v.value ≠ []) :
    ∃ π, d.keyHistory c u p = .ok (π, sp.epoch, Spec.rootHash c d.commitmentKey d.vrf sp) ∧
      Verify.history c d.vrf (Spec.rootHash c d.commitmentKey d.vrf sp) sp.epoch u π p allow
        = .ok ((C07.expected (sp.table.get u) p).map C07.resultOf) := by
  obtain ⟨past, future, hm, hgen⟩ := Gen.keyHistory_gen c d sp users N hv ht hN href u hmem hpub p hp
  obtain ⟨hwf, h256, -⟩ := Gen.refines_tree_facts c d sp hv href
  have hlen := Pub.versOK_length_le (href.versions u).1 _ (href.versions u).2
  exact ⟨_, hgen, Gen.honestHistory_verifies hc hfresh hv hwf h256
    (refines_honest c hc d sp hv users N ht hN hu href u hmem) hpub sp.epoch hlen
    (fun f x h1 h2 => ht u hmem f x h1 (by omega)) p hp allow past future hm⟩

end Akd.C03
