/-
C13 (record level) — every node read "as of epoch t" returns the version that was current at t,
or an error: the snapshot-read property of the versioned node records (`Rec.lean`,
`tree_node.rs:62-345`), for a reader lagging by ANY number of epochs and for ANY sequence of writes
(including repeated writes within one epoch and the decompression rewrite that keeps the epoch).
With it, a request that fixes its target epoch once reads the tree of that epoch or fails.
-/
import AkdModel.Rec
import AkdModel.Lemmas.RecLemmas
namespace Akd.C13
open Akd

/-- the `parent` field is bookkeeping no proof reads (it is rewritten when a node is pushed down) -/
def eraseParent (n : TreeNode) : TreeNode := { n with parent := NodeLabel.root }

/-- the versions a node has gone through, oldest first, with strictly increasing epochs -/
def VersionsOK (vs : List TreeNode) : Prop := vs.Pairwise (fun a b => a.lastEpoch < b.lastEpoch)

/-- the version that was current at epoch `t` -/
def versionAt (vs : List TreeNode) (t : Nat) : Option TreeNode :=
  (vs.filter (fun v => v.lastEpoch ≤ t)).getLast?

/-- a stored record agrees with the node's history: `latest` is the newest version, `previous` is
absent or the one before it (all modulo `parent`) -/
def RecOK (r : NodeRec) (vs : List TreeNode) : Prop :=
  VersionsOK vs ∧
  (∃ last, vs.getLast? = some last ∧ eraseParent r.latest = eraseParent last) ∧
  (r.previous = none ∨
    ∃ p q, r.previous = some p ∧ vs.dropLast.getLast? = some q ∧ eraseParent p = eraseParent q)

/-- the history after writing node `n` (epoch not older than the newest version): a write within the
newest version's epoch replaces that version, a later one appends -/
def pushVersion (vs : List TreeNode) (n : TreeNode) : List TreeNode :=
  match vs.getLast? with
  | some last => if n.lastEpoch = last.lastEpoch then vs.dropLast ++ [n] else vs ++ [n]
  | none => [n]

/-! ### small facts about the definitions -/

theorem eraseParent_lastEpoch (n : TreeNode) : (eraseParent n).lastEpoch = n.lastEpoch := rfl

/-- versions equal modulo `parent` are of the same epoch -/
theorem lastEpoch_of_eraseParent_eq {a b : TreeNode} (h : eraseParent a = eraseParent b) :
    a.lastEpoch = b.lastEpoch := by
  have h' := congrArg TreeNode.lastEpoch h
  exact h'

theorem resolve_of_le (r : NodeRec) (t : Nat) (h : r.latest.lastEpoch ≤ t) : r.resolve t = .ok r.latest := by
  unfold NodeRec.resolve
  rw [if_neg (by omega)]

theorem resolve_of_lt_none (r : NodeRec) (t : Nat) (h : t < r.latest.lastEpoch) (hp : r.previous = none) :
    r.resolve t = .error .notFound := by
  unfold NodeRec.resolve
  rw [if_pos h, hp]

theorem resolve_of_lt_some (r : NodeRec) (t : Nat) (p : TreeNode) (h : t < r.latest.lastEpoch)
    (hp : r.previous = some p) :
    r.resolve t = if p.lastEpoch > t then .error .notFound else .ok p := by
  unfold NodeRec.resolve
  rw [if_pos h, hp]

/-- **snapshot read** (full strength, for the repaired `determine_node_to_get`): whatever epoch `t` a
reader targets — however far behind — it gets the version current at `t`, or an error -/
theorem snapshot_read (r : NodeRec) (vs : List TreeNode) (t : Nat) (h : RecOK r vs) :
    r.resolve t = .error .notFound ∨
    ∃ n v, r.resolve t = .ok n ∧ versionAt vs t = some v ∧ eraseParent n = eraseParent v := by
  obtain ⟨hv, ⟨last, hl, hle⟩, hprev⟩ := h
  have hepo := lastEpoch_of_eraseParent_eq hle
  by_cases hlt : t < r.latest.lastEpoch
  · rcases hprev with hn | ⟨p, q, hp, hq, hpq⟩
    · exact .inl (resolve_of_lt_none r t hlt hn)
    · have hpe := lastEpoch_of_eraseParent_eq hpq
      rw [resolve_of_lt_some r t p hlt hp]
      by_cases hpt : p.lastEpoch > t
      · exact .inl (if_pos hpt)
      · refine .inr ⟨p, q, if_neg hpt, ?_, hpq⟩
        exact RecL.current_of_prev_le TreeNode.lastEpoch hv hl hq (by omega) (by omega)
  · refine .inr ⟨r.latest, last, resolve_of_le r t (by omega), ?_, hle⟩
    exact RecL.current_of_last_le TreeNode.lastEpoch hv hl (by omega)

/-- a reader at the record's own epoch or later always succeeds -/
theorem resolve_current (r : NodeRec) (t : Nat) (h : r.latest.lastEpoch ≤ t) : r.resolve t = .ok r.latest :=
  resolve_of_le r t h

/-- a reader exactly one version behind succeeds whenever the previous version is retained -/
theorem resolve_lag1 (r : NodeRec) (vs : List TreeNode) (t : Nat) (h : RecOK r vs) (p : TreeNode)
    (hp : r.previous = some p) (ht : p.lastEpoch ≤ t) (hlt : t < r.latest.lastEpoch) :
    r.resolve t = .ok p := by
  have _ := h  -- the invariant is not needed: `resolve` looks at the record only
  rw [resolve_of_lt_some r t p hlt hp, if_neg (by omega)]

/-- the invariant is preserved by `write_to_storage` of a non-new node, for every write whose epoch is
not older than the newest version (same-epoch rewrites and the epoch-preserving decompression
rewrite included) -/
theorem write_preserves (s : NodeStore) (n : TreeNode) (vs : List TreeNode) (r : NodeRec)
    (hr : s.getRec n.label = some r) (hok : RecOK r vs)
    (hmono : ∀ last, vs.getLast? = some last → last.lastEpoch ≤ n.lastEpoch)
    (hsame : ∀ last, vs.getLast? = some last → n.lastEpoch = last.lastEpoch →
        1 ≤ n.lastEpoch)  -- epoch 0 only ever holds the initial root, written once
    : ∃ s' r', s.writeNode n false = .ok s' ∧ s'.getRec n.label = some r' ∧ RecOK r' (pushVersion vs n) := by
  obtain ⟨hv, ⟨last, hl, hle⟩, hprev⟩ := hok
  have hepo := lastEpoch_of_eraseParent_eq hle
  have hm := hmono last hl
  refine ⟨_, _, RecL.writeNode_old s n r hr, RecL.getRec_setRec_self s ⟨n.label, n, _⟩, ?_⟩
  unfold pushVersion
  rw [hl]
  by_cases heq : n.lastEpoch = last.lastEpoch
  · -- a rewrite within the newest version's epoch (which is not epoch 0)
    have h1 := hsame last hl heq
    have htgt : (if n.lastEpoch > 0 then n.lastEpoch - 1 else n.lastEpoch) = n.lastEpoch - 1 :=
      if_pos (by omega)
    simp only [heq, if_true]
    rw [← heq, htgt]
    refine ⟨RecL.pairwise_replaceLast TreeNode.lastEpoch hv hl heq,
      ⟨n, List.getLast?_concat, rfl⟩, ?_⟩
    rcases hprev with hn | ⟨p, q, hp, hq, hpq⟩
    · left
      show (match r.resolve (n.lastEpoch - 1) with | .ok p => some p | .error _ => none) = none
      rw [resolve_of_lt_none r _ (by omega) hn]
    · right
      have hpe := lastEpoch_of_eraseParent_eq hpq
      have hql := RecL.lt_last TreeNode.lastEpoch hv hl q
        (List.mem_of_getLast? hq)
      refine ⟨p, q, ?_, by rw [List.dropLast_concat]; exact hq, hpq⟩
      show (match r.resolve (n.lastEpoch - 1) with | .ok p => some p | .error _ => none) = some p
      rw [resolve_of_lt_some r _ p (by omega) hp, if_neg (by omega)]
  · -- a write at a later epoch: the newest version becomes the previous one
    have hlt : last.lastEpoch < n.lastEpoch := by omega
    have htgt : (if n.lastEpoch > 0 then n.lastEpoch - 1 else n.lastEpoch) = n.lastEpoch - 1 :=
      if_pos (by omega)
    simp only [heq, if_false]
    rw [htgt]
    refine ⟨RecL.pairwise_concat TreeNode.lastEpoch hv hl hlt, ⟨n, List.getLast?_concat, rfl⟩, ?_⟩
    right
    refine ⟨r.latest, last, ?_, by rw [List.dropLast_concat]; exact hl, hle⟩
    show (match r.resolve (n.lastEpoch - 1) with | .ok p => some p | .error _ => none) = some r.latest
    rw [resolve_of_le r _ (by omega)]

/-- a new node starts a history -/
theorem write_new (s : NodeStore) (n : TreeNode) :
    ∃ s' r', s.writeNode n true = .ok s' ∧ s'.getRec n.label = some r' ∧ RecOK r' [n] :=
  ⟨_, _, RecL.writeNode_new s n, RecL.getRec_setRec_self s ⟨n.label, n, none⟩,
    List.pairwise_singleton _ _, ⟨n, rfl, rfl⟩, .inl rfl⟩

/-- other keys are untouched by a write -/
theorem write_frame (s s' : NodeStore) (n : TreeNode) (isNew : Bool) (k : NodeLabel)
    (h : s.writeNode n isNew = .ok s') (hk : k ≠ n.label) : s'.getRec k = s.getRec k := by
  obtain ⟨p, hp⟩ := RecL.writeNode_ok s n isNew
  rw [hp] at h
  injection h with h
  rw [← h]
  exact RecL.getRec_setRec_ne s _ k hk

/-! ### concrete histories: non-vacuity, and the defect of the pinned commit -/

/-- a version of epoch `e` (all other fields fixed) -/
def exV (e : Nat) : TreeNode := ⟨NodeLabel.root, e, e, NodeLabel.root, .root, none, none, .raw []⟩

/-- a node written at epochs 1, 3 and 5 -/
def exHist : List TreeNode := [exV 1, exV 3, exV 5]

/-- its record: the newest version and the one before -/
def exRec : NodeRec := ⟨NodeLabel.root, exV 5, some (exV 3)⟩

theorem exRec_ok : RecOK exRec exHist := by
  refine ⟨?_, ⟨exV 5, rfl, rfl⟩, .inr ⟨exV 3, exV 3, rfl, rfl, rfl⟩⟩
  simp [VersionsOK, exHist, exV]

theorem versionAt_exHist_1 : versionAt exHist 1 = some (exV 1) := by
  simp [versionAt, exHist, exV]

theorem versionAt_exHist_3 : versionAt exHist 3 = some (exV 3) := by
  simp [versionAt, exHist, exV]

theorem versionAt_exHist_5 : versionAt exHist 5 = some (exV 5) := by
  simp [versionAt, exHist, exV]

/-- non-vacuity: `RecOK` is satisfiable, and `snapshot_read` at each epoch of the history -/
example : exRec.resolve 1 = .error .notFound ∨
    ∃ n v, exRec.resolve 1 = .ok n ∧ versionAt exHist 1 = some v ∧ eraseParent n = eraseParent v :=
  snapshot_read exRec exHist 1 exRec_ok
example : exRec.resolve 3 = .error .notFound ∨
    ∃ n v, exRec.resolve 3 = .ok n ∧ versionAt exHist 3 = some v ∧ eraseParent n = eraseParent v :=
  snapshot_read exRec exHist 3 exRec_ok
example : exRec.resolve 5 = .error .notFound ∨
    ∃ n v, exRec.resolve 5 = .ok n ∧ versionAt exHist 5 = some v ∧ eraseParent n = eraseParent v :=
  snapshot_read exRec exHist 5 exRec_ok

/-- which disjunct holds: two versions behind the reader gets an error (the version of epoch 1 is no
longer retained), at epochs 3 and 5 it gets exactly the version current then -/
example : exRec.resolve 1 = .error .notFound := rfl
example : exRec.resolve 3 = .ok (exV 3) ∧ versionAt exHist 3 = some (exV 3) := ⟨rfl, versionAt_exHist_3⟩
example : exRec.resolve 4 = .ok (exV 3) ∧ versionAt exHist 4 = some (exV 3) :=
  ⟨rfl, by simp [versionAt, exHist, exV]⟩
example : exRec.resolve 5 = .ok (exV 5) ∧ versionAt exHist 5 = some (exV 5) := ⟨rfl, versionAt_exHist_5⟩

/-- the pinned commit returned `previous` without looking at its epoch: a reader two epochs behind
is served the version of epoch t+1 (defect D4) -/
theorem lag2_witness :
    ∃ (r : NodeRec) (vs : List TreeNode) (t : Nat) (n : TreeNode), RecOK r vs ∧
      r.resolveLegacy t = .ok n ∧ t < n.lastEpoch ∧ versionAt vs t ≠ some n ∧
      r.resolve t = .error .notFound := by
  refine ⟨exRec, exHist, 1, exV 3, exRec_ok, rfl, by decide, ?_, rfl⟩
  rw [versionAt_exHist_1]
  intro h
  have := congrArg TreeNode.lastEpoch (Option.some.inj h)
  exact absurd this (by decide)

end Akd.C13
