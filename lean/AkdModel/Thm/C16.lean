/-
C16 — the object cache never changes what a read returns.
C15 — reads inside a storage transaction see pending writes exactly as after commit.
C10 — a publish that returns an error leaves the directory exactly as it was.
All three are theorems about the storage-manager state machine `Store.lean`
(`Store.fixed` = the code as repaired; `Store.legacy` = the pinned commit, for the witnesses).
-/
import AkdModel.Store
import AkdModel.PublishIO
import AkdModel.Lemmas.StoreLemmas
import AkdModel.Lemmas.StoreSelect
namespace Akd.Store

/-- keys are unique and records sit under their own key -/
def Map.WF (m : Map) : Prop := m.Pairwise (fun a b => a.key ≠ b.key)

/-- the cache only ever holds what the database holds -/
structure Inv (s : State) : Prop where
  dbWF : Map.WF s.db
  cacheWF : Map.WF s.cache
  logWF : Map.WF s.log
  cacheNoAzks : ∀ r ∈ s.cache, r.key ≠ .azks
  azksKey : ∀ r, s.cacheAzks = some r → r.key = .azks
  coherent : ∀ r ∈ s.cache, s.db.get? r.key = some r
  coherentAzks : ∀ r, s.cacheAzks = some r → s.db.get? .azks = some r
  noCache : s.hasCache = false → s.cache = [] ∧ s.cacheAzks = none
  idle : s.active = false → s.log = []

/-- what a read of `k` must return: the pending value inside a transaction, else the database's -/
def truth (s : State) (k : Key) : Option Rec :=
  match (if s.active then s.log.get? k else none) with
  | some r => some r
  | none => s.db.get? k

/-! ## C16 -/


/-- changing only the transaction fields keeps the invariant, provided `idle` is respected -/
theorem Inv.frame {s : State} (h : Inv s) (l : Map) (a c : Bool) (hl : Map.WF l)
    (hi : a = false → l = []) : Inv { s with log := l, active := a, canClean := c } :=
  { h with logWF := hl, idle := hi }

/-- a record the database holds may enter the cache -/
theorem Inv.cachePut {s : State} (h : Inv s) {r : Rec} (hr : s.db.get? r.key = some r) :
    Inv (s.cachePut r) := by
  unfold State.cachePut
  split
  · exact h
  · rename_i hc
    have hc : s.hasCache = true := by simpa using hc
    split
    · rename_i hk
      refine { h with azksKey := ?_, coherentAzks := ?_, noCache := ?_ }
      · intro r' e; cases e; exact hk
      · intro r' e; cases e; exact hk ▸ hr
      · intro e; simp [hc] at e
    · rename_i hk
      refine { h with cacheWF := Map.KU_set h.cacheWF r, cacheNoAzks := ?_, coherent := ?_, noCache := ?_ }
      · intro r' hr'
        rcases Map.mem_set hr' with rfl | hr'
        · exact hk
        · exact h.cacheNoAzks _ hr'
      · intro r' hr'
        rcases Map.mem_set hr' with rfl | hr'
        · exact hr
        · exact h.coherent _ hr'
      · intro e; simp [hc] at e

theorem Inv.cachePutAll {s : State} (h : Inv s) {rs : List Rec}
    (hr : ∀ r ∈ rs, s.db.get? r.key = some r) : Inv (s.cachePutAll rs) := by
  induction rs generalizing s with
  | nil => exact h
  | cons r rs ih =>
    rw [State.cachePutAll_cons]
    refine ih (h.cachePut (hr r List.mem_cons_self)) ?_
    intro r' hr'
    rw [State.cachePut_db]
    exact hr r' (List.mem_cons_of_mem _ hr')

/-- the write path of the repaired code: database first, then the cache -/
theorem Inv.setPut {s : State} (h : Inv s) (r : Rec) :
    Inv (({ s with db := s.db.set r }).cachePut r) := by
  obtain ⟨db, hc, cache, az, log, act, cc⟩ := s
  obtain ⟨h1, h2, h3, h4, h5, h6, h7, h8, h9⟩ := h
  dsimp only at *
  cases hc
  · obtain ⟨rfl, rfl⟩ := h8 rfl
    simp only [State.cachePut, Bool.not_false, if_true]
    exact ⟨Map.KU_set h1 r, h2, h3, h4, h5, (by intro r' hr'; cases hr'), (by intro r' e; cases e),
      fun _ => ⟨rfl, rfl⟩, h9⟩
  · by_cases hk : r.key = .azks
    · simp only [State.cachePut, hk, Bool.not_true, Bool.false_eq_true, if_false, if_true]
      refine ⟨Map.KU_set h1 r, h2, h3, h4, ?_, ?_, ?_, ?_, h9⟩
      · intro r' e
        have e' : r = r' := Option.some.inj e
        subst e'; exact hk
      · intro r' hr'
        show (db.set r).get? r'.key = some r'
        rw [Map.get?_set_other db r (k := r'.key) (fun e => h4 r' hr' (e.symm.trans hk))]
        exact h6 _ hr'
      · intro r' e
        have e' : r = r' := Option.some.inj e
        subst e'
        show (db.set r).get? Key.azks = some r
        rw [← hk]; exact Map.get?_set_same db r
      · intro e; cases e
    · simp only [State.cachePut, hk, Bool.not_true, Bool.false_eq_true, if_false]
      refine ⟨Map.KU_set h1 r, Map.KU_set h2 r, h3, ?_, h5, ?_, ?_, ?_, h9⟩
      · intro r' hr'
        rcases Map.mem_set hr' with rfl | hr'
        · exact hk
        · exact h4 _ hr'
      · intro r' hr'
        show (db.set r).get? r'.key = some r'
        rcases (Map.mem_set_iff h2).1 hr' with rfl | ⟨hm, hne⟩
        · exact Map.get?_set_same _ _
        · rw [Map.get?_set_other _ _ (Ne.symm hne)]
          exact h6 _ hm
      · intro r' hr'
        show (db.set r).get? Key.azks = some r'
        rw [Map.get?_set_other _ _ hk]
        exact h7 _ hr'
      · intro e; cases e

theorem Inv.setAllPutAll {s : State} (h : Inv s) (rs : List Rec) :
    Inv (({ s with db := s.db.setAll rs }).cachePutAll rs) := by
  rw [State.setAll_putAll_fold]
  induction rs generalizing s with
  | nil => exact h
  | cons r rs ih => exact ih (h.setPut r)

theorem inv_set (s : State) (r : Rec) (f : Bool) (h : Inv s) : Inv (s.set fixed r f).1 := by
  unfold State.set
  split
  · rename_i ha
    exact h.frame _ _ _ (Map.KU_set h.logWF r) (by simp [ha])
  · simp only [fixed, Bool.false_eq_true, if_false]
    split
    · exact h
    · exact h.setPut r

theorem inv_batchSet (s : State) (rs : List Rec) (f : Bool) (h : Inv s) :
    Inv (s.batchSet fixed rs f).1 := by
  unfold State.batchSet
  split
  · exact h
  · split
    · rename_i ha
      exact h.frame _ _ _ (Map.KU_setAll h.logWF rs) (by simp [ha])
    · simp only [fixed, Bool.false_eq_true, if_false]
      split
      · exact h
      · exact h.setAllPutAll rs

theorem inv_get (s : State) (k : Key) (f : Bool) (h : Inv s) : Inv (s.get k f).1 := by
  unfold State.get
  split
  · exact h
  · split
    · exact h
    · split
      · rename_i r hr
        exact h.cachePut (by rw [Map.get?_some_key hr]; exact hr)
      · exact h

theorem inv_getDirect (s : State) (k : Key) (f : Bool) (h : Inv s) : Inv (s.getDirect k f).1 := by
  unfold State.getDirect
  split <;> exact h

theorem inv_batchGet (s : State) (ks : List Key) (f : Bool) (h : Inv s) :
    Inv (s.batchGet ks f).1 := by
  unfold State.batchGet
  split
  · exact h
  · simp only []
    split
    · exact h
    · split
      · exact h
      · apply h.cachePutAll
        intro r hr
        obtain ⟨k, _, hk⟩ := List.mem_filterMap.1 hr
        rw [Map.get?_some_key hk]; exact hk

theorem inv_begin (s : State) (h : Inv s) : Inv (s.begin).1 :=
  h.frame _ _ _ h.logWF (by simp)

theorem inv_rollback (s : State) (h : Inv s) : Inv (s.rollback).1 := by
  unfold State.rollback
  split
  · exact h
  · exact h.frame _ _ _ List.Pairwise.nil (fun _ => rfl)

theorem inv_commit (s : State) (f : Bool) (h : Inv s) : Inv (s.commit fixed f).1 := by
  have h0 : Inv { s with log := [], active := false,
                         canClean := if s.hasCache then true else s.canClean } :=
    h.frame _ _ _ List.Pairwise.nil (fun _ => rfl)
  unfold State.commit
  split
  · exact h
  · simp only []
    split
    · exact h0
    · split
      · split
        · exact h0
        · simp only [fixed, Bool.false_eq_true, if_false]
          split
          · exact h0
          · exact h0.setAllPutAll _
      · exact h0

theorem inv_flush (s : State) (h : Inv s) : Inv (s.flush).1 :=
  { h with cacheWF := List.Pairwise.nil
           cacheNoAzks := by intro r hr; cases hr
           azksKey := by intro r e; cases e
           coherent := by intro r hr; cases hr
           coherentAzks := by intro r e; cases e
           noCache := fun _ => ⟨rfl, rfl⟩ }

theorem inv_evict (s : State) (ks : List Key) (h : Inv s) : Inv (s.evict ks).1 := by
  unfold State.evict
  split
  · refine { h with cacheWF := Map.KU_foldl_erase h.cacheWF ks, cacheNoAzks := ?_, coherent := ?_,
                    noCache := ?_ }
    · intro r hr; exact h.cacheNoAzks r (Map.mem_foldl_erase hr)
    · intro r hr; exact h.coherent r (Map.mem_foldl_erase hr)
    · intro e
      obtain ⟨h1, h2⟩ := h.noCache e
      refine ⟨?_, h2⟩
      show ks.foldl Map.erase s.cache = []
      rw [h1]
      exact Map.foldl_erase_nil ks
  · exact h

theorem inv_userState (s : State) (u : Nat) (fl : Flag) (f : Bool) (h : Inv s) :
    Inv (s.userState u fl f).1 := by
  have key : ∀ d, State.select (State.userStates s.db u) fl = some d → Inv (s.cachePut d) := by
    intro d hd
    apply h.cachePut
    exact Map.get?_of_mem h.dbWF (State.userStates_sub (State.select_mem hd))
  unfold State.userState
  split
  · exact h
  · simp only []
    split
    · split
      · exact h
      · rename_i d _ hd _; exact key d hd
    · exact h
    · rename_i d _ hd; exact key d hd
    · exact h

theorem inv_userData (s : State) (u : Nat) (f : Bool) (h : Inv s) : Inv (s.userData u f).1 := by
  unfold State.userData
  split
  · exact h
  · split <;> exact h

theorem inv_userVersions (s : State) (us : List Nat) (fl : Flag) (f : Bool) (h : Inv s) :
    Inv (s.userVersions fixed us fl f).1 := by
  unfold State.userVersions
  split <;> exact h

theorem inv_tombstone (s : State) (u e : Nat) (f : Bool) (h : Inv s) :
    Inv (s.tombstone fixed u e f).1 := by
  unfold State.tombstone
  cases f
  · cases ha : s.active <;> simp only [Bool.false_eq_true, if_false, if_true] <;> split
    · exact h
    · exact inv_batchSet _ _ _ h
    · exact h
    · exact inv_batchSet _ _ _ h
  · exact h

/-- the invariant survives every operation: rejected writes, failing commits, evictions at any
time cleaning is enabled, flushes, transactions -/
theorem inv_step (s : State) (op : Op) (h : Inv s) : Inv (step fixed s op).1 := by
  cases op with
  | set r f => exact inv_set s r f h
  | batchSet rs f => exact inv_batchSet s rs f h
  | get k f => exact inv_get s k f h
  | getDirect k f => exact inv_getDirect s k f h
  | batchGet ks f => exact inv_batchGet s ks f h
  | begin => exact inv_begin s h
  | commit f => exact inv_commit s f h
  | rollback => exact inv_rollback s h
  | flush => exact inv_flush s h
  | evict ks => exact inv_evict s ks h
  | userState u fl f => exact inv_userState s u fl f h
  | userData u f => exact inv_userData s u f h
  | userVersions us fl f => exact inv_userVersions s us fl f h
  | tombstone u e f => exact inv_tombstone s u e f h

theorem inv_run (s : State) (ops : List Op) (h : Inv s) : Inv (run fixed s ops) := by
  unfold run
  induction ops generalizing s with
  | nil => exact h
  | cons o ops ih => exact ih _ (inv_step s o h)

theorem inv_init (hasCache : Bool) : Inv { hasCache := hasCache } :=
  { dbWF := List.Pairwise.nil, cacheWF := List.Pairwise.nil, logWF := List.Pairwise.nil
    cacheNoAzks := by intro r hr; cases hr
    azksKey := by intro r e; cases e
    coherent := by intro r hr; cases hr
    coherentAzks := by intro r e; cases e
    noCache := fun _ => ⟨rfl, rfl⟩
    idle := fun _ => rfl }

theorem Inv.cacheHit {s : State} (h : Inv s) {k : Key} {r : Rec} (hr : s.cacheHit k = some r) :
    s.db.get? k = some r := by
  unfold State.cacheHit at hr
  split at hr
  · cases hr
  · split at hr
    · rename_i hk; subst hk; exact h.coherentAzks r hr
    · have := h.coherent r (Map.get?_some_mem hr)
      rwa [Map.get?_some_key hr] at this

/-- the cache-or-log lookup agrees with the truth whenever it answers -/
theorem Inv.truth_eq {s : State} (h : Inv s) (k : Key) :
    truth s k = (match s.fromCacheOnly k with | some r => some r | none => s.db.get? k) := by
  unfold truth State.fromCacheOnly
  cases hl : (if s.active = true then s.log.get? k else none) with
  | some r => rfl
  | none =>
    cases hc : s.cacheHit k with
    | none => rfl
    | some r => exact h.cacheHit hc

theorem get_obs (s : State) (k : Key) :
    (s.get k false).2 = .one (match s.fromCacheOnly k with | some r => some r | none => s.db.get? k) := by
  unfold State.get
  cases hf : s.fromCacheOnly k with
  | some r => rfl
  | none =>
    simp only [Bool.false_eq_true, if_false]
    cases hd : s.db.get? k <;> rfl

/-- every single read returns the truth -/
theorem get_eq_truth (s : State) (k : Key) (h : Inv s) : (s.get k false).2 = .one (truth s k) := by
  rw [get_obs, h.truth_eq]

/-- every batched read returns the truth for each requested key that exists (as a set) -/
theorem batchGet_eq_truth (s : State) (ks : List Key) (h : Inv s) :
    ∃ rs, (s.batchGet ks false).2 = .recs rs ∧ ∀ r, r ∈ rs ↔ ∃ k ∈ ks, truth s k = some r := by
  have ht : ∀ k r, truth s k = some r ↔
      (s.fromCacheOnly k = some r ∨ (s.fromCacheOnly k = none ∧ s.db.get? k = some r)) := by
    intro k r
    rw [h.truth_eq]
    cases s.fromCacheOnly k <;> simp
  unfold State.batchGet
  split
  · rename_i he
    refine ⟨[], rfl, ?_⟩
    have : ks = [] := by simpa using he
    subst this; simp
  · simp only [Bool.false_eq_true, if_false]
    split
    · rename_i hm
      refine ⟨_, rfl, ?_⟩
      have hm : ∀ k ∈ ks, s.fromCacheOnly k ≠ none := by
        intro k hk hn
        have : k ∈ (ks.filter (fun k => (s.fromCacheOnly k).isNone)).eraseDups := by
          rw [List.mem_eraseDups]; exact List.mem_filter.2 ⟨hk, by simp [hn]⟩
        rw [List.isEmpty_iff.1 hm] at this
        cases this
      intro r
      simp only [List.mem_filterMap, ht]
      constructor
      · rintro ⟨k, hk, hr⟩; exact ⟨k, hk, Or.inl hr⟩
      · rintro ⟨k, hk, hr | ⟨hn, _⟩⟩
        · exact ⟨k, hk, hr⟩
        · exact absurd hn (hm k hk)
    · refine ⟨_, rfl, ?_⟩
      intro r
      simp only [List.mem_append, List.mem_filterMap, List.mem_eraseDups, List.mem_filter, ht,
        Option.isNone_iff_eq_none]
      constructor
      · rintro (⟨k, hk, hr⟩ | ⟨k, ⟨hk, hn⟩, hr⟩)
        · exact ⟨k, hk, Or.inl hr⟩
        · exact ⟨k, hk, Or.inr ⟨hn, hr⟩⟩
      · rintro ⟨k, hk, hr | ⟨hn, hr⟩⟩
        · exact Or.inl ⟨k, hk, hr⟩
        · exact Or.inr ⟨k, ⟨hk, hn⟩, hr⟩

/-- after a flush the next read of the epoch record reflects storage -/
theorem flush_then_epoch (s : State) (h : Inv s) :
    ((s.flush).1.get .azks false).2 = .one (truth s .azks) := by
  rw [get_eq_truth _ _ (inv_flush s h)]
  rfl

/-- the pinned commit breaks the invariant on a rejected write (defect D3) -/
theorem rejected_write_witness :
    ∃ s op, Inv s ∧ ¬ Inv (step legacy s op).1 ∧
      ((step legacy s op).1.get .azks false).2 ≠ .one (truth (step legacy s op).1 .azks) := by
  refine ⟨{ db := [⟨.azks, 0, 1⟩] }, .set ⟨.azks, 0, 2⟩ true, ?_, ?_, ?_⟩
  · constructor <;> simp [Map.WF, Map.get?]
  · intro h
    have := h.coherentAzks ⟨.azks, 0, 2⟩ rfl
    revert this
    decide
  · decide

/-! ## C15 -/

/-- per user: versions strictly increase with epochs over the union of database and log, epochs ≥ 1 -/
def DataWF (s : State) : Prop :=
  ∀ a b, a ∈ s.db ++ s.log → b ∈ s.db ++ s.log →
    (match a.key, b.key with
     | .vs u e, .vs u' e' => u = u' → (1 ≤ e ∧ (e < e' → a.version < b.version) ∧ (e = e' → a.version = b.version))
     | _, _ => True)

/-- the state a successful commit produces -/
def committed (s : State) : State :=
  { s with db := s.db.setAll (State.commitOrder s.log), log := [], active := false,
           canClean := if s.hasCache then true else s.canClean,
           cache := (s.cachePutAll (State.commitOrder s.log)).cache,
           cacheAzks := (s.cachePutAll (State.commitOrder s.log)).cacheAzks }

/-- `committed s` is the repaired write path applied to the cleared transaction -/
theorem committed_eq (s : State) :
    committed s =
      ({ ({ s with log := [], active := false,
                   canClean := if s.hasCache then true else s.canClean } : State) with
          db := s.db.setAll (State.commitOrder s.log) }).cachePutAll (State.commitOrder s.log) := by
  have := State.cachePutAll_frame s (s.db.setAll (State.commitOrder s.log)) [] false
    (if s.hasCache then true else s.canClean) (State.commitOrder s.log)
  rw [this]
  apply State.ext' <;> simp [committed]

theorem inv_committed {s : State} (h : Inv s) : Inv (committed s) := by
  rw [committed_eq]
  have h0 := h.frame [] false (if s.hasCache then true else s.canClean) List.Pairwise.nil (fun _ => rfl)
  exact h0.setAllPutAll _

@[simp] theorem committed_db (s : State) :
    (committed s).db = s.db.setAll (State.commitOrder s.log) := rfl
@[simp] theorem committed_active (s : State) : (committed s).active = false := rfl
@[simp] theorem committed_log (s : State) : (committed s).log = [] := rfl

/-- the database after the commit answers with the pending record if there is one -/
theorem truth_committed {s : State} (h : Inv s) (ha : s.active = true) (k : Key) :
    truth (committed s) k = truth s k := by
  unfold truth
  simp only [committed_active, Bool.false_eq_true, if_false, committed_db, ha, if_true]
  rw [Map.get?_setAll _ (State.KU_commitOrder h.logWF), State.get?_commitOrder]
  cases s.log.get? k <;> rfl

/-- `commit` hands the database exactly the pending records, the epoch record last -/
theorem commit_exact (s : State) (h : Inv s) (ha : s.active = true)
    (hz : ∃ r ∈ s.log, r.key = .azks) :
    (s.commit fixed false).1 = committed s ∧
    (State.commitOrder s.log).Perm s.log ∧ (∃ r, (State.commitOrder s.log).getLast? = some r ∧ r.key = .azks) := by
  have _ := h
  refine ⟨?_, State.commitOrder_perm _, State.commitOrder_getLast hz⟩
  obtain ⟨r, hr, hk⟩ := State.commitOrder_getLast hz
  have hne : (State.commitOrder s.log).isEmpty = false := by
    cases hl : State.commitOrder s.log with
    | nil => rw [hl] at hr; cases hr
    | cons x xs => rfl
  rw [committed_eq]
  unfold State.commit
  simp only [ha, hne, hr, hk, fixed, Bool.not_true, Bool.false_eq_true, if_false, ne_eq,
    not_true_eq_false]

theorem get_txn_eq_commit (s : State) (k : Key) (h : Inv s) (ha : s.active = true) :
    (s.get k false).2 = ((committed s).get k false).2 := by
  rw [get_eq_truth _ _ h, get_eq_truth _ _ (inv_committed h), truth_committed h ha]

/-- `DataWF`, read for one user -/
theorem DataWF.verMono {s : State} (hd : DataWF s) (u : Nat) :
    State.VerMono (State.userStates s.db u ++ State.userStates s.log u) := by
  have sub : ∀ a, a ∈ State.userStates s.db u ++ State.userStates s.log u →
      a ∈ s.db ++ s.log ∧ a.key = .vs u (State.epochOf a) := by
    intro a ha
    rcases List.mem_append.1 ha with ha | ha
    · exact ⟨List.mem_append_left _ (State.userStates_sub ha), State.userKeyed_userStates _ _ a ha⟩
    · exact ⟨List.mem_append_right _ (State.userStates_sub ha), State.userKeyed_userStates _ _ a ha⟩
  intro a ha b hb
  obtain ⟨ha', hka⟩ := sub a ha
  obtain ⟨hb', hkb⟩ := sub b hb
  have := hd a b ha' hb'
  rw [hka, hkb] at this
  exact (this rfl).2

/-- one user's value states after the commit: the database's, overwritten by the pending ones -/
theorem userStates_committed (s : State) (u : Nat) :
    State.userStates (committed s).db u
      = Map.setAll (State.userStates s.db u) (State.userStates s.log u) := by
  rw [committed_db, State.userStates_setAll, State.userStates_commitOrder]

theorem select_committed {s : State} (h : Inv s) (hd : DataWF s) (u : Nat) (f : Flag) :
    State.select (State.userStates (committed s).db u) f
      = State.pick f (State.select (State.userStates s.log u) f)
          (State.select (State.userStates s.db u) f) := by
  rw [userStates_committed]
  exact State.select_setAll (Map.KU_filter h.dbWF _) (Map.KU_filter h.logWF _)
    (State.userKeyed_userStates _ _) (State.userKeyed_userStates _ _) (hd.verMono u) f

theorem userState_txn_eq_commit (s : State) (u : Nat) (f : Flag) (h : Inv s) (hd : DataWF s)
    (ha : s.active = true) :
    (s.userState u f false).2 = ((committed s).userState u f false).2 := by
  rw [State.userState_obs_active s u f ha, State.userState_obs_idle _ u f (committed_active s),
    select_committed h hd]

/-- as sets; an absent user is the empty answer -/
theorem userData_txn_eq_commit (s : State) (u : Nat) (h : Inv s) (ha : s.active = true) :
    ∃ a b, (s.userData u false).2 = .recs a ∧ ((committed s).userData u false).2 = .recs b ∧ a.Perm b := by
  have _ := h
  refine ⟨Map.setAll (State.userStates s.db u) (State.userStates s.log u),
    State.userStates (committed s).db u, ?_, ?_, ?_⟩
  · simp [State.userData, ha]
  · simp [State.userData]
  · rw [userStates_committed]

theorem userVersions_txn_eq_commit (s : State) (us : List Nat) (f : Flag) (h : Inv s) (hd : DataWF s)
    (ha : s.active = true) :
    (s.userVersions fixed us f false).2 = ((committed s).userVersions fixed us f false).2 := by
  rw [State.userVersions_obs_active s us f ha, State.userVersions_obs_idle _ us f (committed_active s)]
  congr 2
  funext u
  rw [select_committed h hd, State.pickV_eq_pick (hd.verMono u)]

theorem rollback_discards (s : State) (ha : s.active = true) :
    (s.rollback).1.db = s.db ∧ (s.rollback).1.log = [] ∧ (s.rollback).1.active = false := by
  simp [State.rollback, ha]

theorem begin_refused (s : State) (ha : s.active = true) :
    (s.begin).2 = .bool false ∧ (s.begin).1.log = s.log ∧ (s.begin).1.db = s.db := by
  simp [State.begin, ha]

/-- the pinned commit mixes epoch and version in the bulk-versions merge (defect D7) -/
theorem versions_merge_witness :
    ∃ s us f, Inv s ∧ DataWF s ∧ s.active = true ∧
      (s.userVersions legacy us f false).2 ≠ ((committed s).userVersions legacy us f false).2 := by
  refine ⟨{ db := [⟨.vs 1 5, 1, 10⟩], log := [⟨.vs 1 7, 2, 20⟩], active := true }, [1], .maxEpoch,
    ?_, ?_, rfl, ?_⟩
  · constructor <;> simp [Map.WF, Map.get?]
  · intro a b ha hb
    simp only [List.cons_append, List.nil_append, List.mem_cons, List.not_mem_nil, or_false] at ha hb
    rcases ha with rfl | rfl <;> rcases hb with rfl | rfl <;> simp
  · decide

/-! ## C10 -/

def Quiescent (s : State) : Prop := s.active = false ∧ s.log = []

/-- the program does not write (the phase of `publish` before the transaction only reads) -/
def ReadOnly (ops : List IOp) : Prop := ∀ o ∈ ops, ∀ r, o ≠ .set r

/-- a commit that reports an error has written nothing and has closed the transaction -/
theorem commit_err {s : State} (h : Inv s) (f : Bool) (he : (s.commit fixed f).2 = .err) :
    (s.commit fixed f).1.db = s.db ∧ Quiescent (s.commit fixed f).1 := by
  revert he
  unfold State.commit
  split
  · rename_i ha
    intro _
    have ha : s.active = false := by simpa using ha
    exact ⟨rfl, ha, h.idle ha⟩
  · simp only []
    split
    · intro he; cases he
    · split
      · split
        · intro _; exact ⟨rfl, rfl, rfl⟩
        · simp only [fixed, Bool.false_eq_true, if_false]
          split
          · intro _; exact ⟨rfl, rfl, rfl⟩
          · intro he; cases he
      · intro he; cases he

theorem batchSet_active (p : Params) (s : State) (rs : List Rec) (f : Bool) (ha : s.active = true) :
    (s.batchSet p rs f).1.db = s.db ∧ (s.batchSet p rs f).1.active = true := by
  unfold State.batchSet
  split
  · exact ⟨rfl, ha⟩
  · simp [ha]

theorem rollback_idle {s : State} (ha : s.active = false) : (s.rollback).1 = s := by
  simp [State.rollback, ha]

theorem rollback_effect {s : State} (h : Inv s) :
    (s.rollback).1.db = s.db ∧ Quiescent (s.rollback).1 := by
  unfold State.rollback
  split
  · rename_i ha
    have ha : s.active = false := by simpa using ha
    exact ⟨rfl, ha, h.idle ha⟩
  · exact ⟨rfl, rfl, rfl⟩

/-- why `ReadOnly g.pre` is assumed below: `pre` runs outside the transaction, where the model's
`IOp.set` writes straight to the database; a later failure then cannot undo it.  (The real `pre`
phase, directory.rs:120-139, only reads.) -/
theorem publish_fail_needs_readOnly :
    ∃ s g k key, Inv s ∧ Quiescent s ∧ (publishIO fixed s g k).2 ≠ .ok ∧
      (publishIO fixed s g k).1.db ≠ s.db ∧
      ((publishIO fixed s g k).1.get key false).2 ≠ (s.get key false).2 := by
  refine ⟨{}, ⟨[.set ⟨.node 0, 0, 1⟩], [.get (.node 1)], [], .azks⟩, some 1, .node 0,
    inv_init true, ⟨rfl, rfl⟩, ?_, ?_, ?_⟩ <;> decide

/-- a publish that does not succeed — because any database step failed, for ANY insertion program —
leaves the database as it was, no transaction open, and the cache coherent.
Hypothesis `ReadOnly g.pre` added (see `publish_fail_needs_readOnly`). -/
theorem publish_fail_no_effect (s : State) (g : PublishProg) (k : Option Nat)
    (h : Inv s) (hq : Quiescent s) (hro : ReadOnly g.pre) (hs : (publishIO fixed s g k).2 ≠ .ok) :
    (publishIO fixed s g k).1.db = s.db ∧ Quiescent (publishIO fixed s g k).1 ∧ Inv (publishIO fixed s g k).1 := by
  -- the reads before the transaction
  have hpre := runIOps_preserves
    (fun s' => s'.db = s.db ∧ s'.active = false ∧ s'.log = [] ∧ Inv s') fixed k g.pre
    (by
      intro s' o f ho ⟨h1, h2, h3, h4⟩
      obtain ⟨e1, e2, e3⟩ := step_iop_read fixed s' o f (hro o ho)
      exact ⟨e1.trans h1, e2.trans h2, e3.trans h3, inv_step s' _ h4⟩)
    s 0 ⟨rfl, hq.1, hq.2, h⟩
  -- the insertion, inside the transaction
  have hins : ∀ s' n, (s'.db = s.db ∧ s'.active = true ∧ Inv s') →
      (fun s' => s'.db = s.db ∧ s'.active = true ∧ Inv s') (runIOps fixed k s' n g.ins).1 :=
    runIOps_preserves (fun s' => s'.db = s.db ∧ s'.active = true ∧ Inv s') fixed k g.ins
      (by
        intro s' o f _ ⟨h1, h2, h3⟩
        obtain ⟨e1, e2⟩ := step_iop_active fixed s' o f h2
        exact ⟨e1.trans h1, e2, inv_step s' _ h3⟩)
  generalize hout : publishIO fixed s g k = out at hs ⊢
  unfold publishIO at hout
  generalize runIOps fixed k s 0 g.pre = r1 at hpre hout
  obtain ⟨s1, n1, e1⟩ := r1
  obtain ⟨p1, p2, p3, p4⟩ := hpre
  simp only [] at p1 p2 p3 p4 hout
  by_cases he1 : e1 = true
  · rw [if_pos he1] at hout; subst hout; exact ⟨p1, ⟨p2, p3⟩, p4⟩
  rw [if_neg he1] at hout
  have hb : s1.begin.snd = Obs.bool true := by simp [State.begin, p2]
  rw [if_neg (fun hn => hn hb)] at hout
  have hI := hins s1.begin.fst n1 ⟨p1, rfl, inv_begin s1 p4⟩
  generalize runIOps fixed k s1.begin.fst n1 g.ins = r2 at hI hout
  obtain ⟨s2, n2, e2⟩ := r2
  obtain ⟨q1, q2, q3⟩ := hI
  simp only [] at q1 q2 q3 hout
  by_cases he2 : e2 = true
  · rw [if_pos he2] at hout; subst hout
    exact ⟨(rollback_effect q3).1.trans q1, (rollback_effect q3).2, inv_rollback _ q3⟩
  rw [if_neg he2] at hout
  -- the final records go to the log
  have hS := batchSet_active fixed s2 g.final false q2
  have hSi := inv_batchSet s2 g.final false q3
  generalize (State.batchSet fixed s2 g.final false).fst = s3 at hS hSi hout
  -- the root read
  have hG := step_iop_active fixed s3 (.get g.rootKey) (decide (k = some n2)) hS.2
  have hGi := inv_get s3 g.rootKey (decide (k = some n2)) hSi
  simp only [IOp.toOp, step] at hG
  generalize s3.get g.rootKey (decide (k = some n2)) = r4 at hG hGi hout
  obtain ⟨s4, o4⟩ := r4
  simp only [] at hG hGi hout
  by_cases he4 : o4 = Obs.err
  · rw [if_pos he4] at hout; subst hout
    exact ⟨(rollback_effect hGi).1.trans (hG.1.trans (hS.1.trans q1)), (rollback_effect hGi).2,
      inv_rollback _ hGi⟩
  rw [if_neg he4] at hout
  -- the commit
  have hCi := inv_commit s4 (decide (k = some (n2 + 1))) hGi
  by_cases he5 : (State.commit fixed s4 (decide (k = some (n2 + 1)))).snd = Obs.err
  · rw [if_pos he5] at hout; subst hout
    obtain ⟨c1, c2⟩ := commit_err hGi _ he5
    simp only []
    rw [rollback_idle c2.1]
    exact ⟨c1.trans (hG.1.trans (hS.1.trans q1)), c2, hCi⟩
  · rw [if_neg he5] at hout; subst hout
    exact absurd rfl hs

/-- hence every later read returns what it returned before the failed call
(`ReadOnly g.pre` as in `publish_fail_no_effect`) -/
theorem reads_after_failure (s : State) (g : PublishProg) (k : Option Nat) (key : Key)
    (h : Inv s) (hq : Quiescent s) (hro : ReadOnly g.pre) (hs : (publishIO fixed s g k).2 ≠ .ok) :
    ((publishIO fixed s g k).1.get key false).2 = (s.get key false).2 := by
  obtain ⟨h1, h2, h3⟩ := publish_fail_no_effect s g k h hq hro hs
  rw [get_eq_truth _ _ h3, get_eq_truth _ _ h]
  unfold truth
  rw [h1, h2.1, hq.1]
  simp only [Bool.false_eq_true, if_false]

/-- with the pinned ordering (cache filled before the write; root read after the commit) a failed
publish is visible (defects D3, D9) -/
theorem commit_fail_pollutes_cache :
    ∃ s g k, Inv s ∧ Quiescent s ∧ (publishIOLegacy legacy s g k).2 = .err ∧
      ((publishIOLegacy legacy s g k).1.get .azks false).2 ≠ (s.get .azks false).2 := by
  refine ⟨{ db := [⟨.azks, 0, 1⟩] }, ⟨[], [], [⟨.azks, 0, 2⟩], .azks⟩, some 0, ?_, ⟨rfl, rfl⟩, ?_, ?_⟩
  · constructor <;> simp [Map.WF, Map.get?]
  · decide
  · decide

theorem root_read_after_commit_witness :
    ∃ s g k, Inv s ∧ Quiescent s ∧ (publishIOLegacy fixed s g k).2 = .err ∧
      (publishIOLegacy fixed s g k).1.db ≠ s.db := by
  refine ⟨{}, ⟨[], [], [⟨.azks, 0, 1⟩], .node 0⟩, some 1, inv_init true, ⟨rfl, rfl⟩, ?_, ?_⟩
  · decide
  · decide

end Akd.Store
