/-
C16 — the object cache never changes what a read returns.
C15 — reads inside a storage transaction see pending writes exactly as after commit.
C10 — a publish that returns an error leaves the directory exactly as it was.
All three are theorems about the storage-manager state machine `Store.lean`
(`Store.fixed` = the code as repaired; `Store.legacy` = the pinned commit, for the witnesses).
-/
import AkdModel.Store
import AkdModel.PublishIO
import AkdModel.Lemmas.StoreLemmas
namespace Akd.Store

/-- keys are unique and records sit under their own key -/
def Map.WF (m : Map) : Prop := m.Pairwise (fun a b => a.key ≠ b.key)

/-- the cache only ever holds what the database holds -/
structure Inv (s : State) : Prop where
  dbWF : Map.WF s.db
  cacheWF : Map.WF s.cache
  logWF : Map.WF s.log
  cacheNoAzks : ∀ r ∈ s.cache, r.key ≠ .azks
  azksKey : ∀ r, s.cacheAzks = some r → r.key = .azks
  coherent : ∀ r ∈ s.cache, s.db.get? r.key = some r
  coherentAzks : ∀ r, s.cacheAzks = some r → s.db.get? .azks = some r
  noCache : s.hasCache = false → s.cache = [] ∧ s.cacheAzks = none
  idle : s.active = false → s.log = []

/-- what a read of `k` must return: the pending value inside a transaction, else the database's -/
def truth (s : State) (k : Key) : Option Rec :=
  match (if s.active then s.log.get? k else none) with
  | some r => some r
  | none => s.db.get? k

/-! ## C16 -/

/-- the invariant survives every operation: rejected writes, failing commits, evictions at any
time cleaning is enabled, flushes, transactions -/

/-- changing only the transaction fields keeps the invariant, provided `idle` is respected -/
theorem Inv.frame {s : State} (h : Inv s) (l : Map) (a c : Bool) (hl : Map.WF l)
    (hi : a = false → l = []) : Inv { s with log := l, active := a, canClean := c } :=
  { h with logWF := hl, idle := hi }

/-- a record the database holds may enter the cache -/
theorem Inv.cachePut {s : State} (h : Inv s) {r : Rec} (hr : s.db.get? r.key = some r) :
    Inv (s.cachePut r) := by
  unfold State.cachePut
  split
  · exact h
  · rename_i hc
    have hc : s.hasCache = true := by simpa using hc
    split
    · rename_i hk
      refine { h with azksKey := ?_, coherentAzks := ?_, noCache := ?_ }
      · intro r' e; cases e; exact hk
      · intro r' e; cases e; exact hk ▸ hr
      · intro e; simp [hc] at e
    · rename_i hk
      refine { h with cacheWF := Map.KU_set h.cacheWF r, cacheNoAzks := ?_, coherent := ?_, noCache := ?_ }
      · intro r' hr'
        rcases Map.mem_set hr' with rfl | hr'
        · exact hk
        · exact h.cacheNoAzks _ hr'
      · intro r' hr'
        rcases Map.mem_set hr' with rfl | hr'
        · exact hr
        · exact h.coherent _ hr'
      · intro e; simp [hc] at e

theorem Inv.cachePutAll {s : State} (h : Inv s) {rs : List Rec}
    (hr : ∀ r ∈ rs, s.db.get? r.key = some r) : Inv (s.cachePutAll rs) := by
  induction rs generalizing s with
  | nil => exact h
  | cons r rs ih =>
    rw [State.cachePutAll_cons]
    refine ih (h.cachePut (hr r List.mem_cons_self)) ?_
    intro r' hr'
    rw [State.cachePut_db]
    exact hr r' (List.mem_cons_of_mem _ hr')

/-- the write path of the repaired code: database first, then the cache -/
theorem Inv.setPut {s : State} (h : Inv s) (r : Rec) :
    Inv (({ s with db := s.db.set r }).cachePut r) := by
  unfold State.cachePut
  split
  · rename_i hc
    have hc : s.hasCache = false := by simpa using hc
    obtain ⟨h1, h2⟩ := h.noCache hc
    refine { h with dbWF := Map.KU_set h.dbWF r, coherent := ?_, coherentAzks := ?_ }
    · intro r' hr'; simp only [h1] at hr'; cases hr'
    · intro r' hr'; simp only [h2] at hr'; cases hr'
  · rename_i hc
    have hc : s.hasCache = true := by simpa using hc
    split
    · rename_i hk
      refine { h with dbWF := Map.KU_set h.dbWF r, azksKey := ?_, coherentAzks := ?_, noCache := ?_,
                      coherent := ?_ }
      · intro r' e; cases e; exact hk
      · intro r' e; cases e; exact hk ▸ Map.get?_set_same s.db r'
      · intro e; simp [hc] at e
      · intro r' hr'
        show (s.db.set r).get? r'.key = some r'
        rw [Map.get?_set_other _ _ (fun e => h.cacheNoAzks r' hr' (e ▸ hk))]
        exact h.coherent _ hr'
    · rename_i hk
      refine { h with dbWF := Map.KU_set h.dbWF r, cacheWF := Map.KU_set h.cacheWF r,
                      cacheNoAzks := ?_, coherent := ?_, coherentAzks := ?_, noCache := ?_ }
      · intro r' hr'
        rcases Map.mem_set hr' with rfl | hr'
        · exact hk
        · exact h.cacheNoAzks _ hr'
      · intro r' hr'
        show (s.db.set r).get? r'.key = some r'
        rcases (Map.mem_set_iff h.cacheWF).1 hr' with rfl | ⟨hm, hne⟩
        · exact Map.get?_set_same _ _
        · rw [Map.get?_set_other _ _ (Ne.symm hne)]
          exact h.coherent _ hm
      · intro r' hr'
        show (s.db.set r).get? Key.azks = some r'
        rw [Map.get?_set_other _ _ hk]
        exact h.coherentAzks _ hr'
      · intro e; simp [hc] at e

theorem Inv.setAllPutAll {s : State} (h : Inv s) (rs : List Rec) :
    Inv (({ s with db := s.db.setAll rs }).cachePutAll rs) := by
  rw [State.setAll_putAll_fold]
  induction rs generalizing s with
  | nil => exact h
  | cons r rs ih => exact ih (h.setPut r)

theorem inv_set (s : State) (r : Rec) (f : Bool) (h : Inv s) : Inv (s.set fixed r f).1 := by
  unfold State.set
  split
  · rename_i ha
    exact h.frame _ _ _ (Map.KU_set h.logWF r) (by simp [ha])
  · simp only [fixed, Bool.false_eq_true, if_false]
    split
    · exact h
    · exact h.setPut r

theorem inv_batchSet (s : State) (rs : List Rec) (f : Bool) (h : Inv s) :
    Inv (s.batchSet fixed rs f).1 := by
  unfold State.batchSet
  split
  · exact h
  · split
    · rename_i ha
      exact h.frame _ _ _ (Map.KU_setAll h.logWF rs) (by simp [ha])
    · simp only [fixed, Bool.false_eq_true, if_false]
      split
      · exact h
      · exact h.setAllPutAll rs

theorem inv_get (s : State) (k : Key) (f : Bool) (h : Inv s) : Inv (s.get k f).1 := by
  unfold State.get
  split
  · exact h
  · split
    · exact h
    · split
      · rename_i r hr
        exact h.cachePut (by rw [Map.get?_some_key hr]; exact hr)
      · exact h

theorem inv_getDirect (s : State) (k : Key) (f : Bool) (h : Inv s) : Inv (s.getDirect k f).1 := by
  unfold State.getDirect
  split <;> exact h

theorem inv_batchGet (s : State) (ks : List Key) (f : Bool) (h : Inv s) :
    Inv (s.batchGet ks f).1 := by
  unfold State.batchGet
  split
  · exact h
  · simp only []
    split
    · exact h
    · split
      · exact h
      · apply h.cachePutAll
        intro r hr
        obtain ⟨k, _, hk⟩ := List.mem_filterMap.1 hr
        rw [Map.get?_some_key hk]; exact hk

theorem inv_begin (s : State) (h : Inv s) : Inv (s.begin).1 :=
  h.frame _ _ _ h.logWF (by simp)

theorem inv_rollback (s : State) (h : Inv s) : Inv (s.rollback).1 := by
  unfold State.rollback
  split
  · exact h
  · exact h.frame _ _ _ List.Pairwise.nil (fun _ => rfl)

theorem inv_commit (s : State) (f : Bool) (h : Inv s) : Inv (s.commit fixed f).1 := by
  have h0 : Inv { s with log := [], active := false,
                         canClean := if s.hasCache then true else s.canClean } :=
    h.frame _ _ _ List.Pairwise.nil (fun _ => rfl)
  unfold State.commit
  split
  · exact h
  · simp only []
    split
    · exact h0
    · split
      · split
        · exact h0
        · simp only [fixed, Bool.false_eq_true, if_false]
          split
          · exact h0
          · exact h0.setAllPutAll _
      · exact h0

theorem inv_flush (s : State) (h : Inv s) : Inv (s.flush).1 :=
  { h with cacheWF := List.Pairwise.nil
           cacheNoAzks := by intro r hr; cases hr
           azksKey := by intro r e; cases e
           coherent := by intro r hr; cases hr
           coherentAzks := by intro r e; cases e
           noCache := fun _ => ⟨rfl, rfl⟩ }

theorem inv_evict (s : State) (ks : List Key) (h : Inv s) : Inv (s.evict ks).1 := by
  unfold State.evict
  split
  · refine { h with cacheWF := Map.KU_foldl_erase h.cacheWF ks, cacheNoAzks := ?_, coherent := ?_,
                    noCache := ?_ }
    · intro r hr; exact h.cacheNoAzks r (Map.mem_foldl_erase hr)
    · intro r hr; exact h.coherent r (Map.mem_foldl_erase hr)
    · intro e
      obtain ⟨h1, h2⟩ := h.noCache e
      refine ⟨?_, h2⟩
      show ks.foldl Map.erase s.cache = []
      rw [h1]
      clear h1
      induction ks with
      | nil => rfl
      | cons k ks ih => exact ih
  · exact h

theorem inv_userState (s : State) (u : Nat) (fl : Flag) (f : Bool) (h : Inv s) :
    Inv (s.userState u fl f).1 := by
  have key : ∀ d, State.select (State.userStates s.db u) fl = some d → Inv (s.cachePut d) := by
    intro d hd
    apply h.cachePut
    exact Map.get?_of_mem h.dbWF (State.userStates_sub (State.select_mem hd))
  unfold State.userState
  split
  · exact h
  · simp only []
    split
    · split
      · exact h
      · rename_i d _ hd _; exact key d hd
    · exact h
    · rename_i d _ hd; exact key d hd
    · exact h

theorem inv_userData (s : State) (u : Nat) (f : Bool) (h : Inv s) : Inv (s.userData u f).1 := by
  unfold State.userData
  split
  · exact h
  · split <;> exact h

theorem inv_userVersions (s : State) (us : List Nat) (fl : Flag) (f : Bool) (h : Inv s) :
    Inv (s.userVersions fixed us fl f).1 := by
  unfold State.userVersions
  split <;> exact h

theorem inv_tombstone (s : State) (u e : Nat) (f : Bool) (h : Inv s) :
    Inv (s.tombstone fixed u e f).1 := by
  unfold State.tombstone
  simp only []
  split
  · exact h
  · split
    · exact h
    · exact inv_batchSet _ _ _ h

theorem inv_step (s : State) (op : Op) (h : Inv s) : Inv (step fixed s op).1 := by
  cases op with
  | set r f => exact inv_set s r f h
  | batchSet rs f => exact inv_batchSet s rs f h
  | get k f => exact inv_get s k f h
  | getDirect k f => exact inv_getDirect s k f h
  | batchGet ks f => exact inv_batchGet s ks f h
  | begin => exact inv_begin s h
  | commit f => exact inv_commit s f h
  | rollback => exact inv_rollback s h
  | flush => exact inv_flush s h
  | evict ks => exact inv_evict s ks h
  | userState u fl f => exact inv_userState s u fl f h
  | userData u f => exact inv_userData s u f h
  | userVersions us fl f => exact inv_userVersions s us fl f h
  | tombstone u e f => exact inv_tombstone s u e f h

theorem inv_run (s : State) (ops : List Op) (h : Inv s) : Inv (run fixed s ops) := by
  unfold run
  induction ops generalizing s with
  | nil => exact h
  | cons o ops ih => exact ih _ (inv_step s o h)

theorem inv_init (hasCache : Bool) : Inv { hasCache := hasCache } :=
  { dbWF := List.Pairwise.nil, cacheWF := List.Pairwise.nil, logWF := List.Pairwise.nil
    cacheNoAzks := by intro r hr; cases hr
    azksKey := by intro r e; cases e
    coherent := by intro r hr; cases hr
    coherentAzks := by intro r e; cases e
    noCache := fun _ => ⟨rfl, rfl⟩
    idle := fun _ => rfl }

/-- every single read returns the truth -/
theorem get_eq_truth (s : State) (k : Key) (h : Inv s) : (s.get k false).2 = .one (truth s k) := by
  sorry

/-- every batched read returns the truth for each requested key that exists (as a set) -/
theorem batchGet_eq_truth (s : State) (ks : List Key) (h : Inv s) :
    ∃ rs, (s.batchGet ks false).2 = .recs rs ∧ ∀ r, r ∈ rs ↔ ∃ k ∈ ks, truth s k = some r := by
  sorry

/-- after a flush the next read of the epoch record reflects storage -/
theorem flush_then_epoch (s : State) (h : Inv s) :
    ((s.flush).1.get .azks false).2 = .one (truth s .azks) := by
  sorry

/-- the pinned commit breaks the invariant on a rejected write (defect D3) -/
theorem rejected_write_witness :
    ∃ s op, Inv s ∧ ¬ Inv (step legacy s op).1 ∧
      ((step legacy s op).1.get .azks false).2 ≠ .one (truth (step legacy s op).1 .azks) := by
  sorry

/-! ## C15 -/

/-- per user: versions strictly increase with epochs over the union of database and log, epochs ≥ 1 -/
def DataWF (s : State) : Prop :=
  ∀ a b, a ∈ s.db ++ s.log → b ∈ s.db ++ s.log →
    (match a.key, b.key with
     | .vs u e, .vs u' e' => u = u' → (1 ≤ e ∧ (e < e' → a.version < b.version) ∧ (e = e' → a.version = b.version))
     | _, _ => True)

/-- the state a successful commit produces -/
def committed (s : State) : State :=
  { s with db := s.db.setAll (State.commitOrder s.log), log := [], active := false,
           canClean := if s.hasCache then true else s.canClean,
           cache := (s.cachePutAll (State.commitOrder s.log)).cache,
           cacheAzks := (s.cachePutAll (State.commitOrder s.log)).cacheAzks }

/-- `commit` hands the database exactly the pending records, the epoch record last -/
theorem commit_exact (s : State) (h : Inv s) (ha : s.active = true)
    (hz : ∃ r ∈ s.log, r.key = .azks) :
    (s.commit fixed false).1 = committed s ∧
    (State.commitOrder s.log).Perm s.log ∧ (∃ r, (State.commitOrder s.log).getLast? = some r ∧ r.key = .azks) := by
  sorry

theorem get_txn_eq_commit (s : State) (k : Key) (h : Inv s) (ha : s.active = true) :
    (s.get k false).2 = ((committed s).get k false).2 := by
  sorry

theorem userState_txn_eq_commit (s : State) (u : Nat) (f : Flag) (h : Inv s) (hd : DataWF s)
    (ha : s.active = true) :
    (s.userState u f false).2 = ((committed s).userState u f false).2 := by
  sorry

/-- as sets; an absent user is the empty answer -/
theorem userData_txn_eq_commit (s : State) (u : Nat) (h : Inv s) (ha : s.active = true) :
    ∃ a b, (s.userData u false).2 = .recs a ∧ ((committed s).userData u false).2 = .recs b ∧ a.Perm b := by
  sorry

theorem userVersions_txn_eq_commit (s : State) (us : List Nat) (f : Flag) (h : Inv s) (hd : DataWF s)
    (ha : s.active = true) :
    (s.userVersions fixed us f false).2 = ((committed s).userVersions fixed us f false).2 := by
  sorry

theorem rollback_discards (s : State) (ha : s.active = true) :
    (s.rollback).1.db = s.db ∧ (s.rollback).1.log = [] ∧ (s.rollback).1.active = false := by
  sorry

theorem begin_refused (s : State) (ha : s.active = true) :
    (s.begin).2 = .bool false ∧ (s.begin).1.log = s.log ∧ (s.begin).1.db = s.db := by
  sorry

/-- the pinned commit mixes epoch and version in the bulk-versions merge (defect D7) -/
theorem versions_merge_witness :
    ∃ s us f, Inv s ∧ DataWF s ∧ s.active = true ∧
      (s.userVersions legacy us f false).2 ≠ ((committed s).userVersions legacy us f false).2 := by
  sorry

/-! ## C10 -/

def Quiescent (s : State) : Prop := s.active = false ∧ s.log = []

/-- a publish that does not succeed — because any database step failed, for ANY insertion program —
leaves the database as it was, no transaction open, and the cache coherent -/
theorem publish_fail_no_effect (s : State) (g : PublishProg) (k : Option Nat)
    (h : Inv s) (hq : Quiescent s) (hs : (publishIO fixed s g k).2 ≠ .ok) :
    (publishIO fixed s g k).1.db = s.db ∧ Quiescent (publishIO fixed s g k).1 ∧ Inv (publishIO fixed s g k).1 := by
  sorry

/-- hence every later read returns what it returned before the failed call -/
theorem reads_after_failure (s : State) (g : PublishProg) (k : Option Nat) (key : Key)
    (h : Inv s) (hq : Quiescent s) (hs : (publishIO fixed s g k).2 ≠ .ok) :
    ((publishIO fixed s g k).1.get key false).2 = (s.get key false).2 := by
  sorry

/-- with the pinned ordering (cache filled before the write; root read after the commit) a failed
publish is visible (defects D3, D9) -/
theorem commit_fail_pollutes_cache :
    ∃ s g k, Inv s ∧ Quiescent s ∧ (publishIOLegacy legacy s g k).2 = .err ∧
      ((publishIOLegacy legacy s g k).1.get .azks false).2 ≠ (s.get .azks false).2 := by
  sorry

theorem root_read_after_commit_witness :
    ∃ s g k, Inv s ∧ Quiescent s ∧ (publishIOLegacy fixed s g k).2 = .err ∧
      (publishIOLegacy fixed s g k).1.db ≠ s.db := by
  sorry

end Akd.Store
