/-
C01 (part b) — the batch-insertion ALGORITHM of the code (`Insert.lean`: label-keyed storage,
versioned records, the sorted/unsorted element-set representations, decompression, bottom-up
re-hashing, `last_epoch` / `min_descendant_epoch` bookkeeping) computes the CANONICAL trie
(`CTrie.lean`) with the right digests and epoch metadata.

`Repr` relates what is in storage to a canonical tree.  The theorem is for arbitrary trees and
arbitrary batches (any size, any shared prefixes, labels of any length ≤ 256 — so it covers the
directory (256-bit VRF labels) and the auditor (sub-trie roots of any depth) alike), under both
hashing configurations and both insertion modes.
-/
import AkdModel.CTrie
import AkdModel.Insert
import AkdModel.Thm.C17
import AkdModel.Thm.C01a
import AkdModel.Lemmas.InsertLemmas
namespace Akd.C01
open Akd

def hashMode : InsertMode → HashMode
  | .directory => .withLeafEpoch
  | .auditor => .noLeafEpoch

def CTree.maxEp : CTree → Nat
  | .leaf _ _ e => e
  | .node _ l r => max (CTree.maxEp l) (CTree.maxEp r)

def CTree.minEp : CTree → Nat
  | .leaf _ _ e => e
  | .node _ l r => min (CTree.minEp l) (CTree.minEp r)

/-- storage holds, under key `ofBits t.lbl`, a record whose latest version is the node `t`
(label, type, child pointers, stored hash, epoch metadata), and likewise for the whole sub-tree.
The `parent` field and the `previous` version are not constrained. -/
def Repr (c : Cfg) (m : InsertMode) (s : NodeStore) : CTree → Prop
  | .leaf q v e =>
    ∃ r, s.getRec (NodeLabel.ofBits q) = some r ∧ r.latest.label = NodeLabel.ofBits q ∧
      r.latest.nodeType = .leaf ∧ r.latest.left = none ∧ r.latest.right = none ∧
      r.latest.hash = v ∧ r.latest.lastEpoch = e ∧ r.latest.minDescEpoch = e
  | .node q l r' =>
    (∃ r, s.getRec (NodeLabel.ofBits q) = some r ∧ r.latest.label = NodeLabel.ofBits q ∧
      r.latest.nodeType = .interior ∧
      r.latest.left = some (NodeLabel.ofBits l.lbl) ∧ r.latest.right = some (NodeLabel.ofBits r'.lbl) ∧
      r.latest.hash = (CTree.node q l r').azks c (hashMode m) ∧
      r.latest.lastEpoch = CTree.maxEp (.node q l r') ∧ r.latest.minDescEpoch = CTree.minEp (.node q l r'))
    ∧ Repr c m s l ∧ Repr c m s r'

def optMax (a b : Option CTree) : Nat :=
  max ((a.map CTree.maxEp).getD 0) ((b.map CTree.maxEp).getD 0)

/-- the `0` sentinel of `set_child` (tree_node.rs:434-439) -/
def optMin (a b : Option CTree) : Nat :=
  match a, b with
  | none, none => 0
  | some x, none => CTree.minEp x
  | none, some y => CTree.minEp y
  | some x, some y => min (CTree.minEp x) (CTree.minEp y)

def ReprRoot (c : Cfg) (m : InsertMode) (s : NodeStore) (t : CRoot) : Prop :=
  (∃ r, s.getRec NodeLabel.root = some r ∧ r.latest.label = NodeLabel.root ∧ r.latest.nodeType = .root ∧
    r.latest.left = t.l.map (fun x => NodeLabel.ofBits x.lbl) ∧
    r.latest.right = t.r.map (fun x => NodeLabel.ofBits x.lbl) ∧
    r.latest.hash = t.value c (hashMode m) ∧
    r.latest.lastEpoch = optMax t.l t.r ∧ r.latest.minDescEpoch = optMin t.l t.r)
  ∧ (∀ a, t.l = some a → Repr c m s a) ∧ (∀ b, t.r = some b → Repr c m s b)

/-- the leaves a batch adds at epoch `ep` -/
def newLeaves (els : List (BitStr × Dig)) (ep : Nat) : List Leaf := els.map fun x => ⟨x.1, x.2, ep⟩

/-- the freshly created tree is represented (`Azks::new`) -/
theorem azksNew_repr (c : Cfg) (m : InsertMode) (s : NodeStore) :
    ∃ s', s.azksNew c = .ok (s', ⟨0, 1⟩) ∧ ReprRoot c m s' CRoot.empty := by
  sorry

/-- **the refinement theorem** -/
theorem batchInsert_refines (c : Cfg) (hc : c.emptyLabel.len = 0) (m : InsertMode)
    (s : NodeStore) (a : Azks) (t : CRoot)
    (hrep : ReprRoot c m s t) (hwf : t.WF)
    (hep : ∀ lf ∈ t.leaves, 1 ≤ lf.ep ∧ lf.ep ≤ a.latestEpoch)
    (els : List (BitStr × Dig))
    (hpf : PrefixFree (t.leaves ++ newLeaves els (a.latestEpoch + 1)))
    (hlen : ∀ lf ∈ t.leaves ++ newLeaves els (a.latestEpoch + 1), 1 ≤ lf.lbl.length ∧ lf.lbl.length ≤ 256) :
    ∃ s' n, s.batchInsert c m a (els.map fun x => (NodeLabel.ofBits x.1, x.2))
        = .ok (s', ⟨a.latestEpoch + 1, n⟩) ∧
      ReprRoot c m s' ((newLeaves els (a.latestEpoch + 1)).foldl CRoot.insert1 t) := by
  sorry

/-- both configurations satisfy the side condition -/
theorem emptyLabel_len (c : Cfg) (h : c = Cfg.whatsappV1 ∨ c = Cfg.experimental) : c.emptyLabel.len = 0 := by
  sorry

/-- corollary: the published root hash after the batch is the canonical one -/
theorem batchInsert_rootHash (c : Cfg) (hc : c.emptyLabel.len = 0)
    (s : NodeStore) (a : Azks) (t : CRoot)
    (hrep : ReprRoot c .directory s t) (hwf : t.WF)
    (hep : ∀ lf ∈ t.leaves, 1 ≤ lf.ep ∧ lf.ep ≤ a.latestEpoch)
    (els : List (BitStr × Dig))
    (hpf : PrefixFree (t.leaves ++ newLeaves els (a.latestEpoch + 1)))
    (hlen : ∀ lf ∈ t.leaves ++ newLeaves els (a.latestEpoch + 1), 1 ≤ lf.lbl.length ∧ lf.lbl.length ≤ 256) :
    ∃ s' a', s.batchInsert c .directory a (els.map fun x => (NodeLabel.ofBits x.1, x.2)) = .ok (s', a') ∧
      s'.rootHash c a' = .ok (((newLeaves els (a.latestEpoch + 1)).foldl CRoot.insert1 t).rootHash c) := by
  sorry

/-- corollary (C14): the order of the batch does not matter -/
theorem batchInsert_perm (c : Cfg) (hc : c.emptyLabel.len = 0) (m : InsertMode)
    (s : NodeStore) (a : Azks) (t : CRoot)
    (hrep : ReprRoot c m s t) (hwf : t.WF)
    (hep : ∀ lf ∈ t.leaves, 1 ≤ lf.ep ∧ lf.ep ≤ a.latestEpoch)
    (els els' : List (BitStr × Dig)) (hperm : els.Perm els')
    (hpf : PrefixFree (t.leaves ++ newLeaves els (a.latestEpoch + 1)))
    (hlen : ∀ lf ∈ t.leaves ++ newLeaves els (a.latestEpoch + 1), 1 ≤ lf.lbl.length ∧ lf.lbl.length ≤ 256) :
    ∃ s₁ s₂ a₁ a₂,
      s.batchInsert c m a (els.map fun x => (NodeLabel.ofBits x.1, x.2)) = .ok (s₁, a₁) ∧
      s.batchInsert c m a (els'.map fun x => (NodeLabel.ofBits x.1, x.2)) = .ok (s₂, a₂) ∧
      s₁.rootHash c a₁ = s₂.rootHash c a₂ ∧ a₁.latestEpoch = a₂.latestEpoch := by
  sorry

end Akd.C01
