/-
C01 (part b) — the batch-insertion ALGORITHM of the code (`Insert.lean`: label-keyed storage,
versioned records, the sorted/unsorted element-set representations, decompression, bottom-up
re-hashing, `last_epoch` / `min_descendant_epoch` bookkeeping) computes the CANONICAL trie
(`CTrie.lean`) with the right digests and epoch metadata.

`Repr` relates what is in storage to a canonical tree.  The theorem is for arbitrary trees and
arbitrary batches (any size, any shared prefixes, labels of any length ≤ 256 — so it covers the
directory (256-bit VRF labels) and the auditor (sub-trie roots of any depth) alike), under both
hashing configurations and both insertion modes.
-/
import AkdModel.CTrie
import AkdModel.Insert
import AkdModel.Thm.C17
import AkdModel.Thm.C01a
import AkdModel.Lemmas.InsertLemmas
namespace Akd.C01
open Akd

def hashMode : InsertMode → HashMode
  | .directory => .withLeafEpoch
  | .auditor => .noLeafEpoch

def CTree.maxEp : CTree → Nat
  | .leaf _ _ e => e
  | .node _ l r => max (CTree.maxEp l) (CTree.maxEp r)

def CTree.minEp : CTree → Nat
  | .leaf _ _ e => e
  | .node _ l r => min (CTree.minEp l) (CTree.minEp r)

/-- storage holds, under key `ofBits t.lbl`, a record whose latest version is the node `t`
(label, type, child pointers, stored hash, epoch metadata), and likewise for the whole sub-tree.
The `parent` field and the `previous` version are not constrained. -/
def Repr (c : Cfg) (m : InsertMode) (s : NodeStore) : CTree → Prop
  | .leaf q v e =>
    ∃ r, s.getRec (NodeLabel.ofBits q) = some r ∧ r.latest.label = NodeLabel.ofBits q ∧
      r.latest.nodeType = .leaf ∧ r.latest.left = none ∧ r.latest.right = none ∧
      r.latest.hash = v ∧ r.latest.lastEpoch = e ∧ r.latest.minDescEpoch = e
  | .node q l r' =>
    (∃ r, s.getRec (NodeLabel.ofBits q) = some r ∧ r.latest.label = NodeLabel.ofBits q ∧
      r.latest.nodeType = .interior ∧
      r.latest.left = some (NodeLabel.ofBits l.lbl) ∧ r.latest.right = some (NodeLabel.ofBits r'.lbl) ∧
      r.latest.hash = (CTree.node q l r').azks c (hashMode m) ∧
      r.latest.lastEpoch = CTree.maxEp (.node q l r') ∧ r.latest.minDescEpoch = CTree.minEp (.node q l r'))
    ∧ Repr c m s l ∧ Repr c m s r'

def optMax (a b : Option CTree) : Nat :=
  max ((a.map CTree.maxEp).getD 0) ((b.map CTree.maxEp).getD 0)

/-- the `0` sentinel of `set_child` (tree_node.rs:434-439) -/
def optMin (a b : Option CTree) : Nat :=
  match a, b with
  | none, none => 0
  | some x, none => CTree.minEp x
  | none, some y => CTree.minEp y
  | some x, some y => min (CTree.minEp x) (CTree.minEp y)

def ReprRoot (c : Cfg) (m : InsertMode) (s : NodeStore) (t : CRoot) : Prop :=
  (∃ r, s.getRec NodeLabel.root = some r ∧ r.latest.label = NodeLabel.root ∧ r.latest.nodeType = .root ∧
    r.latest.left = t.l.map (fun x => NodeLabel.ofBits x.lbl) ∧
    r.latest.right = t.r.map (fun x => NodeLabel.ofBits x.lbl) ∧
    r.latest.hash = t.value c (hashMode m) ∧
    r.latest.lastEpoch = optMax t.l t.r ∧ r.latest.minDescEpoch = optMin t.l t.r)
  ∧ (∀ a, t.l = some a → Repr c m s a) ∧ (∀ b, t.r = some b → Repr c m s b)

/-- the leaves a batch adds at epoch `ep` -/
def newLeaves (els : List (BitStr × Dig)) (ep : Nat) : List Leaf := els.map fun x => ⟨x.1, x.2, ep⟩

/-! ### bridge to the definitions used by the lemma files (`Lemmas/Insert*.lean`) -/

theorem hashMode_eq (m : InsertMode) : hashMode m = Ins.hm m := by cases m <;> rfl

theorem maxEp_eq : ∀ t : CTree, CTree.maxEp t = Ins.maxEp t
  | .leaf _ _ _ => rfl
  | .node _ l r => by simp only [CTree.maxEp, Ins.maxEp, maxEp_eq l, maxEp_eq r]

theorem minEp_eq : ∀ t : CTree, CTree.minEp t = Ins.minEp t
  | .leaf _ _ _ => rfl
  | .node _ l r => by simp only [CTree.minEp, Ins.minEp, minEp_eq l, minEp_eq r]

theorem repr_iff (c : Cfg) (m : InsertMode) (s : NodeStore) : ∀ t : CTree, Repr c m s t ↔ Ins.Rep c m s t
  | .leaf _ _ _ => Iff.rfl
  | .node q l r => by
    simp only [Repr, Ins.Rep, Ins.NodeIs, repr_iff c m s l, repr_iff c m s r, hashMode_eq, maxEp_eq, minEp_eq]

theorem optMax_eq (a b : Option CTree) : optMax a b = Ins.oMax a b := by
  cases a <;> cases b <;> simp [optMax, Ins.oMax, maxEp_eq]

theorem optMin_eq (a b : Option CTree) : optMin a b = Ins.oMin a b := by
  cases a <;> cases b <;> simp [optMin, Ins.oMin, minEp_eq]

theorem reprRoot_iff (c : Cfg) (m : InsertMode) (s : NodeStore) (t : CRoot) :
    ReprRoot c m s t ↔ Ins.RepRoot c m s t := by
  simp only [ReprRoot, Ins.RepRoot, repr_iff, hashMode_eq, optMax_eq, optMin_eq, Ins.olbl]

theorem newLeaves_eq (els : List (BitStr × Dig)) (ep : Nat) : newLeaves els ep = Ins.newLeaves els ep := rfl

/-- the root record resolves to its latest version, whose hash is the root value -/
theorem rootHash_of_reprRoot (c : Cfg) (m : InsertMode) (s : NodeStore) (t : CRoot) (ep n : Nat)
    (h : ReprRoot c m s t) (hle : ∀ lf ∈ t.leaves, lf.ep ≤ ep) :
    s.rootHash c ⟨ep, n⟩ = .ok (c.rootHash (t.value c (hashMode m))) := by
  obtain ⟨⟨r, hg, _, _, _, _, hh, hl, _⟩, _, _⟩ := h
  unfold NodeStore.rootHash
  rw [Ins.getNode_latest s _ r ep hg (by rw [hl, optMax_eq]; exact Ins.oMax_le _ _ _ hle)]
  simp only [hh]

/-- the freshly created tree is represented (`Azks::new`) -/
theorem azksNew_repr (c : Cfg) (m : InsertMode) (s : NodeStore) :
    ∃ s', s.azksNew c = .ok (s', ⟨0, 1⟩) ∧ ReprRoot c m s' CRoot.empty := by
  refine ⟨s.setRec ⟨NodeLabel.root, TreeNode.newRoot c, none⟩, rfl,
    ⟨⟨⟨NodeLabel.root, TreeNode.newRoot c, none⟩, ?_, rfl, rfl, rfl, rfl, rfl, rfl, rfl⟩, ?_, ?_⟩⟩
  · exact Ins.getRec_setRec_self s ⟨NodeLabel.root, TreeNode.newRoot c, none⟩
  · intro a h; simp [CRoot.empty] at h
  · intro a h; simp [CRoot.empty] at h

/-- the result of the fold: well-formed, with the old and the new leaves -/
theorem foldl_insert1_spec (t : CRoot) (hwf : t.WF) (els : List (BitStr × Dig)) (ep : Nat)
    (hpf : PrefixFree (t.leaves ++ newLeaves els ep))
    (hlen : ∀ lf ∈ t.leaves ++ newLeaves els ep, 1 ≤ lf.lbl.length ∧ lf.lbl.length ≤ 256) :
    ((newLeaves els ep).foldl CRoot.insert1 t).WF ∧
      ((newLeaves els ep).foldl CRoot.insert1 t).leaves.Perm (t.leaves ++ newLeaves els ep) :=
  Canon.Root.foldl_insert1_spec (newLeaves els ep) t hwf hpf (fun x hx h => by
    have := (hlen x (List.mem_append_right _ hx)).1
    rw [h] at this
    simp at this)

/-- **the refinement theorem** -/
theorem batchInsert_refines (c : Cfg) (hc : c.emptyLabel.len = 0) (m : InsertMode)
    (s : NodeStore) (a : Azks) (t : CRoot)
    (hrep : ReprRoot c m s t) (hwf : t.WF)
    (hep : ∀ lf ∈ t.leaves, 1 ≤ lf.ep ∧ lf.ep ≤ a.latestEpoch)
    (els : List (BitStr × Dig))
    (hpf : PrefixFree (t.leaves ++ newLeaves els (a.latestEpoch + 1)))
    (hlen : ∀ lf ∈ t.leaves ++ newLeaves els (a.latestEpoch + 1), 1 ≤ lf.lbl.length ∧ lf.lbl.length ≤ 256) :
    ∃ s' n, s.batchInsert c m a (els.map fun x => (NodeLabel.ofBits x.1, x.2))
        = .ok (s', ⟨a.latestEpoch + 1, n⟩) ∧
      ReprRoot c m s' ((newLeaves els (a.latestEpoch + 1)).foldl CRoot.insert1 t) := by
  obtain ⟨s', n, t', hrun, hrep', hwf', hperm⟩ :=
    Ins.batchInsert_root c hc m s a t ((reprRoot_iff c m s t).1 hrep) hwf hep els hpf hlen
  obtain ⟨fw, fp⟩ := foldl_insert1_spec t hwf els _ hpf hlen
  have heq : t' = (newLeaves els (a.latestEpoch + 1)).foldl CRoot.insert1 t :=
    wf_unique _ _ hwf' fw (hperm.trans fp.symm)
  exact ⟨s', n, hrun, heq ▸ (reprRoot_iff c m s' t').2 hrep'⟩

/-- both configurations satisfy the side condition -/
theorem emptyLabel_len (c : Cfg) (h : c = Cfg.whatsappV1 ∨ c = Cfg.experimental) : c.emptyLabel.len = 0 := by
  rcases h with rfl | rfl <;> rfl

/-- the epochs of the leaves after the batch -/
theorem foldl_ep_le (t : CRoot) (hwf : t.WF) (a : Azks)
    (hep : ∀ lf ∈ t.leaves, 1 ≤ lf.ep ∧ lf.ep ≤ a.latestEpoch)
    (els : List (BitStr × Dig))
    (hpf : PrefixFree (t.leaves ++ newLeaves els (a.latestEpoch + 1)))
    (hlen : ∀ lf ∈ t.leaves ++ newLeaves els (a.latestEpoch + 1), 1 ≤ lf.lbl.length ∧ lf.lbl.length ≤ 256) :
    ∀ lf ∈ ((newLeaves els (a.latestEpoch + 1)).foldl CRoot.insert1 t).leaves, lf.ep ≤ a.latestEpoch + 1 := by
  intro lf h
  rcases List.mem_append.1 ((foldl_insert1_spec t hwf els _ hpf hlen).2.mem_iff.1 h) with h | h
  · have := (hep lf h).2; omega
  · obtain ⟨b, _, rfl⟩ := List.mem_map.1 h
    exact Nat.le_refl _

/-- corollary: the published root hash after the batch is the canonical one -/
theorem batchInsert_rootHash (c : Cfg) (hc : c.emptyLabel.len = 0)
    (s : NodeStore) (a : Azks) (t : CRoot)
    (hrep : ReprRoot c .directory s t) (hwf : t.WF)
    (hep : ∀ lf ∈ t.leaves, 1 ≤ lf.ep ∧ lf.ep ≤ a.latestEpoch)
    (els : List (BitStr × Dig))
    (hpf : PrefixFree (t.leaves ++ newLeaves els (a.latestEpoch + 1)))
    (hlen : ∀ lf ∈ t.leaves ++ newLeaves els (a.latestEpoch + 1), 1 ≤ lf.lbl.length ∧ lf.lbl.length ≤ 256) :
    ∃ s' a', s.batchInsert c .directory a (els.map fun x => (NodeLabel.ofBits x.1, x.2)) = .ok (s', a') ∧
      s'.rootHash c a' = .ok (((newLeaves els (a.latestEpoch + 1)).foldl CRoot.insert1 t).rootHash c) := by
  obtain ⟨s', n, hrun, hrep'⟩ := batchInsert_refines c hc .directory s a t hrep hwf hep els hpf hlen
  exact ⟨s', _, hrun, rootHash_of_reprRoot c .directory s' _ _ n hrep' (foldl_ep_le t hwf a hep els hpf hlen)⟩

/-- corollary (C14): the order of the batch does not matter -/
theorem batchInsert_perm (c : Cfg) (hc : c.emptyLabel.len = 0) (m : InsertMode)
    (s : NodeStore) (a : Azks) (t : CRoot)
    (hrep : ReprRoot c m s t) (hwf : t.WF)
    (hep : ∀ lf ∈ t.leaves, 1 ≤ lf.ep ∧ lf.ep ≤ a.latestEpoch)
    (els els' : List (BitStr × Dig)) (hperm : els.Perm els')
    (hpf : PrefixFree (t.leaves ++ newLeaves els (a.latestEpoch + 1)))
    (hlen : ∀ lf ∈ t.leaves ++ newLeaves els (a.latestEpoch + 1), 1 ≤ lf.lbl.length ∧ lf.lbl.length ≤ 256) :
    ∃ s₁ s₂ a₁ a₂,
      s.batchInsert c m a (els.map fun x => (NodeLabel.ofBits x.1, x.2)) = .ok (s₁, a₁) ∧
      s.batchInsert c m a (els'.map fun x => (NodeLabel.ofBits x.1, x.2)) = .ok (s₂, a₂) ∧
      s₁.rootHash c a₁ = s₂.rootHash c a₂ ∧ a₁.latestEpoch = a₂.latestEpoch := by
  have hpl : (t.leaves ++ newLeaves els (a.latestEpoch + 1)).Perm (t.leaves ++ newLeaves els' (a.latestEpoch + 1)) :=
    List.Perm.append_left _ (hperm.map _)
  have hpf' : PrefixFree (t.leaves ++ newLeaves els' (a.latestEpoch + 1)) :=
    (hpl.pairwise_iff Canon.Incomp.symm).1 hpf
  have hlen' : ∀ lf ∈ t.leaves ++ newLeaves els' (a.latestEpoch + 1), 1 ≤ lf.lbl.length ∧ lf.lbl.length ≤ 256 :=
    fun lf h => hlen lf (hpl.mem_iff.2 h)
  obtain ⟨s₁, n₁, hrun₁, hrep₁⟩ := batchInsert_refines c hc m s a t hrep hwf hep els hpf hlen
  obtain ⟨s₂, n₂, hrun₂, hrep₂⟩ := batchInsert_refines c hc m s a t hrep hwf hep els' hpf' hlen'
  obtain ⟨w₁, p₁⟩ := foldl_insert1_spec t hwf els _ hpf hlen
  obtain ⟨w₂, p₂⟩ := foldl_insert1_spec t hwf els' _ hpf' hlen'
  have heq : (newLeaves els (a.latestEpoch + 1)).foldl CRoot.insert1 t
      = (newLeaves els' (a.latestEpoch + 1)).foldl CRoot.insert1 t :=
    wf_unique _ _ w₁ w₂ ((p₁.trans hpl).trans p₂.symm)
  refine ⟨s₁, s₂, _, _, hrun₁, hrun₂, ?_, rfl⟩
  rw [rootHash_of_reprRoot c m s₁ _ _ n₁ hrep₁ (foldl_ep_le t hwf a hep els hpf hlen),
    rootHash_of_reprRoot c m s₂ _ _ n₂ hrep₂ (foldl_ep_le t hwf a hep els' hpf' hlen'), heq]

/-! non-vacuity: a first batch (labels of different lengths) into the freshly created tree -/
example (c : Cfg) (hc : c.emptyLabel.len = 0) (m : InsertMode) (s : NodeStore) :
    ∃ s₀ s' n, s.azksNew c = .ok (s₀, ⟨0, 1⟩) ∧
      s₀.batchInsert c m ⟨0, 1⟩ ([([false, true], Dig.raw [1]), ([true], Dig.raw [2])].map
        fun x => (NodeLabel.ofBits x.1, x.2)) = .ok (s', ⟨1, n⟩) ∧
      ReprRoot c m s' (CRoot.ofLeaves [⟨[false, true], .raw [1], 1⟩, ⟨[true], .raw [2], 1⟩]) := by
  obtain ⟨s₀, h0, hr0⟩ := azksNew_repr c m s
  obtain ⟨s', n, h1, hr1⟩ := batchInsert_refines c hc m s₀ ⟨0, 1⟩ CRoot.empty hr0 Canon.Root.empty_wf
    (by simp [CRoot.empty, CRoot.leaves]) [([false, true], Dig.raw [1]), ([true], Dig.raw [2])]
    (by simp [PrefixFree, CRoot.empty, CRoot.leaves, newLeaves])
    (by simp [CRoot.empty, CRoot.leaves, newLeaves])
  exact ⟨s₀, s', n, h0, h1, hr1⟩

end Akd.C01
