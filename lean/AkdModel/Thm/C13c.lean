/-
C13, request level — "served by an instance whose view has fallen behind storage by any number of epochs — returns
either an error or an (epoch, root hash) pair the directory really published together with a proof that verifies
against that pair".

A lagging instance reads the CURRENT node store as of ITS OWN epoch `e`.  What it sees under each key is what the
store held at epoch `e`, or "not found" (`Thm/C13.lean`, record level: `snapshot_read`).  `ViewLe` states that for
two stores; `reads_le` lifts it to the requests: every proof generator either returns exactly what it returned at
epoch `e`, or fails.  This needs the child read of the proof generators to FAIL when a named child cannot be read
(`getChildForProof`, fix D13): with the pinned rule (`getChild`: "not found" = "no child") a lagging instance returns
proofs that do not verify — `legacy_lag_witness`, the defect the partially-warm lagging readers of the correspondence
run found on the real code.
-/
import AkdModel.Thm.C11b
import AkdModel.Lemmas.LagRequests
namespace Akd.C13
open Akd C01 C11

/-- the later store `s'` shows, as of epoch `e`, what `s` shows, or nothing -/
def ViewLe (s s' : NodeStore) (e : Nat) : Prop :=
  ∀ k, readAt s' e k = readAt s e k ∨ readAt s' e k = .error .notFound

theorem ViewLe.refl (s : NodeStore) (e : Nat) : ViewLe s s e := fun _ => .inl rfl

theorem ViewLe.trans {s1 s2 s3 : NodeStore} {e : Nat} (h12 : ViewLe s1 s2 e) (h23 : ViewLe s2 s3 e) :
    ViewLe s1 s3 e := by
  intro k
  rcases h23 k with h | h
  · rw [h]; exact h12 k
  · exact .inr h

/-- **the generators on a lagging view**: the same answer as at epoch `e`, or an error — never another answer -/
theorem reads_le (c : Cfg) (s s' : NodeStore) (a : Azks) (hle : ViewLe s s' a.latestEpoch) :
    (s'.rootHash c a = s.rootHash c a ∨ ∃ x, s'.rootHash c a = .error x) ∧
    (∀ l, s'.membershipProof c a l = s.membershipProof c a l ∨ ∃ x, s'.membershipProof c a l = .error x) ∧
    (∀ l, s'.nonMembershipProof c a l = s.nonMembershipProof c a l ∨ ∃ x, s'.nonMembershipProof c a l = .error x) := by
  have h : Lag.VLe s s' a.latestEpoch := hle
  exact ⟨Lag.rootHash_le c a h, Lag.membershipProof_le c a h, Lag.nonMembershipProof_le c a h⟩

theorem audit_le (c : Cfg) (s s' : NodeStore) (a : Azks) (hle : ViewLe s s' a.latestEpoch) (s0 e0 : Nat) :
    s'.appendOnlyProof c a s0 e0 = s.appendOnlyProof c a s0 e0 ∨ ∃ x, s'.appendOnlyProof c a s0 e0 = .error x := by
  have h : Lag.VLe s s' a.latestEpoch := hle
  exact Lag.appendOnlyProof_le c a h s0 e0

/-- **one publish later**: after a complete commit of a further epoch, the store shows as of ANY earlier epoch `e` what
it showed before, or nothing -/
theorem viewLe_publish (c : Cfg) (hc : c.emptyLabel.len = 0)
    (s : NodeStore) (a : Azks) (t : CRoot)
    (hidle : s.inTxn = false ∧ s.log = [])
    (hrep : ReprRoot c .directory s t) (hwf : t.WF)
    (hat : AtEpoch s.db a.latestEpoch) (hkeyed : WellKeyed s.db)
    (hdom : ∀ k, (s.db.get? k).isSome → k ∈ nodeKeys t)
    (hep : ∀ lf ∈ t.leaves, 1 ≤ lf.ep ∧ lf.ep ≤ a.latestEpoch)
    (els : List (BitStr × Dig))
    (hpf : PrefixFree (t.leaves ++ newLeaves els (a.latestEpoch + 1)))
    (hlen : ∀ lf ∈ t.leaves ++ newLeaves els (a.latestEpoch + 1), 1 ≤ lf.lbl.length ∧ lf.lbl.length ≤ 256)
    (s' : NodeStore) (a' : Azks)
    (hins : s.begin.batchInsert c .directory a (els.map fun x => (NodeLabel.ofBits x.1, x.2)) = .ok (s', a'))
    (e : Nat) (he : e ≤ a.latestEpoch) :
    ViewLe s s'.commit e :=
  Lag.vle_publish c hc s a t hidle hrep hwf hat hkeyed hdom hep els hpf hlen s' a' hins e he

/-- **request level**: an instance that still holds the epoch record of `d` (epoch `e`) while the node store and the
value states have moved on (`ViewLe`; every added state is of a later epoch) answers the epoch hash and every lookup,
key-history and audit request exactly as `d` did, or with an error -/
theorem lagging_requests (c : Cfg) (d dlag : Dir) (a : Azks)
    (hazks : d.azks = some a) (hazks' : dlag.azks = some a)
    (hvrf : dlag.vrf = d.vrf) (hkey : dlag.commitmentKey = d.commitmentKey)
    (hle : ViewLe d.nodes dlag.nodes a.latestEpoch)
    (hstates : ∀ x ∈ d.states, x.epoch ≤ a.latestEpoch)
    (extra : List ValueState) (hextra : ∀ x ∈ extra, a.latestEpoch < x.epoch)
    (hst : dlag.states = d.states ++ extra) :
    (dlag.epochHash c = d.epochHash c ∨ ∃ x, dlag.epochHash c = .error x) ∧
    (∀ u, dlag.lookup c u = d.lookup c u ∨ ∃ x, dlag.lookup c u = .error x) ∧
    (∀ u p, dlag.keyHistory c u p = d.keyHistory c u p ∨ ∃ x, dlag.keyHistory c u p = .error x) ∧
    (∀ s0 e0, dlag.audit c s0 e0 = d.audit c s0 e0 ∨ ∃ x, dlag.audit c s0 e0 = .error x) := by
  have _ := hstates  -- not needed: the states of `d` are never compared with the epoch
  have h : Lag.VLe d.nodes dlag.nodes a.latestEpoch := hle
  obtain ⟨nodes, azks, states, vrf, ck⟩ := d
  obtain ⟨ns, azks', states', vrf', ck'⟩ := dlag
  simp only at hazks hazks' hvrf hkey hst h
  subst hazks hazks' hvrf hkey hst
  exact Lag.requests_le c nodes ns a states extra vrf' ck' h hextra

/-- defect D13 (pinned code): with the child read of `get_child_node` ("not found" = "no child") in the proof
generators, a lagging view does NOT give "the same or an error": here the membership walk for the label `1…` stops at
the root because the right child cannot be read as of epoch 1, and returns a proof for the ROOT's label -/
theorem legacy_lag_witness :
    ∃ (c : Cfg) (s s' : NodeStore) (e : Nat) (root child : TreeNode),
      ViewLe s s' e ∧
      s.getNode NodeLabel.root e = .ok root ∧ root.right = some child.label ∧
      s.getNode child.label e = .ok child ∧ s'.getNode child.label e = .error .notFound ∧
      s'.getChild root .right e = .ok none ∧            -- pinned rule: an absent child
      s'.getChildForProof root .right e = .error .notFound := by   -- repaired rule: an error
  exact ⟨Cfg.whatsappV1, Lag.exS, Lag.exS', 1, Lag.exRoot, Lag.exCh 1, Lag.ex_vle, Lag.ex_root, rfl, Lag.ex_child,
    Lag.ex_child', Lag.ex_getChild, Lag.ex_getChildForProof⟩

end Akd.C13
