/-
C11 — a reader of a partially written commit still sees the previous epoch intact.

`s` is storage consistent at epoch `e` (it represents the trie `t`, every record is of an epoch
`≤ e`, no transaction open).  A publish inserts a batch at epoch `e+1` inside a transaction; the
commit writes the transaction log's records to the database with the directory's epoch record
LAST.  For ANY sub-collection `W` of those node records that has reached the database (any prefix of
any order, any subset), every node that existed before reads — as of epoch `e` — exactly as it did
before (modulo the `parent` field, which no proof reads); once everything is written the new tree is
there.
-/
import AkdModel.Insert
import AkdModel.Thm.C01b
import AkdModel.Thm.C13
import AkdModel.Lemmas.PartialLemmas
namespace Akd.C11
open Akd C01

/-- what a reader targeting epoch `e` sees under key `k` -/
def viewAt (m : NodeMap) (e : Nat) (k : NodeLabel) : Option TreeNode :=
  match m.get? k with
  | some r => match r.resolve e with
    | .ok n => some (C13.eraseParent n)
    | .error _ => none
  | none => none

/-- the database after the records `W` (some of the commit's node records) have been written -/
def applyWrites (db : NodeMap) (W : List NodeRec) : NodeMap := W.foldl NodeMap.set db

/-- every record in the database is of an epoch `≤ e` -/
def AtEpoch (db : NodeMap) (e : Nat) : Prop := ∀ k r, db.get? k = some r → r.latest.lastEpoch ≤ e

/-- **partial commits are invisible at the previous epoch** -/
theorem partial_commit_invisible (c : Cfg) (hc : c.emptyLabel.len = 0)
    (s : NodeStore) (a : Azks) (t : CRoot)
    (hidle : s.inTxn = false ∧ s.log = [])
    (hrep : ReprRoot c .directory s t) (hwf : t.WF)
    (hat : AtEpoch s.db a.latestEpoch)
    (hep : ∀ lf ∈ t.leaves, 1 ≤ lf.ep ∧ lf.ep ≤ a.latestEpoch)
    (els : List (BitStr × Dig))
    (hpf : PrefixFree (t.leaves ++ newLeaves els (a.latestEpoch + 1)))
    (hlen : ∀ lf ∈ t.leaves ++ newLeaves els (a.latestEpoch + 1), 1 ≤ lf.lbl.length ∧ lf.lbl.length ≤ 256)
    (s' : NodeStore) (a' : Azks)
    (hins : s.begin.batchInsert c .directory a (els.map fun x => (NodeLabel.ofBits x.1, x.2)) = .ok (s', a'))
    (W : List NodeRec) (hW : ∀ r ∈ W, ∃ k, s'.log.get? k = some r) :
    ∀ k, (s.db.get? k).isSome →
      viewAt (applyWrites s.db W) a.latestEpoch k = viewAt s.db a.latestEpoch k := by
  sorry

/-- the database itself is not touched before the commit -/
theorem insert_in_txn_keeps_db (c : Cfg) (m : InsertMode) (s : NodeStore) (a : Azks)
    (els : List (NodeLabel × Dig)) (s' : NodeStore) (a' : Azks)
    (h : s.begin.batchInsert c m a els = .ok (s', a')) : s'.db = s.db ∧ s'.inTxn = true := by
  sorry

/-- **once everything is written the new epoch is served completely** -/
theorem full_commit_visible (c : Cfg) (hc : c.emptyLabel.len = 0)
    (s : NodeStore) (a : Azks) (t : CRoot)
    (hidle : s.inTxn = false ∧ s.log = [])
    (hrep : ReprRoot c .directory s t) (hwf : t.WF)
    (hep : ∀ lf ∈ t.leaves, 1 ≤ lf.ep ∧ lf.ep ≤ a.latestEpoch)
    (els : List (BitStr × Dig))
    (hpf : PrefixFree (t.leaves ++ newLeaves els (a.latestEpoch + 1)))
    (hlen : ∀ lf ∈ t.leaves ++ newLeaves els (a.latestEpoch + 1), 1 ≤ lf.lbl.length ∧ lf.lbl.length ≤ 256) :
    ∃ s' n, s.begin.batchInsert c .directory a (els.map fun x => (NodeLabel.ofBits x.1, x.2))
        = .ok (s', ⟨a.latestEpoch + 1, n⟩) ∧
      ReprRoot c .directory s'.commit ((newLeaves els (a.latestEpoch + 1)).foldl CRoot.insert1 t) ∧
      AtEpoch s'.commit.db (a.latestEpoch + 1) := by
  sorry

/-- keys that are new in this epoch are invisible at the previous one: they resolve to "not found" -/
theorem new_keys_invisible (c : Cfg) (m : InsertMode) (s : NodeStore) (a : Azks)
    (els : List (NodeLabel × Dig)) (s' : NodeStore) (a' : Azks)
    (hidle : s.inTxn = false ∧ s.log = [])
    (h : s.begin.batchInsert c m a els = .ok (s', a'))
    (k : NodeLabel) (r : NodeRec) (hk : s'.log.get? k = some r) (hnew : s.db.get? k = none) :
    r.resolve a.latestEpoch = .error .notFound := by
  sorry

end Akd.C11
