/-
C11 — a reader of a partially written commit still sees the previous epoch intact.

`s` is storage consistent at epoch `e` (it represents the trie `t`, every record is of an epoch
`≤ e`, no transaction open).  A publish inserts a batch at epoch `e+1` inside a transaction; the
commit writes the transaction log's records to the database with the directory's epoch record
LAST.  For ANY sub-collection `W` of those node records that has reached the database (any prefix of
any order, any subset), every node that existed before reads — as of epoch `e` — exactly as it did
before (modulo the `parent` field, which no proof reads); once everything is written the new tree is
there.

`ReprRoot` and `AtEpoch` say nothing about records the database may hold under keys the tree does not
use, nor that a record is stored under its node's label (the model's `NodeMap` does not enforce it);
three statements needed the corresponding hypothesis (each with a counterexample run on the
executable model): `partial_commit_invisible` is for the keys of the nodes of `t` (`nodeKeys`; the
all-keys form `partial_commit_invisible_all` assumes the database holds nothing else),
`full_commit_visible` assumes `AtEpoch` before the publish, `new_keys_invisible` assumes `WellKeyed`.
-/
import AkdModel.Insert
import AkdModel.Thm.C01b
import AkdModel.Thm.C13
import AkdModel.Lemmas.PartialLemmas
namespace Akd.C11
open Akd C01

/-- what a reader targeting epoch `e` sees under key `k` -/
def viewAt (m : NodeMap) (e : Nat) (k : NodeLabel) : Option TreeNode :=
  match m.get? k with
  | some r => match r.resolve e with
    | .ok n => some (C13.eraseParent n)
    | .error _ => none
  | none => none

/-- the database after the records `W` (some of the commit's node records) have been written -/
def applyWrites (db : NodeMap) (W : List NodeRec) : NodeMap := W.foldl NodeMap.set db

/-- every record in the database is of an epoch `≤ e` -/
def AtEpoch (db : NodeMap) (e : Nat) : Prop := ∀ k r, db.get? k = some r → r.latest.lastEpoch ≤ e

/-- the labels of the nodes of a (sub-)tree -/
def treeLabels : CTree → List BitStr
  | .leaf q _ _ => [q]
  | .node q l r => q :: (treeLabels l ++ treeLabels r)

/-- the storage keys of the nodes of `t`: the root and every node of its sub-trees -/
def nodeKeys (t : CRoot) : List NodeLabel :=
  NodeLabel.root ::
    (((t.l.map treeLabels).getD [] ++ (t.r.map treeLabels).getD []).map NodeLabel.ofBits)

theorem treeLabels_eq : ∀ t : CTree, treeLabels t = Part.lbls t
  | .leaf _ _ _ => rfl
  | .node _ l r => by simp only [treeLabels, Part.lbls, treeLabels_eq l, treeLabels_eq r]

theorem nodeKeys_rootK {t : CRoot} {k : NodeLabel} (h : k ∈ nodeKeys t) :
    ∃ q, Part.RootK t q ∧ k = NodeLabel.ofBits q := by
  simp only [nodeKeys, List.mem_cons, List.mem_map] at h
  rcases h with rfl | ⟨q, hq, rfl⟩
  · exact ⟨[], .inl rfl, Ins.ofBits_nil.symm⟩
  · refine ⟨q, .inr ?_, rfl⟩
    have e : ∀ o : Option CTree, (o.map treeLabels).getD [] = Part.olbls o := by
      intro o; cases o <;> simp [Part.olbls, treeLabels_eq]
    rwa [e, e] at hq

/-- **partial commits are invisible at the previous epoch**

(statement change: the conclusion is for the keys of the nodes of `t` (`hk`), not for every key of the
database — a stray record that sits in the database under a key the tree does not use, e.g. the label
of an interior node this very batch creates, is overwritten by a record that starts at the new epoch) -/
theorem partial_commit_invisible (c : Cfg) (hc : c.emptyLabel.len = 0)
    (s : NodeStore) (a : Azks) (t : CRoot)
    (hidle : s.inTxn = false ∧ s.log = [])
    (hrep : ReprRoot c .directory s t) (hwf : t.WF)
    (hat : AtEpoch s.db a.latestEpoch)
    (hep : ∀ lf ∈ t.leaves, 1 ≤ lf.ep ∧ lf.ep ≤ a.latestEpoch)
    (els : List (BitStr × Dig))
    (hpf : PrefixFree (t.leaves ++ newLeaves els (a.latestEpoch + 1)))
    (hlen : ∀ lf ∈ t.leaves ++ newLeaves els (a.latestEpoch + 1), 1 ≤ lf.lbl.length ∧ lf.lbl.length ≤ 256)
    (s' : NodeStore) (a' : Azks)
    (hins : s.begin.batchInsert c .directory a (els.map fun x => (NodeLabel.ofBits x.1, x.2)) = .ok (s', a'))
    (W : List NodeRec) (hW : ∀ r ∈ W, ∃ k, s'.log.get? k = some r) :
    ∀ k, k ∈ nodeKeys t → (s.db.get? k).isSome →
      viewAt (applyWrites s.db W) a.latestEpoch k = viewAt s.db a.latestEpoch k := by
  obtain ⟨hlog, hcore⟩ := Part.partial_core c hc s a t hidle hrep hwf hat hep els hpf hlen s' a' hins
  intro k hk hsome
  obtain ⟨q, hq, rfl⟩ := nodeKeys_rootK hk
  cases hd : s.db.get? (NodeLabel.ofBits q) with
  | none => rw [hd] at hsome; cases hsome
  | some r =>
    unfold viewAt applyWrites
    rcases Part.foldl_set_get W s.db (NodeLabel.ofBits q) with h | ⟨r', hr', hl, h⟩
    · rw [h]
    · obtain ⟨k', hk'⟩ := hW r' hr'
      have hkey : k' = r'.label := hlog.2.1 (k', r') (Part.get?_mem _ _ _ hk')
      rw [hkey, hl] at hk'
      obtain ⟨n, hn, he⟩ := hcore q r' r hq hk' hd
      rw [h, hd]
      simp only [hn, Part.resolve_ok_latest r _ (hat _ r hd), he]

/-- the form for a database that holds nothing but the nodes of the tree: every key of the database -/
theorem partial_commit_invisible_all (c : Cfg) (hc : c.emptyLabel.len = 0)
    (s : NodeStore) (a : Azks) (t : CRoot)
    (hidle : s.inTxn = false ∧ s.log = [])
    (hrep : ReprRoot c .directory s t) (hwf : t.WF)
    (hat : AtEpoch s.db a.latestEpoch)
    (hdom : ∀ k, (s.db.get? k).isSome → k ∈ nodeKeys t)
    (hep : ∀ lf ∈ t.leaves, 1 ≤ lf.ep ∧ lf.ep ≤ a.latestEpoch)
    (els : List (BitStr × Dig))
    (hpf : PrefixFree (t.leaves ++ newLeaves els (a.latestEpoch + 1)))
    (hlen : ∀ lf ∈ t.leaves ++ newLeaves els (a.latestEpoch + 1), 1 ≤ lf.lbl.length ∧ lf.lbl.length ≤ 256)
    (s' : NodeStore) (a' : Azks)
    (hins : s.begin.batchInsert c .directory a (els.map fun x => (NodeLabel.ofBits x.1, x.2)) = .ok (s', a'))
    (W : List NodeRec) (hW : ∀ r ∈ W, ∃ k, s'.log.get? k = some r) :
    ∀ k, (s.db.get? k).isSome →
      viewAt (applyWrites s.db W) a.latestEpoch k = viewAt s.db a.latestEpoch k :=
  fun k hk => partial_commit_invisible c hc s a t hidle hrep hwf hat hep els hpf hlen s' a' hins W hW k
    (hdom k hk) hk

/-- the database itself is not touched before the commit -/
theorem insert_in_txn_keeps_db (c : Cfg) (m : InsertMode) (s : NodeStore) (a : Azks)
    (els : List (NodeLabel × Dig)) (s' : NodeStore) (a' : Azks)
    (h : s.begin.batchInsert c m a els = .ok (s', a')) : s'.db = s.db ∧ s'.inTxn = true :=
  Part.keeps_db s.db h ⟨rfl, rfl⟩

/-- **once everything is written the new epoch is served completely**

(statement change: hypothesis `hat` added — without it a stray record of a later epoch that sits in
the database under a key the tree does not use survives the commit and refutes the last conjunct) -/
theorem full_commit_visible (c : Cfg) (hc : c.emptyLabel.len = 0)
    (s : NodeStore) (a : Azks) (t : CRoot)
    (hidle : s.inTxn = false ∧ s.log = [])
    (hrep : ReprRoot c .directory s t) (hwf : t.WF)
    (hat : AtEpoch s.db a.latestEpoch)
    (hep : ∀ lf ∈ t.leaves, 1 ≤ lf.ep ∧ lf.ep ≤ a.latestEpoch)
    (els : List (BitStr × Dig))
    (hpf : PrefixFree (t.leaves ++ newLeaves els (a.latestEpoch + 1)))
    (hlen : ∀ lf ∈ t.leaves ++ newLeaves els (a.latestEpoch + 1), 1 ≤ lf.lbl.length ∧ lf.lbl.length ≤ 256) :
    ∃ s' n, s.begin.batchInsert c .directory a (els.map fun x => (NodeLabel.ofBits x.1, x.2))
        = .ok (s', ⟨a.latestEpoch + 1, n⟩) ∧
      ReprRoot c .directory s'.commit ((newLeaves els (a.latestEpoch + 1)).foldl CRoot.insert1 t) ∧
      AtEpoch s'.commit.db (a.latestEpoch + 1) := by
  have hrepb : ReprRoot c .directory s.begin t :=
    Pub.reprRoot_getRec_congr c _ s s.begin (Pub.getRec_begin s hidle.1 hidle.2) t hrep
  obtain ⟨s', n, hrun, hrep'⟩ := batchInsert_refines c hc .directory s.begin a t hrepb hwf hep els hpf hlen
  have hlog : Pub.LogOK s' := Pub.logOK_batchInsert hrun (Pub.logOK_begin s hidle.2)
  have hdb := Part.keeps_db s.db hrun ⟨rfl, rfl⟩
  have hle : Part.LogLe (a.latestEpoch + 1) s' :=
    Part.logLe_batchInsert hrun ⟨rfl, fun k r hk => by
      simp [NodeStore.begin, hidle.2, NodeMap.get?] at hk⟩
  refine ⟨s', n, hrun, Pub.reprRoot_getRec_congr c _ s' s'.commit (Pub.getRec_commit s' hlog) _ hrep', ?_⟩
  intro k r hk
  simp only [NodeStore.commit] at hk
  rw [Pub.get_foldl_set s'.log s'.db k hlog.2.1 hlog.2.2] at hk
  cases hl : NodeMap.get? s'.log k with
  | some r' =>
    rw [hl] at hk
    simp only [Option.some.injEq] at hk
    exact hk ▸ hle.2 k r' hl
  | none =>
    rw [hl, hdb.1] at hk
    exact Nat.le_succ_of_le (hat k r hk)

/-- every record is stored under the label of its node versions (in the implementation the storage key
IS the label of the record; the model's `NodeMap` does not enforce it) -/
def WellKeyed (db : NodeMap) : Prop :=
  ∀ k r, db.get? k = some r → r.latest.label = k ∧ ∀ p, r.previous = some p → p.label = k

/-- keys that are new in this epoch are invisible at the previous one: they resolve to "not found"

(statement change: hypothesis `hkeyed` added — a record stored under a key different from its node's
label is read through the former and rewritten, with its old epoch, under the latter) -/
theorem new_keys_invisible (c : Cfg) (m : InsertMode) (s : NodeStore) (a : Azks)
    (els : List (NodeLabel × Dig)) (s' : NodeStore) (a' : Azks)
    (hidle : s.inTxn = false ∧ s.log = [])
    (hkeyed : WellKeyed s.db)
    (h : s.begin.batchInsert c m a els = .ok (s', a'))
    (k : NodeLabel) (r : NodeRec) (hk : s'.log.get? k = some r) (hnew : s.db.get? k = none) :
    r.resolve a.latestEpoch = .error .notFound := by
  have h0 : Part.NewInv s.db (a.latestEpoch + 1) s.begin :=
    ⟨rfl, rfl, fun k r hk => by simp [NodeStore.begin, hidle.2, NodeMap.get?] at hk,
      fun k r hk => by simp [NodeStore.begin, hidle.2, NodeMap.get?] at hk⟩
  obtain ⟨h1, h2⟩ := (Part.newInv_batchInsert s.db hkeyed h h0).fresh k r hk hnew
  unfold NodeRec.resolve
  rw [if_pos (by omega), h2]

end Akd.C11
