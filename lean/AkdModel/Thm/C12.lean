/-
C12 — concurrent publishes take effect one after another.

For the repaired protocol (`Proto.fixed`): under EVERY schedule of any number of publishers the commits
reach the database with distinct consecutive epochs, each on top of the epoch its publisher read, and
every publisher that returns `done e` after changing the directory is the one that wrote epoch `e`.
For the pinned commit (`Proto.legacy`) a two-publisher schedule loses an epoch (defect D6).
`validate` accepts exactly the storage-call traces consistent with the repaired protocol; the harness
feeds it every trace of the real code it explores.
-/
import AkdModel.Conc
import AkdModel.Lemmas.ConcLemmas
namespace Akd.Conc

/-- the commits are consecutive: the k-th one writes epoch `base + k + 1` -/
def Consecutive (base : Nat) (hist : List (Nat × Nat)) : Prop :=
  ∀ k (h : k < hist.length), (hist[k]).2 = base + k + 1

/-- all publishers start fresh -/
def Fresh (pubs : List Pub) : Prop := ∀ p ∈ pubs, p.pc = .start

/-- **serialisability of the repaired protocol** (full strength: every schedule, any number of
publishers, any number of node reads per publisher, effective and no-op batches) -/
theorem serializable (base : Nat) (pubs : List Pub) (hf : Fresh pubs) (sched : List Nat) :
    let s := run .fixed (init base pubs) sched
    Consecutive base s.hist ∧ s.epoch = base + s.hist.length ∧
    (∀ i e, (i, e) ∈ s.hist → ∃ p, s.pubs[i]? = some p ∧ p.pc = .done e) ∧
    (∀ i p e, s.pubs[i]? = some p → p.pc = .done e → p.changes = true → (i, e) ∈ s.hist) ∧
    (∀ i j e, (i, e) ∈ s.hist → (j, e) ∈ s.hist → i = j) := by
  intro s
  have hI : Inv base s := inv_reach base pubs hf sched
  refine ⟨hI.hCons, hI.hEpoch, ?_, hI.hDoneHist, ?_⟩
  · intro i e h
    obtain ⟨p, hp, hd, _⟩ := hI.hHistDone i e h
    exact ⟨p, hp, hd⟩
  · intro i j e hi hj
    obtain ⟨k, hk, hke⟩ := List.mem_iff_getElem.1 hi
    obtain ⟨k', hk', hke'⟩ := List.mem_iff_getElem.1 hj
    have h1 := hI.hCons k hk
    have h2 := hI.hCons k' hk'
    rw [hke] at h1
    rw [hke'] at h2
    have : k = k' := by simp at h1 h2; omega
    subst this
    rw [hke] at hke'
    exact (Prod.mk.inj hke').1

/-- a no-op publish returns the epoch that was current while it held the lock and leaves no trace -/
theorem noop_no_effect (base : Nat) (pubs : List Pub) (hf : Fresh pubs) (sched : List Nat) (i : Nat) (p : Pub) (e : Nat)
    (hp : (run .fixed (init base pubs) sched).pubs[i]? = some p) (hd : p.pc = .done e) (hc : p.changes = false) :
    (∀ e', (i, e') ∉ (run .fixed (init base pubs) sched).hist) ∧ base ≤ e ∧
      e ≤ (run .fixed (init base pubs) sched).epoch := by
  have hI : Inv base (run .fixed (init base pubs) sched) := inv_reach base pubs hf sched
  refine ⟨?_, hI.hNoop i p e hp hd hc⟩
  intro e' hmem
  obtain ⟨q, hq, _, hqc⟩ := hI.hHistDone i e' hmem
  rw [hp] at hq
  cases hq
  rw [hc] at hqc
  cases hqc

/-- no deadlock: from every reachable state of the repaired protocol that is not finished, some
publisher is enabled -/
theorem progress (base : Nat) (pubs : List Pub) (hf : Fresh pubs) (sched : List Nat) :
    let s := run .fixed (init base pubs) sched
    finished s = false → ∃ i, (step .fixed s i).isSome := by
  intro s hfin
  have hI : Inv base s := inv_reach base pubs hf sched
  cases hl : s.lock with
  | some h =>
    -- the holder of the mutex can move
    obtain ⟨p, hp, hc⟩ := hI.hLockCrit h hl
    refine ⟨h, ?_⟩
    unfold step
    simp only [hp]
    cases hpc : p.pc with
    | readEpoch => simp
    | readVersions => cases hch : p.changes <;> simp
    | inserting k => cases k <;> simp
    | commitWrite => simp
    | start => simp [hpc] at hc
    | readRoot => simp [hpc] at hc
    | done e => simp [hpc] at hc
    | refused => simp [hpc] at hc
  | none =>
    -- nobody holds the mutex: a publisher that has not returned is still at `start`
    unfold finished at hfin
    rw [List.all_eq_false] at hfin
    obtain ⟨p, hmem, hnd⟩ := hfin
    obtain ⟨i, hi, hip⟩ := List.mem_iff_getElem.1 hmem
    have hp : s.pubs[i]? = some p := by rw [List.getElem?_eq_getElem hi, hip]
    have hbad := hI.hNoBad i p hp
    refine ⟨i, ?_⟩
    unfold step
    simp only [hp]
    cases hpc : p.pc with
    | start => simp [hl]
    | readEpoch => have := hI.hCritLock i p hp (by simp [hpc]); rw [hl] at this; cases this
    | readVersions => have := hI.hCritLock i p hp (by simp [hpc]); rw [hl] at this; cases this
    | inserting k => have := hI.hCritLock i p hp (by simp [hpc]); rw [hl] at this; cases this
    | commitWrite => have := hI.hCritLock i p hp (by simp [hpc]); rw [hl] at this; cases this
    | readRoot => exact absurd hpc hbad.2
    | done e => simp [hpc] at hnd
    | refused => exact absurd hpc hbad.1

/-- **the pinned commit loses an epoch**: two publishers, one schedule, both return epoch base+1 -/
theorem lost_epoch_witness :
    ∃ sched : List Nat,
      let s := run .legacy (init 0 [{}, {}]) sched
      finished s = true ∧ s.hist = [(1, 1), (0, 1)] ∧
      s.pubs.map (·.pc) = [.done 1, .done 1] :=
  ⟨[0, 0, 0, 0, 1, 1, 1, 1, 1, 1, 0, 0], by decide⟩

/-- a trace accepted by `validate` commits consecutive epochs, each task at most once per critical section -/
theorem validate_consecutive (base : Nat) (tr : List (Nat × Ev)) (v : VState)
    (h : validate base tr = .ok v) :
    (∀ k (hk : k < v.outcomes.length), (v.outcomes[k]).2 = base + k + 1) ∧ v.epoch = base + v.outcomes.length :=
  vinv_foldlM (base := base) (v0 := { epoch := base }) tr
    (And.intro (fun k hk => absurd hk (Nat.not_lt_zero k)) rfl) h

/-! ### non-vacuity -/

/-- three publishers (the second one a no-op, the third with three node reads), interleaved schedule
with blocked attempts: the no-op returns the epoch 5 it saw, the two effective batches commit 6 and 7 -/
example :
    let s := run .fixed (init 5 [{}, { changes := false }, { reads := 3 }])
      [1, 0, 2, 1, 0, 1, 0, 2, 0, 2, 0, 0, 2, 0, 0, 2, 1, 2, 2, 0, 2, 2, 2, 2, 2, 2]
    finished s = true ∧ s.hist = [(0, 6), (2, 7)] ∧ s.epoch = 7 ∧ s.lock = none ∧
      s.pubs.map (·.pc) = [.done 6, .done 5, .done 7] := by
  decide

/-- the same three publishers run one after the other -/
example :
    (run .fixed (init 0 [{}, {}, {}]) [2, 2, 2, 2, 2, 2, 0, 0, 0, 0, 0, 0, 1, 1, 1, 1, 1, 1]).hist = [(2, 1), (0, 2), (1, 3)] := by
  decide

/-- the schedule that breaks the pinned commit is harmless for the repaired protocol: publisher 1 is
blocked until publisher 0 has committed -/
example :
    let s := run .fixed (init 0 [{}, {}]) [0, 0, 0, 0, 1, 1, 1, 1, 1, 1, 0, 0, 1, 1, 1, 1, 1, 1]
    finished s = true ∧ s.hist = [(0, 1), (1, 2)] := by
  decide

private def okOf : Except String VState → Option (Nat × Option Nat × List (Nat × Nat))
  | .ok v => some (v.epoch, v.holder, v.outcomes)
  | .error _ => none

/-- an accepted trace: two tasks one after the other -/
example :
    okOf (validate 3 [(0, .getAzks 3), (0, .read), (0, .read), (0, .commit 4),
                      (1, .getAzks 4), (1, .read), (1, .commit 5)]) = some (5, none, [(0, 4), (1, 5)]) := by
  decide

/-- rejected: task 1 reads inside the critical section of task 0 -/
example : okOf (validate 3 [(0, .getAzks 3), (1, .getAzks 3), (0, .commit 4), (1, .commit 4)]) = none := by
  decide

/-- rejected: the lost-epoch trace of the pinned commit (both commits carry epoch 4) -/
example : okOf (validate 3 [(0, .getAzks 3), (0, .commit 4), (1, .commit 4)]) = none := by
  decide

/-- rejected: stale epoch read -/
example : okOf (validate 3 [(0, .getAzks 2)]) = none := by
  decide

/-- remark: the validator has no event for the return of a no-op publish (which issues no commit), so
it is conservative there: after a no-op publish of task 0 the next task is reported as overlapping -/
example : okOf (validate 3 [(0, .getAzks 3), (0, .read), (1, .getAzks 3), (1, .commit 4)]) = none := by
  decide

end Akd.Conc
