/-
C12 — concurrent publishes take effect one after another.

For the repaired protocol (`Proto.fixed`): under EVERY schedule of any number of publishers the commits
reach the database with distinct consecutive epochs, each on top of the epoch its publisher read, and
every publisher that returns `done e` after changing the directory is the one that wrote epoch `e`.
For the pinned commit (`Proto.legacy`) a two-publisher schedule loses an epoch (defect D6).
`validate` accepts exactly the storage-call traces consistent with the repaired protocol; the harness
feeds it every trace of the real code it explores.
-/
import AkdModel.Conc
import AkdModel.Lemmas.ConcLemmas
namespace Akd.Conc

/-- the commits are consecutive: the k-th one writes epoch `base + k + 1` -/
def Consecutive (base : Nat) (hist : List (Nat × Nat)) : Prop :=
  ∀ k (h : k < hist.length), (hist[k]).2 = base + k + 1

/-- all publishers start fresh -/
def Fresh (pubs : List Pub) : Prop := ∀ p ∈ pubs, p.pc = .start

/-- **serialisability of the repaired protocol** (full strength: every schedule, any number of
publishers, any number of node reads per publisher, effective and no-op batches) -/
theorem serializable (base : Nat) (pubs : List Pub) (hf : Fresh pubs) (sched : List Nat) :
    let s := run .fixed (init base pubs) sched
    Consecutive base s.hist ∧ s.epoch = base + s.hist.length ∧
    (∀ i e, (i, e) ∈ s.hist → ∃ p, s.pubs[i]? = some p ∧ p.pc = .done e) ∧
    (∀ i p e, s.pubs[i]? = some p → p.pc = .done e → p.changes = true → (i, e) ∈ s.hist) ∧
    (∀ i j e, (i, e) ∈ s.hist → (j, e) ∈ s.hist → i = j) := by
  sorry

/-- a no-op publish returns the epoch that was current while it held the lock and leaves no trace -/
theorem noop_no_effect (base : Nat) (pubs : List Pub) (hf : Fresh pubs) (sched : List Nat) (i : Nat) (p : Pub) (e : Nat)
    (hp : (run .fixed (init base pubs) sched).pubs[i]? = some p) (hd : p.pc = .done e) (hc : p.changes = false) :
    (∀ e', (i, e') ∉ (run .fixed (init base pubs) sched).hist) ∧ base ≤ e ∧
      e ≤ (run .fixed (init base pubs) sched).epoch := by
  sorry

/-- no deadlock: from every reachable state of the repaired protocol that is not finished, some
publisher is enabled -/
theorem progress (base : Nat) (pubs : List Pub) (hf : Fresh pubs) (sched : List Nat) :
    let s := run .fixed (init base pubs) sched
    finished s = false → ∃ i, (step .fixed s i).isSome := by
  sorry

/-- **the pinned commit loses an epoch**: two publishers, one schedule, both return epoch base+1 -/
theorem lost_epoch_witness :
    ∃ sched : List Nat,
      let s := run .legacy (init 0 [{}, {}]) sched
      finished s = true ∧ s.hist = [(1, 1), (0, 1)] ∧
      s.pubs.map (·.pc) = [.done 1, .done 1] := by
  sorry

/-- a trace accepted by `validate` commits consecutive epochs, each task at most once per critical section -/
theorem validate_consecutive (base : Nat) (tr : List (Nat × Ev)) (v : VState)
    (h : validate base tr = .ok v) :
    (∀ k (hk : k < v.outcomes.length), (v.outcomes[k]).2 = base + k + 1) ∧ v.epoch = base + v.outcomes.length := by
  sorry

end Akd.Conc
