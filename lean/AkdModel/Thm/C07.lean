/-
C07 — a verifying history proof cannot hide, reorder, invent or misdate versions.
Same setting as C06 (`HonestFor`); `π` is EVERY proof value; `n = vs.length ≤ E`.
-/
import AkdModel.Thm.C06
namespace Akd.C07
open Akd C06

/-- the true answer for a parameter: versions newest first, all or the newest `k` -/
def expected (vs : List Spec.Ver) : HistoryParams → List Spec.Ver
  | .complete => vs.reverse
  | .mostRecent k => vs.reverse.take k

def resultOf (v : Spec.Ver) : Verify.VerifyResult := ⟨v.epoch, v.version, v.value⟩

/-- **history soundness, strict verifier** (full strength): the accepted result IS the true list -/
theorem history_sound (c : Cfg) (hc : c.Lawful) (hfresh : C05.EmptyLabelFresh c)
    (key : Dig) (vrf : VrfTable) (hv : VrfOK vrf)
    (t : CRoot) (hwf : t.WF) (h256 : C05.Leaves256 t)
    (u : Bytes) (vs : List Spec.Ver) (hon : HonestFor c key vrf t u vs)
    (E : Nat) (hE : vs.length ≤ E)
    (π : HistoryProof) (p : HistoryParams) (rs : List Verify.VerifyResult)
    (hacc : Verify.history c vrf (t.rootHash c) E u π p false = .ok rs) :
    rs = (expected vs p).map resultOf := by
  sorry

/-- **history soundness, verifier that allows missing values**: the versions are the true ones, every
value is the true one or empty, and every epoch is the true one except possibly that of a
version-1 entry carried with the empty value (finding C07-F1: the proof format has no
commitment for a tombstoned first version) -/
theorem history_sound_tombstone (c : Cfg) (hc : c.Lawful) (hfresh : C05.EmptyLabelFresh c)
    (key : Dig) (vrf : VrfTable) (hv : VrfOK vrf)
    (t : CRoot) (hwf : t.WF) (h256 : C05.Leaves256 t)
    (u : Bytes) (vs : List Spec.Ver) (hon : HonestFor c key vrf t u vs)
    (E : Nat) (hE : vs.length ≤ E)
    (π : HistoryProof) (p : HistoryParams) (rs : List Verify.VerifyResult)
    (hacc : Verify.history c vrf (t.rootHash c) E u π p true = .ok rs) :
    rs.length = (expected vs p).length ∧
    ∀ i (h₁ : i < rs.length) (h₂ : i < (expected vs p).length),
      (rs[i]).version = ((expected vs p)[i]).version ∧
      ((rs[i]).value = ((expected vs p)[i]).value ∨ (rs[i]).value = []) ∧
      ((rs[i]).epoch = ((expected vs p)[i]).epoch ∨ ((rs[i]).version = 1 ∧ (rs[i]).value = [])) := by
  sorry

/-- nothing is accepted for a never-published label, in either mode -/
theorem history_unpublished_rejected (c : Cfg) (hc : c.Lawful) (hfresh : C05.EmptyLabelFresh c)
    (key : Dig) (vrf : VrfTable) (hv : VrfOK vrf)
    (t : CRoot) (hwf : t.WF) (h256 : C05.Leaves256 t)
    (u : Bytes) (hon : HonestFor c key vrf t u [])
    (E : Nat) (π : HistoryProof) (p : HistoryParams) (allow : Bool) :
    ∀ rs, Verify.history c vrf (t.rootHash c) E u π p allow ≠ .ok rs := by
  sorry

/-- if the tree fails to retire version `v-1` in the very epoch of version `v` (stale leaf missing, or
stamped with another epoch), no proof covering version `v ≥ 2` verifies.  Here the tree is only
required to hold the FRESH leaves honestly (`fresh_only`). -/
theorem late_stale_rejected (c : Cfg) (hc : c.Lawful) (hfresh : C05.EmptyLabelFresh c)
    (vrf : VrfTable) (hv : VrfOK vrf)
    (t : CRoot) (hwf : t.WF) (h256 : C05.Leaves256 t)
    (u : Bytes) (E : Nat) (π : HistoryProof) (p : HistoryParams) (allow : Bool)
    (up : UpdateProof) (hup : up ∈ π.updates) (hver : 2 ≤ up.version)
    (hbad : ∀ l lf, vrf.get? ⟨u, false, up.version - 1⟩ = some l → lf ∈ t.leaves → lf.lbl = l.bits →
        ¬ (lf.value = c.staleValue ∧ lf.ep = up.epoch)) :
    ∀ rs, Verify.history c vrf (t.rootHash c) E u π p allow ≠ .ok rs := by
  sorry

end Akd.C07
