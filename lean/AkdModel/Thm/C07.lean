/-
C07 — a verifying history proof cannot hide, reorder, invent or misdate versions.
Same setting as C06 (`HonestFor`); `π` is EVERY proof value; `n = vs.length ≤ E`.
-/
import AkdModel.Thm.C06
import AkdModel.Lemmas.SoundHistory
namespace Akd.C07
open Akd C06

/-- the true answer for a parameter: versions newest first, all or the newest `k` -/
def expected (vs : List Spec.Ver) : HistoryParams → List Spec.Ver
  | .complete => vs.reverse
  | .mostRecent k => vs.reverse.take k

def resultOf (v : Spec.Ver) : Verify.VerifyResult := ⟨v.epoch, v.version, v.value⟩

/-! ### the true answer, by index -/

theorem expected_length (vs : List Spec.Ver) (p : HistoryParams) :
    (expected vs p).length = match p with
      | .complete => vs.length
      | .mostRecent r => min r vs.length := by
  cases p <;> simp [expected]

theorem expected_getElem (vs : List Spec.Ver) (p : HistoryParams) (i : Nat)
    (h : i < (expected vs p).length) :
    ∃ h' : vs.length - 1 - i < vs.length, (expected vs p)[i] = vs[vs.length - 1 - i] := by
  cases p with
  | complete =>
    simp only [expected, List.length_reverse] at h ⊢
    exact ⟨by omega, by rw [List.getElem_reverse]⟩
  | mostRecent r =>
    simp only [expected, List.length_take, List.length_reverse] at h ⊢
    exact ⟨by omega, by rw [List.getElem_take, List.getElem_reverse]⟩

/-- what an accepted update proof says about the true entry of its version: in strict mode
everything is the truth; in allow-mode an empty value is accepted, and then the epoch is only
bound for versions `≥ 2` -/
def EntryOK (allow : Bool) (v : Spec.Ver) (r : Verify.VerifyResult) : Prop :=
  r.version = v.version ∧
  ((r.value = v.value ∧ r.epoch = v.epoch) ∨
    (allow = true ∧ r.value = [] ∧ (r.epoch = v.epoch ∨ r.version = 1)))

theorem future_of_markers {s e E : Nat} {past future : List Nat}
    (h : Marker.markers? s e E = some (past, future)) : C08.future e E = future := by
  unfold Marker.markers? at h
  cases hp : Marker.past? s with
  | none => simp [hp] at h
  | some p =>
    cases hf : Marker.future? e E with
    | none => simp [hp, hf] at h
    | some f =>
      simp [hp, hf] at h
      simp [C08.future, hf, h.2]

section Core
variable {c : Cfg} {key : Dig} {vrf : VrfTable} {t : CRoot} {u : Bytes} {vs : List Spec.Ver}

/-- every accepted update proof is bound to the true entry of its version -/
theorem update_bound (hc : c.Lawful) (hfresh : C05.EmptyLabelFresh c) (hv : VrfOK vrf)
    (hwf : t.WF) (h256 : C05.Leaves256 t) (hon : HonestFor c key vrf t u vs)
    {allow : Bool} {p : UpdateProof} {r : Verify.VerifyResult}
    (h : Verify.singleUpdate c vrf (t.rootHash c) u allow p = .ok r) :
    ∃ v ∈ vs, EntryOK allow v ⟨p.epoch, p.version, p.value⟩ := by
  obtain ⟨-, h1, h2⟩ := Snd.singleUpdate_ok h
  rcases h1 with ⟨ha, hval, hex⟩ | hex
  · obtain ⟨v, hmem, hver⟩ := bound_version hc hfresh hv hwf h256 hon hex
    refine ⟨v, hmem, hver.symm, Or.inr ⟨ha, hval, ?_⟩⟩
    by_cases h2' : 2 ≤ p.version
    · obtain ⟨pv, pp, hs⟩ := h2 h2'
      obtain ⟨w, hw, hwver, hep⟩ := bound_stale hc h256 hon (by omega) hs
      have : w = v := hon.versions.unique hw hmem (by omega)
      subst this
      exact Or.inl hep
    · obtain ⟨-, -, h1⟩ := hon.versions.getElem_of_version hmem
      right; show p.version = 1; omega
  · obtain ⟨v, hmem, hver, hval, hep⟩ := bound_strict hc h256 hon hex
    exact ⟨v, hmem, hver.symm, Or.inl ⟨hval, hep⟩⟩

/-- **the core**: an accepted history proof, in either mode, has as many entries as the true
answer, and its `i`-th entry is bound to the `i`-th true entry -/
theorem history_core (hc : c.Lawful) (hfresh : C05.EmptyLabelFresh c) (hv : VrfOK vrf)
    (hwf : t.WF) (h256 : C05.Leaves256 t) (hon : HonestFor c key vrf t u vs)
    {E : Nat} (hE : vs.length ≤ E) {π : HistoryProof} {p : HistoryParams} {allow : Bool}
    {rs : List Verify.VerifyResult}
    (hacc : Verify.history c vrf (t.rootHash c) E u π p allow = .ok rs) :
    0 < rs.length ∧ rs.length = (expected vs p).length ∧
    ∀ i (h₁ : i < rs.length) (h₂ : i < (expected vs p).length),
      EntryOK allow ((expected vs p)[i]) (rs[i]) := by
  obtain ⟨past, future, hw, hu, hfut⟩ := Snd.history_ok hacc
  obtain ⟨v0, sh⟩ := Snd.withHistoryParams_ok hw
  obtain ⟨hrs, hsingle⟩ := Snd.verifyUpdates_ok _ _ _ hu
  have hlen : rs.length = π.updates.length := by rw [hrs, List.length_map]
  -- every entry, by index
  have hentry : ∀ i (hi : i < π.updates.length), ∃ v ∈ vs, v.version + i = v0 ∧
      EntryOK allow v ⟨(π.updates[i]).epoch, (π.updates[i]).version, (π.updates[i]).value⟩ := by
    intro i hi
    obtain ⟨v, hmem, hok⟩ := update_bound hc hfresh hv hwf h256 hon
      (hsingle _ (List.getElem_mem hi))
    exact ⟨v, hmem, by rw [← hok.1]; exact sh.ver i hi, hok⟩
  -- the newest entry is a true version
  obtain ⟨vtop, htop, htopv, -⟩ := hentry 0 sh.pos
  obtain ⟨hidx, -, h1⟩ := hon.versions.getElem_of_version htop
  -- … and it is the latest
  have hv0 : v0 = vs.length := by
    rcases Nat.lt_or_ge v0 vs.length with hlt | hge
    · exfalso
      have hmemf : v0 + 1 ∈ future := by
        rw [← future_of_markers sh.markers]
        exact C08.succ_mem_future v0 E (by omega) (by omega)
      obtain ⟨pf, np, hnon⟩ := hfut _ hmemf
      exact absent_fresh hc hfresh hv hwf h256 hon hnon (vs[v0]) (List.getElem_mem _)
        (hon.versions.1 v0 hlt)
    · omega
  have hk := sh.start
  have hpos := sh.pos
  have hexp : π.updates.length = (expected vs p).length := by
    rw [expected_length]
    have hp := sh.params
    cases p with
    | complete => simp only [Snd.ParamsOK] at hp ⊢; omega
    | mostRecent r => simp only [Snd.ParamsOK] at hp ⊢; omega
  refine ⟨by omega, by omega, ?_⟩
  intro i h₁ h₂
  obtain ⟨v, hmem, hvi, hok⟩ := hentry i (by omega)
  obtain ⟨hidx', hexp'⟩ := expected_getElem vs p i h₂
  obtain ⟨hidx'', hget, -⟩ := hon.versions.getElem_of_version hmem
  have e1 : (expected vs p)[i] = v := by
    rw [hexp', ← hget]
    congr 1
    omega
  have e2 : rs[i] = ⟨(π.updates[i]).epoch, (π.updates[i]).version, (π.updates[i]).value⟩ := by
    simp only [hrs, List.getElem_map]
  rw [e1, e2]
  exact hok

end Core

/-- **history soundness, strict verifier** (full strength): the accepted result IS the true list -/
theorem history_sound (c : Cfg) (hc : c.Lawful) (hfresh : C05.EmptyLabelFresh c)
    (key : Dig) (vrf : VrfTable) (hv : VrfOK vrf)
    (t : CRoot) (hwf : t.WF) (h256 : C05.Leaves256 t)
    (u : Bytes) (vs : List Spec.Ver) (hon : HonestFor c key vrf t u vs)
    (E : Nat) (hE : vs.length ≤ E)
    (π : HistoryProof) (p : HistoryParams) (rs : List Verify.VerifyResult)
    (hacc : Verify.history c vrf (t.rootHash c) E u π p false = .ok rs) :
    rs = (expected vs p).map resultOf := by
  obtain ⟨-, hlen, hent⟩ := history_core hc hfresh hv hwf h256 hon hE hacc
  apply List.ext_getElem (by rw [hlen, List.length_map])
  intro i h₁ h₂
  have h₂' : i < (expected vs p).length := by simpa using h₂
  obtain ⟨hver, hrest⟩ := hent i h₁ h₂'
  rcases hrest with ⟨hval, hep⟩ | ⟨hfalse, -, -⟩
  · rw [List.getElem_map]
    cases hr : rs[i] with
    | mk e ver val =>
      rw [hr] at hver hval hep
      simp only at hver hval hep
      simp only [resultOf, hver, hval, hep]
  · cases hfalse

/-- **history soundness, verifier that allows missing values**: the versions are the true ones, every
value is the true one or empty, and every epoch is the true one except possibly that of a
version-1 entry carried with the empty value (finding C07-F1: the proof format has no
commitment for a tombstoned first version) -/
theorem history_sound_tombstone (c : Cfg) (hc : c.Lawful) (hfresh : C05.EmptyLabelFresh c)
    (key : Dig) (vrf : VrfTable) (hv : VrfOK vrf)
    (t : CRoot) (hwf : t.WF) (h256 : C05.Leaves256 t)
    (u : Bytes) (vs : List Spec.Ver) (hon : HonestFor c key vrf t u vs)
    (E : Nat) (hE : vs.length ≤ E)
    (π : HistoryProof) (p : HistoryParams) (rs : List Verify.VerifyResult)
    (hacc : Verify.history c vrf (t.rootHash c) E u π p true = .ok rs) :
    rs.length = (expected vs p).length ∧
    ∀ i (h₁ : i < rs.length) (h₂ : i < (expected vs p).length),
      (rs[i]).version = ((expected vs p)[i]).version ∧
      ((rs[i]).value = ((expected vs p)[i]).value ∨ (rs[i]).value = []) ∧
      ((rs[i]).epoch = ((expected vs p)[i]).epoch ∨ ((rs[i]).version = 1 ∧ (rs[i]).value = [])) := by
  obtain ⟨-, hlen, hent⟩ := history_core hc hfresh hv hwf h256 hon hE hacc
  refine ⟨hlen, ?_⟩
  intro i h₁ h₂
  obtain ⟨hver, hrest⟩ := hent i h₁ h₂
  refine ⟨hver, ?_, ?_⟩
  · rcases hrest with ⟨hval, -⟩ | ⟨-, hval, -⟩
    · exact Or.inl hval
    · exact Or.inr hval
  · rcases hrest with ⟨-, hep⟩ | ⟨-, hval, hep | h1⟩
    · exact Or.inl hep
    · exact Or.inl hep
    · exact Or.inr ⟨h1, hval⟩

/-- nothing is accepted for a never-published label, in either mode -/
theorem history_unpublished_rejected (c : Cfg) (hc : c.Lawful) (hfresh : C05.EmptyLabelFresh c)
    (key : Dig) (vrf : VrfTable) (hv : VrfOK vrf)
    (t : CRoot) (hwf : t.WF) (h256 : C05.Leaves256 t)
    (u : Bytes) (hon : HonestFor c key vrf t u [])
    (E : Nat) (π : HistoryProof) (p : HistoryParams) (allow : Bool) :
    ∀ rs, Verify.history c vrf (t.rootHash c) E u π p allow ≠ .ok rs := by
  intro rs hacc
  obtain ⟨hpos, hlen, -⟩ := history_core hc hfresh hv hwf h256 hon (Nat.zero_le E) hacc
  rw [hlen, expected_length] at hpos
  cases p <;> simp at hpos

-- (`hfresh`, `hv`, `hwf` are not needed by the proof)
set_option linter.unusedVariables false in
/-- if the tree fails to retire version `v-1` in the very epoch of version `v` (stale leaf missing, or
stamped with another epoch), no proof covering version `v ≥ 2` verifies.  Here the tree is only
required to hold the FRESH leaves honestly (`fresh_only`). -/
theorem late_stale_rejected (c : Cfg) (hc : c.Lawful) (hfresh : C05.EmptyLabelFresh c)
    (vrf : VrfTable) (hv : VrfOK vrf)
    (t : CRoot) (hwf : t.WF) (h256 : C05.Leaves256 t)
    (u : Bytes) (E : Nat) (π : HistoryProof) (p : HistoryParams) (allow : Bool)
    (up : UpdateProof) (hup : up ∈ π.updates) (hver : 2 ≤ up.version)
    (hbad : ∀ l lf, vrf.get? ⟨u, false, up.version - 1⟩ = some l → lf ∈ t.leaves → lf.lbl = l.bits →
        ¬ (lf.value = c.staleValue ∧ lf.ep = up.epoch)) :
    ∀ rs, Verify.history c vrf (t.rootHash c) E u π p allow ≠ .ok rs := by
  intro rs hacc
  obtain ⟨past, future, -, hu, -⟩ := Snd.history_ok hacc
  obtain ⟨-, hsingle⟩ := Snd.verifyUpdates_ok _ _ _ hu
  obtain ⟨-, -, h2⟩ := Snd.singleUpdate_ok (hsingle up hup)
  obtain ⟨pv, pp, hs⟩ := h2 hver
  obtain ⟨h1, hget, hmem⟩ := Snd.existenceWithCommitment_ok hs
  obtain ⟨lf, hlf, hl, hval, hep⟩ := Snd.leaf_of_membership c hc t h256 pp _ _ h1 hmem
  exact hbad pp.label lf hget hlf hl ⟨hval, hep⟩

/-! ## non-vacuity: the hypotheses hold together, and proofs are accepted

The setting of `C06.Ex`: label `u` with versions 1 (epoch 1) and 2 (epoch 3), 256-bit labels,
current epoch 3.  `C06.Ex.honest : HonestFor cfg key vrf t u vs`. -/
namespace Ex
open C06.Ex NodeLabel

def up2 : UpdateProof :=
  ⟨3, [20], 2, some ⟨u, true, 2⟩, t.genMembership cfg bF2,
    some (some ⟨u, false, 1⟩), some (t.genMembership cfg bS1), cfg.nonce key (ofBits bF2) 2 [20]⟩
def up1 : UpdateProof :=
  ⟨1, [10], 1, some ⟨u, true, 1⟩, t.genMembership cfg bF1, none, none, cfg.nonce key (ofBits bF1) 1 [10]⟩
/-- version 1 carried as a tombstone, with a WRONG epoch (2 instead of 1) -/
def up1Tomb : UpdateProof :=
  ⟨2, [], 1, some ⟨u, true, 1⟩, t.genMembership cfg bF1, none, none, .raw []⟩

/-- markers for the ranges `[1,2]` and `[2,2]` at epoch 3: no past marker, future marker 3 -/
def proofOf (ups : List UpdateProof) : HistoryProof :=
  ⟨ups, [], [], [some ⟨u, true, 3⟩], [t.genNonMembership cfg bF3]⟩

/-- all hypotheses of `history_sound` hold together, including acceptance, for both parameters -/
example : cfg.Lawful ∧ C05.EmptyLabelFresh cfg ∧ VrfOK vrf ∧ t.WF ∧ C05.Leaves256 t ∧
    HonestFor cfg key vrf t u vs ∧ vs.length ≤ 3 ∧
    Verify.history cfg vrf (t.rootHash cfg) 3 u (proofOf [up2, up1]) .complete false
      = .ok ((expected vs .complete).map resultOf) ∧
    Verify.history cfg vrf (t.rootHash cfg) 3 u (proofOf [up2]) (.mostRecent 1) false
      = .ok ((expected vs (.mostRecent 1)).map resultOf) :=
  ⟨Cfg.whatsappV1_lawful, C05.emptyLabelFresh_whatsappV1, vrfOK, wf, leaves256, honest, by decide,
    by decide +kernel, by decide +kernel⟩

/-- the exception in `history_sound_tombstone` is needed (finding C07-F1): in allow-mode a version-1
entry with the empty value is accepted with an epoch that is not the true one -/
example :
    Verify.history cfg vrf (t.rootHash cfg) 3 u (proofOf [up2, up1Tomb]) .complete true
      = .ok [⟨3, 2, [20]⟩, ⟨2, 1, []⟩] ∧
    (expected vs .complete).map resultOf = [⟨3, 2, [20]⟩, ⟨1, 1, [10]⟩] :=
  ⟨by decide +kernel, by decide⟩

/-- … and the strict verifier rejects it -/
example : ∀ rs, Verify.history cfg vrf (t.rootHash cfg) 3 u (proofOf [up2, up1Tomb]) .complete false ≠ .ok rs := by
  intro rs h
  have := history_sound cfg Cfg.whatsappV1_lawful C05.emptyLabelFresh_whatsappV1 key vrf vrfOK t wf
    leaves256 u vs honest 3 (by decide) _ _ rs h
  subst this
  revert h
  decide +kernel

end Ex

end Akd.C07
