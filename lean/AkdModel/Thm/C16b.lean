/-
C16 (and C13), concurrent part — a read-through cache fill can never leave an older version of a
record in the cache than the database holds, whatever the interleaving of readers, the writer and
expiry; with the pinned code (`Proto.legacy`) it can, and the stale entry stays until it expires —
for the epoch record, which never expires, until the next write or flush.
-/
import AkdModel.CacheFill
import AkdModel.Lemmas.CacheFillLemmas
namespace Akd.CacheFill

/-- **coherence** in every reachable state of the repaired protocol -/
theorem coherent_reachable (n : Nat) (sched : List Act) (s : Sys)
    (hrun : run .fixed (init n) sched = some s) (hne : NoEvictInFill .fixed (init n) sched) :
    Coherent s := by
  exact (inv_reachable n sched s hrun hne).coh

/-- corollary: when no write is in flight, a cached entry is the database's record -/
theorem quiescent_cache_exact (n : Nat) (sched : List Act) (s : Sys)
    (hrun : run .fixed (init n) sched = some s) (hne : NoEvictInFill .fixed (init n) sched)
    (hw : s.w = .idle) (v : Nat) (hc : s.cache = some v) : v = s.db := by
  rcases (inv_reachable n sched s hrun hne).coh v hc with h | h
  · exact h
  · exact absurd hw h.1

/-- every answer served from the cache is the version the database held at that moment or the one before it (the reader
lag C13 allows), never older -/
theorem answers_recent (n : Nat) (sched : List Act) (s : Sys)
    (hrun : run .fixed (init n) sched = some s) (hne : NoEvictInFill .fixed (init n) sched) :
    ∀ a ∈ s.answers, a.1 = a.2 ∨ a.1 + 1 = a.2 := by
  exact (inv_reachable n sched s hrun hne).ans

/-- the pinned code: a stale fill overwrites the newer entry and stays (found by the scheduler on
the real code as `cachefill-unpublished-epoch-hash`) -/
theorem stale_fill_witness :
    ∃ sched s, run .legacy (init 1) sched = some s ∧ NoEvictInFill .legacy (init 1) sched ∧
      s.w = .idle ∧ s.cache = some 0 ∧ s.db = 1 := by
  refine ⟨[.reader 0, .reader 0, .writer, .writer, .writer, .reader 0], _, rfl, ?_, rfl, rfl, rfl⟩
  simp [NoEvictInFill, step, init, setR]

/-- the same schedule under the repaired protocol leaves the cache exact -/
theorem stale_fill_witness_fixed :
    ∃ s, run .fixed (init 1) [.reader 0, .reader 0, .writer, .writer, .writer, .reader 0] = some s ∧
      s.cache = some 1 ∧ s.db = 1 := by
  exact ⟨_, rfl, rfl, rfl⟩

/-- the residual window, stated: if the entry expires BETWEEN the generation check and the insertion
of one `fill` call, the stale value is cached -/
theorem evict_in_fill_witness :
    ∃ sched s, run .fixed (init 1) sched = some s ∧ s.w = .idle ∧ s.cache = some 0 ∧ s.db = 1 := by
  exact ⟨[.reader 0, .reader 0, .reader 0, .writer, .writer, .writer, .evict, .reader 0], _, rfl,
    rfl, rfl, rfl⟩

/-- non-vacuity: a schedule with writes, reads, hits, misses and evictions satisfying the hypothesis -/
example : NoEvictInFill .fixed (init 2)
    [.reader 0, .writer, .reader 0, .reader 1, .writer, .reader 0, .writer, .evict, .reader 1, .reader 1, .reader 1, .reader 1] := by
  simp [NoEvictInFill, step, init, setR]

end Akd.CacheFill
