/-
C09 — an accepted audit proof implies nothing committed earlier was removed or altered.

`T₁`, `T₂` are the (well-formed) tries whose root hashes are the consecutive published hashes; the
single-epoch proof `p` is ANY value.  The auditor model is `Auditor.consecutive` (`Verify.lean`):
the repaired code (fix D2: node labels well-formed and pairwise prefix-free), which rebuilds two
trees with the real insertion algorithm (`NodeStore.batchInsert` in auditor mode) — so the theorem
goes through the refinement theorem `C01.batchInsert_refines`.
-/
import AkdModel.Verify
import AkdModel.Thm.C01b
import AkdModel.Thm.C05
import AkdModel.Lemmas.AuditLemmas
namespace Akd.C09
open Akd

/-- the root hash of a trie whose leaves are hashed in mode `m` -/
def rootHashM (c : Cfg) (m : HashMode) (t : CRoot) : Dig := c.rootHash (t.value c m)

/-- elements as opaque leaves (the epoch is irrelevant in `noLeafEpoch` mode) -/
def asLeaves (els : List (BitStr × Dig)) (ep : Nat) : List Leaf := els.map fun x => ⟨x.1, x.2, ep⟩

/-- the auditor's rebuild computes the canonical trie over the node set (for well-formed,
prefix-free labels): an instance of the refinement theorem -/
theorem rebuildRoot_canonical (c : Cfg) (hc : c.emptyLabel.len = 0) (els : List (BitStr × Dig))
    (latest : Option Nat)
    (hpf : C01.PrefixFree (asLeaves els 0))
    (hlen : ∀ x ∈ els, 1 ≤ x.1.length ∧ x.1.length ≤ 256) :
    Auditor.rebuildRoot c (els.map fun x => ⟨NodeLabel.ofBits x.1, x.2⟩) latest
      = .ok (rootHashM c .noLeafEpoch (CRoot.ofLeaves (asLeaves els 0))) :=
  Aud.rebuildRoot_canonical c hc els latest hpf hlen

/-- the check added by the repair accepts exactly the well-formed prefix-free label sets -/
theorem labelsPrefixFree_iff (ls : List NodeLabel) :
    Auditor.labelsPrefixFree ls = true ↔
      (∀ l ∈ ls, l.len ≤ 256 ∧ l.Normalised) ∧
      ls.Pairwise (fun a b => ¬ a.bits <+: b.bits ∧ ¬ b.bits <+: a.bits) :=
  Aud.labelsPrefixFree_iff ls

/-- **audit soundness, one epoch** (full strength for the repaired auditor) -/
theorem audit_sound (c : Cfg) (hc : c.Lawful) (hce : c.emptyLabel.len = 0) (hfresh : C05.EmptyLabelFresh c)
    (T₁ T₂ : CRoot) (h₁ : T₁.WF) (h₂ : T₂.WF)
    (hl₁ : ∀ lf ∈ T₁.leaves, lf.lbl.length ≤ 256) (hl₂ : ∀ lf ∈ T₂.leaves, lf.lbl.length ≤ 256)
    (p : NodeStore.SingleAppendOnlyProof) (e : Nat)
    (hacc : Auditor.consecutive c p (T₁.rootHash c) (T₂.rootHash c) e = .ok ()) :
    ∀ lf ∈ T₁.leaves, lf ∈ T₂.leaves :=
  Aud.consecutive_sound c hc hce hfresh T₁ T₂ h₁ h₂ hl₁ hl₂ p e hacc

/-- … lifted to `audit_verify` over any number of epochs: with `hashes[i]` the root hash of `Ts[i]` -/
theorem audit_verify_sound (c : Cfg) (hc : c.Lawful) (hce : c.emptyLabel.len = 0) (hfresh : C05.EmptyLabelFresh c)
    (Ts : List CRoot) (hwf : ∀ t ∈ Ts, t.WF ∧ ∀ lf ∈ t.leaves, lf.lbl.length ≤ 256)
    (p : NodeStore.AppendOnlyProof)
    (hacc : Auditor.verify c (Ts.map (CRoot.rootHash c)) p = .ok ()) :
    ∀ (i j : Nat), i ≤ j → ∀ (t₁ t₂ : CRoot), Ts[i]? = some t₁ → Ts[j]? = some t₂ → ∀ lf ∈ t₁.leaves, lf ∈ t₂.leaves :=
  Aud.verify_sound c hc hce hfresh Ts hwf p hacc

/-- inconsistent list lengths are rejected -/
theorem length_mismatch_rejected (c : Cfg) (hashes : List Dig) (p : NodeStore.AppendOnlyProof)
    (h : p.epochs.length + 1 ≠ hashes.length ∨ p.epochs.length ≠ p.proofs.length) :
    Auditor.verify c hashes p ≠ .ok () := by
  unfold Auditor.verify
  rcases h with h | h
  · rw [if_pos h]; intro h'; cases h'
  · split
    · intro h'; cases h'
    · intro h'; cases h'

/-- replacing a root hash by a different value makes verification fail -/
theorem root_substitution_rejected (c : Cfg) (p : NodeStore.SingleAppendOnlyProof) (s e e' : Dig) (ep : Nat)
    (h : e ≠ e') :
    ¬ (Auditor.consecutive c p s e ep = .ok () ∧ Auditor.consecutive c p s e' ep = .ok ()) := by
  rintro ⟨h1, h2⟩
  have a := ((Aud.consecutive_ok c p s e ep).mp h1).2.2.2
  have b := ((Aud.consecutive_ok c p s e' ep).mp h2).2.2.2
  rw [a] at b
  exact h (Except.ok.inj b)

/-! ## the auditor of the pinned commit was not sound (defect D2) -/

/-- unchanged = {node "0", leaf "1…"}, inserted = {a leaf extending "0"}: the sub-trie under "0"
silently disappears from the rebuilt tree, and the proof verifies against that tree's root hash. -/
def d2T1 : CRoot :=
  CRoot.ofLeaves [⟨[false, false], .raw [1], 1⟩, ⟨[false, true], .raw [2], 1⟩, ⟨[true], .raw [3], 1⟩]

/-- the tree the server publishes next: only a new leaf under "0" (the two old leaves are GONE) and "1" -/
def d2T2Hash (c : Cfg) : Dig :=
  match Auditor.rebuildRoot c
      [⟨NodeLabel.ofBits [false], (match d2T1.l with | some t => t.azks c .withLeafEpoch | none => .raw []),⟩,
       ⟨NodeLabel.ofBits [true], c.leafHash (.raw [3]) 1⟩,
       ⟨NodeLabel.ofBits [false, false, false, true], c.leafHash (.raw [9]) 2⟩] (some 1) with
  | .ok h => h
  | .error _ => .raw []

def d2Proof (c : Cfg) : NodeStore.SingleAppendOnlyProof :=
  { unchanged := [⟨NodeLabel.ofBits [false], (match d2T1.l with | some t => t.azks c .withLeafEpoch | none => .raw [])⟩,
                  ⟨NodeLabel.ofBits [true], c.leafHash (.raw [3]) 1⟩],
    inserted := [⟨NodeLabel.ofBits [false, false, false, true], .raw [9]⟩] }

attribute [local instance] Aud.decEqResult

theorem audit_unsound_witness :
    Auditor.consecutiveLegacy Cfg.whatsappV1 (d2Proof Cfg.whatsappV1) (d2T1.rootHash Cfg.whatsappV1)
        (d2T2Hash Cfg.whatsappV1) 2 = .ok () ∧
    Auditor.consecutiveLegacy Cfg.experimental (d2Proof Cfg.experimental) (d2T1.rootHash Cfg.experimental)
        (d2T2Hash Cfg.experimental) 2 = .ok () := by
  exact ⟨by decide +kernel, by decide +kernel⟩

/-- the repaired auditor rejects it -/
theorem audit_witness_rejected :
    Auditor.consecutive Cfg.whatsappV1 (d2Proof Cfg.whatsappV1) (d2T1.rootHash Cfg.whatsappV1)
        (d2T2Hash Cfg.whatsappV1) 2 ≠ .ok () := by
  decide +kernel

/-! ### a stronger witness (added): the end hash is the root hash of a WELL-FORMED trie

`d2T2Hash` above is the hash of a non-canonical tree (the rebuilt node "0" has a single child), so
the witness above does not contradict the conclusion of `audit_sound` literally.  This one does:
both hashes are root hashes of well-formed tries, the legacy auditor accepts, and two leaves of the
first trie are missing from the second. -/

def d2T2wf : CRoot :=
  CRoot.ofLeaves [⟨[false, false, false], .raw [9], 2⟩, ⟨[false, true, true], .raw [10], 2⟩, ⟨[true], .raw [3], 1⟩]

def d2ProofWf (c : Cfg) : NodeStore.SingleAppendOnlyProof :=
  { unchanged := (d2Proof c).unchanged,
    inserted := [⟨NodeLabel.ofBits [false, false, false], .raw [9]⟩,
                 ⟨NodeLabel.ofBits [false, true, true], .raw [10]⟩] }

theorem audit_unsound_witness_wf :
    d2T1.WF ∧ d2T2wf.WF ∧
    Auditor.consecutiveLegacy Cfg.whatsappV1 (d2ProofWf Cfg.whatsappV1) (d2T1.rootHash Cfg.whatsappV1)
        (d2T2wf.rootHash Cfg.whatsappV1) 2 = .ok () ∧
    Auditor.consecutiveLegacy Cfg.experimental (d2ProofWf Cfg.experimental) (d2T1.rootHash Cfg.experimental)
        (d2T2wf.rootHash Cfg.experimental) 2 = .ok () ∧
    (∃ lf ∈ d2T1.leaves, lf ∉ d2T2wf.leaves) :=
  ⟨by decide +kernel, by decide +kernel, by decide +kernel, by decide +kernel,
    ⟨[false, false], .raw [1], 1⟩, by decide +kernel, by decide +kernel⟩

theorem audit_witness_wf_rejected :
    Auditor.consecutive Cfg.whatsappV1 (d2ProofWf Cfg.whatsappV1) (d2T1.rootHash Cfg.whatsappV1)
        (d2T2wf.rootHash Cfg.whatsappV1) 2 ≠ .ok () ∧
    Auditor.consecutive Cfg.experimental (d2ProofWf Cfg.experimental) (d2T1.rootHash Cfg.experimental)
        (d2T2wf.rootHash Cfg.experimental) 2 ≠ .ok () :=
  ⟨by decide +kernel, by decide +kernel⟩

end Akd.C09
