/-
C17 — node-label operations agree with their bit-string meaning.

Statements only change with the property; helper lemmas live in `Lemmas/LabelLemmas.lean`.
-/
import AkdModel.Label
import AkdModel.Bits
import AkdModel.Lemmas.LabelLemmas
namespace Akd.C17
open Akd NodeLabel

/-- prefix test = prefix of bit strings, for every pair of labels of length ≤ 256
(no assumption on the bits beyond the length, no assumption on byte alignment). -/
theorem isPrefixOf_iff (a b : NodeLabel) (ha : a.len ≤ 256) (hb : b.len ≤ 256) :
    a.isPrefixOf b = true ↔ a.bits <+: b.bits := by
  exact (isPrefixOf_iff' a b hb).trans (bits_prefix_iff a b ha hb).symm

/-- prefix extraction: the first `n` bits are kept, everything beyond is cleared. -/
theorem getPrefix_spec (a : NodeLabel) (n : Nat) (hn : n < 256) :
    (a.getPrefix n).len = n ∧
    (a.getPrefix n).bits256 = a.bits256.take n ++ List.replicate (256 - n) false := by
  exact ⟨getPrefix_len a n hn, bits256_getPrefix a n hn⟩

theorem getPrefix_ge (a : NodeLabel) (n : Nat) (hn : 256 ≤ n) : a.getPrefix n = a := by
  simp [getPrefix, hn]

theorem bits_getPrefix (a : NodeLabel) (n : Nat) (hn : n ≤ a.len) (ha : a.len ≤ 256) :
    (a.getPrefix n).bits = a.bits.take n := by
  exact bits_getPrefix_le a n hn ha

/-- longest common prefix = longest common prefix of the bit strings, and the result is normalised
(unless it is a full 256-bit operand returned as is). -/
theorem lcp_spec (e a b : NodeLabel) (hae : a ≠ e) (hbe : b ≠ e)
    (ha : a.len ≤ 256) (hb : b.len ≤ 256) :
    (lcp e a b).bits = BitStr.commonPrefix a.bits b.bits ∧
    (lcp e a b).len = (BitStr.commonPrefix a.bits b.bits).length ∧
    ((lcp e a b).len < 256 → (lcp e a b).Normalised) := by
  have hla : a.bits.length = a.len := by rw [bits_length]; omega
  obtain ⟨r, hr1, hr2, hr3, hr4⟩ := lcp_spec' e a b hae hbe ha hb
  rw [hr3, hr4]
  refine ⟨bits_getPrefix a r hr1 ha, ?_, ?_⟩
  · by_cases h : r < 256
    · rw [getPrefix_len a r h, List.length_take, hla]; omega
    · rw [getPrefix_ge a r (by omega), List.length_take, hla]; omega
  · intro hlt
    by_cases h : r < 256
    · exact getPrefix_normalised a r h
    · rw [getPrefix_ge a r (by omega)] at hlt; omega

theorem lcp_empty (e a b : NodeLabel) (h : a = e ∨ b = e) : lcp e a b = e := by
  unfold lcp
  rcases h with h | h <;> simp [h]

/-- child direction: `WithZero`/`WithOne` iff the label followed by that bit is a prefix. -/
theorem prefixOrdering_spec (a b : NodeLabel) (ha : a.len ≤ 256) (hb : b.len ≤ 256) :
    (a.prefixOrdering b = .withZero ↔ (a.bits ++ [false]) <+: b.bits) ∧
    (a.prefixOrdering b = .withOne ↔ (a.bits ++ [true]) <+: b.bits) := by
  exact ⟨(prefixOrdering_iff a b hb false).trans (snoc_prefix_bits_iff a b ha hb false).symm,
    (prefixOrdering_iff a b hb true).trans (snoc_prefix_bits_iff a b ha hb true).symm⟩

/-- ordering: by length, then lexicographically on all 256 bits. -/
theorem cmp_spec (a b : NodeLabel) :
    NodeLabel.cmp a b = (compare a.len b.len).then (BitStr.lex a.bits256 b.bits256) := by
  exact cmp_eq a b

/-- round trip between bit strings and normalised labels -/
theorem bits_ofBits (bs : BitStr) (h : bs.length ≤ 256) : (ofBits bs).bits = bs := by
  rw [bits, bits256_ofBits bs h]
  simp [ofBits]

theorem ofBits_normalised (bs : BitStr) (h : bs.length ≤ 256) : (ofBits bs).Normalised := by
  unfold Normalised
  rw [bits_ofBits bs h, bits256_ofBits bs h]
  simp [ofBits]

/-- normalised labels of length ≤ 256 are determined by their bit string -/
theorem ofBits_bits (l : NodeLabel) (h : l.len ≤ 256) (hn : l.Normalised) : ofBits l.bits = l := by
  have hlen : l.bits.length = l.len := by rw [bits_length]; omega
  have h1 : (ofBits l.bits).val = l.val := by
    apply val_eq_of_bits256
    rw [bits256_ofBits _ (by omega), hlen]
    exact hn.symm
  have h2 : (ofBits l.bits).len = l.len := hlen
  cases l
  simp_all [ofBits]

/-! ### label sets: binary-search implementations = linear ones -/

/-- the hypotheses under which the code uses the sorted representation -/
structure SortedSameLen {α} (xs : List (NodeLabel × α)) (L : Nat) : Prop where
  sameLen : ∀ x ∈ xs, x.1.len = L
  le256 : L ≤ 256
  sorted : xs.Pairwise (fun x y => NodeLabel.cmp x.1 y.1 ≠ .gt)

-- (`hpl` is not needed by the proof: it follows from `hp` whenever `xs` is non-empty)
set_option linter.unusedVariables false in
theorem partition_sorted_eq_linear {α} (xs : List (NodeLabel × α)) (L : Nat) (p : NodeLabel)
    (h : SortedSameLen xs L) (hp : ∀ x ∈ xs, p.isPrefixOf x.1 = true) (hpl : p.len ≤ 256) :
    ((ElementSet.binarySearchable xs).partition p).1.elems
        = ((ElementSet.unsorted xs).partition p).1.elems ∧
    ((ElementSet.binarySearchable xs).partition p).2.elems
        = ((ElementSet.unsorted xs).partition p).2.elems := by
  exact partition_eq xs L p h.sameLen h.le256 h.sorted hp

set_option linter.unusedVariables false in
/-- STATEMENT CHANGE: the hypothesis `he0` was added.  Without it the statement is false: the
linear fold short-circuits to `e` as soon as an intermediate common prefix happens to *be* `e`,
which is only harmless when `e` stands for the empty bit string (as `empty_label()` does in every
configuration, `label_len = 0`) or cannot be produced at all (`L < e.len`).  See
`setLcp_counterexample` below.  (`hL` is not needed by the proof.) -/
theorem setLcp_sorted_eq_linear {α} (e : NodeLabel) (xs : List (NodeLabel × α)) (L : Nat)
    (h : SortedSameLen xs L) (he : ∀ x ∈ xs, x.1 ≠ e) (hne : xs ≠ []) (hL : 0 < L)
    (he0 : e.len = 0 ∨ L < e.len) :
    ((ElementSet.binarySearchable xs).setLcp e).bits
        = ((ElementSet.unsorted xs).setLcp e).bits := by
  exact setLcp_eq e xs L h.sameLen h.le256 h.sorted he hne he0

/-- Counterexample to `setLcp_sorted_eq_linear` without `he0`: `e = (00…0, len 3)`, and the sorted
8-bit labels `00000000`, `00010000`, `10000000`.  All original hypotheses hold, the sorted
representation answers `[]`, the linear one `[false, false, false]`. -/
theorem setLcp_counterexample :
    let lbl (b : UInt8) (n : Nat) : NodeLabel := ⟨(Vector.replicate 32 0).set 0 b, n⟩
    let e := lbl 0 3
    let xs : List (NodeLabel × Unit) := [(lbl 0x00 8, ()), (lbl 0x10 8, ()), (lbl 0x80 8, ())]
    SortedSameLen xs 8 ∧ (∀ x ∈ xs, x.1 ≠ e) ∧ xs ≠ [] ∧
      ((ElementSet.binarySearchable xs).setLcp e).bits = [] ∧
      ((ElementSet.unsorted xs).setLcp e).bits = [false, false, false] := by
  refine ⟨⟨by decide +kernel, by decide, by decide +kernel⟩, by decide +kernel, by decide,
    by decide +kernel, by decide +kernel⟩

-- (`hn` is not needed by the proof: when `p` is not a prefix of `c` the byte comparison is
-- already decided within the first `p.len` bits, so the bits of `p` beyond `p.len` are never looked at)
set_option linter.unusedVariables false in
theorem containsPrefix_sorted_eq_linear {α} (xs : List (NodeLabel × α)) (L : Nat) (p : NodeLabel)
    (h : SortedSameLen xs L) (hp : p.len ≤ L) (hn : p.Normalised) :
    (ElementSet.binarySearchable xs).containsPrefix p
        = (ElementSet.unsorted xs).containsPrefix p := by
  exact containsPrefix_eq xs L p h.sameLen h.le256 h.sorted hp

/-- sorting does what the sorted representation assumes -/
theorem sortByLabel_sorted {α} (xs : List (NodeLabel × α)) :
    (sortByLabel xs).Pairwise (fun x y => NodeLabel.cmp x.1 y.1 ≠ .gt) ∧
    (sortByLabel xs).Perm xs := by
  exact sortByLabel_sorted' xs

/-! ### non-vacuity -/
example : (ofBits [true, false, true]).len ≤ 256 := by decide

end Akd.C17
