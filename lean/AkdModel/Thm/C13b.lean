/-
C13, last clause — "once change polling has signalled a new epoch, later requests on that instance are
answered from an epoch at least that new".

Model: `AkdModel/Poll.lean` (poller, requests, publishes by another instance, every interleaving).
The clause holds when every request is guarded by the cache lock; it FAILS for an unguarded request
(`unguarded_witness`: the schedule the storage-call scheduler found on the pinned code, defect D12:
`get_epoch_hash` did not take the lock; repaired in /repo).
-/
import AkdModel.Poll
import AkdModel.Lemmas.PollLemmas
namespace Akd.Poll

/-- **the clause**: in every reachable state of an instance all of whose requests are guarded, every answer
is from an epoch at least as new as the newest epoch signalled before the request started -/
theorem answers_after_signal (e : Nat) (guards : List Bool) (hg : ∀ g ∈ guards, g = true)
    (sched : List Act) (s : Sys) (hrun : run (init e guards) sched = some s) :
    ∀ a ∈ s.answers, a.1 ≤ a.2 := by
  exact (inv_reachable e guards hg sched s hrun).ans

/-- what is signalled has been published, and the cached epoch record is never older than what was signalled
(outside the poller's critical section) -/
theorem signalled_is_served (e : Nat) (guards : List Bool) (hg : ∀ g ∈ guards, g = true)
    (sched : List Act) (s : Sys) (hrun : run (init e guards) sched = some s) :
    s.sig ≤ s.db ∧ (s.wlock = false → ∀ v, s.cache = some v → s.sig ≤ v ∧ v ≤ s.db) := by
  have h := inv_reachable e guards hg sched s hrun
  exact ⟨h.sig_le_db, h.cache_fresh⟩

/-- no request is under way while the poller flushes and re-fetches -/
theorem flush_excludes_requests (e : Nat) (guards : List Bool) (hg : ∀ g ∈ guards, g = true)
    (sched : List Act) (s : Sys) (hrun : run (init e guards) sched = some s) (hw : s.wlock = true) :
    ∀ r ∈ s.rs, r.pc = .idle := by
  exact (inv_reachable e guards hg sched s hrun).excl hw

/-- answers never go back behind the epoch the instance started from -/
theorem answers_not_before_start (e : Nat) (guards : List Bool) (hg : ∀ g ∈ guards, g = true)
    (sched : List Act) (s : Sys) (hrun : run (init e guards) sched = some s) :
    ∀ a ∈ s.answers, e ≤ a.2 := by
  exact (inv_reachable e guards hg sched s hrun).ans_ge_start

/-- defect D12 (pinned code): with ONE unguarded request slot the clause fails — the epoch record read before
the second publish is cached between the poller's flush and its re-fetch; the poller signals epoch 4 and the next
request is answered from epoch 3 -/
theorem unguarded_witness :
    ∃ sched s, run (init 2 [false]) sched = some s ∧ (4, 3) ∈ s.answers := by
  refine ⟨[.publish, .poller, .poller, .poller, .poller, .reader 0, .reader 0, .poller, .poller,
           .publish, .poller, .poller, .poller, .reader 0, .poller, .reader 0, .reader 0, .reader 0], _, rfl, ?_⟩
  decide

/-- the same schedule is not executable when the slot is guarded (the request waits for the poller) -/
theorem unguarded_witness_blocked :
    run (init 2 [true]) [.publish, .poller, .poller, .poller, .poller, .reader 0] = none := by
  rfl

/-- non-vacuity: a guarded instance on which publishes, a detection that has to wait for a request, a flush, a
re-fetch and answers before and after the signal all occur (a guarded request never finds the epoch record vacant:
it is vacant only inside the poller's critical section) -/
example : ∃ s, run (init 2 [true, true])
    [.reader 0, .publish, .poller, .reader 0, .poller, .poller, .poller, .poller, .poller, .reader 1, .reader 1,
     .publish, .reader 0, .reader 0] = some s ∧ s.answers = [(0, 2), (3, 3), (3, 3)] ∧ s.sig = 3 := by
  exact ⟨_, rfl, rfl, rfl⟩

/-- the poller cannot take the lock while a guarded request is under way -/
example : run (init 2 [true]) [.reader 0, .publish, .poller, .poller] = none := by rfl

end Akd.Poll
