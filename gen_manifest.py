#!/usr/bin/env python3
"""Regenerates MANIFEST.json from checks/props.py (claimed properties) and checks/claims.py (texts)."""
import json, os, sys
ROOT = os.path.dirname(os.path.abspath(__file__))
sys.path.insert(0, os.path.join(ROOT, "checks"))
from props import PROPS
from claims import CLAIMS, NOT_YET

allp = [json.loads(l)["id"] for l in open(os.path.join(ROOT, "properties.jsonl"))]
checks = []
for pid in allp:
    if pid in PROPS and pid in CLAIMS:
        c = CLAIMS[pid]
        checks.append({
            "property_id": pid,
            "quick_cmd": f"./check {pid} --tier quick",
            "thorough_cmd": f"./check {pid} --tier thorough",
            "evidence_file": f"evidence/{pid}.json",
            "replay_cmd_template": f"./check {pid} --replay {{path}}",
            "engine": "lean4-model+correspondence",
            "level_claimed": {"category": "proof", "text": c["text"], "design_ref": c.get("design_ref", f"DESIGN.md §7/{pid}")},
            "level_note": c["note"],
            "technique": c.get("technique", "Lean 4 theorems over a hand-written model + differential correspondence with the Rust code"),
        })
na = [{"property_id": pid, "reason": NOT_YET.get(pid, "check not built yet in this session; planned (DESIGN.md §7)")}
      for pid in allp if not (pid in PROPS and pid in CLAIMS)]
m = {
    "version": 1,
    "setup_cmd": "./check --setup",
    "hooks": {
        "guard": "akd_verif",
        "enable": "RUSTFLAGS='--cfg akd_verif' (set in harness/.cargo/config.toml; the harness crate path-depends on /repo/akd and /repo/akd_core)",
        "baseline_off_cmd": "cd /repo && cargo nextest run --workspace --no-fail-fast --tool-config-file pb:/w/lib/nextest.toml --profile pb --test-threads 8 --offline || cargo test --workspace --no-fail-fast --offline",
        "source_commits": ["e2e261a", "6d8f3f2"],
        "add_only": True,
    },
    "engines": [{
        "name": "lean4-model+correspondence", "path": "lean/ harness/ check",
        "serves_properties": [c["property_id"] for c in checks],
        "kind_free_text": "Lean 4 model (lean/AkdModel) with property theorems (lean/AkdModel/Thm), compiled model driver (lean/Drv.lean), Rust harness linking /repo in-process (harness/), python driver (check)",
    }],
    "checks": checks,
    "notes": "Every check: lake build of the property's theorem module + #print axioms audit, cargo build of the harness against /repo's working tree, generated ops run on implementation and model, diff, property oracle on the implementation, KNOWN_FINDINGS.json applied.",
    "not_applicable": na,
}
json.dump(m, open(os.path.join(ROOT, "MANIFEST.json"), "w"), indent=1)
print(f"{len(checks)} claimed, {len(na)} not claimed")
