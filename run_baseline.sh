#!/bin/bash
# Runs the repository's baseline suite (guard OFF) and prints pass/fail counts.
cd /repo && CARGO_NET_OFFLINE=true cargo nextest run --workspace --no-fail-fast --tool-config-file pb:/w/lib/nextest.toml --profile pb --test-threads 8 --offline 2>&1 | tail -40
