//! Evaluates the symbolic digests (`lean/AkdModel/Dig.lean`) in a model observation file with the
//! real hash of the configuration in force.  The byte layout of each term shape is fixed HERE and
//! is checked against the implementation every time a model digest is compared with a real one.
use crate::exec::{Exp, Wv1};
use crate::util::*;
use akd::configuration::Configuration;
use std::collections::HashMap;

fn h(cfg: &str, data: &[u8]) -> Vec<u8> {
    match cfg {
        "wv1" => Wv1::hash(data).to_vec(),
        _ => Exp::hash(data).to_vec(),
    }
}

fn label_bytes(tok: &str) -> Option<Vec<u8>> {
    let l = parse_label(tok)?;
    let mut v = l.label_len.to_be_bytes().to_vec();
    v.extend_from_slice(&l.label_val);
    Some(v)
}

fn i2osp(b: &[u8]) -> Vec<u8> {
    let mut v = (b.len() as u64).to_be_bytes().to_vec();
    v.extend_from_slice(b);
    v
}

pub struct Evaluator {
    pub cfg: String,
    memo: HashMap<(String, String), Vec<u8>>,
}

impl Evaluator {
    pub fn new() -> Self {
        Evaluator { cfg: "wv1".into(), memo: HashMap::new() }
    }

    /// parses one term starting at `s[pos] == '('`; returns (bytes, end position)
    fn term(&mut self, s: &[u8], pos: usize) -> Option<(Vec<u8>, usize)> {
        // find the matching paren to get the source text (memo key)
        let mut depth = 0;
        let mut end = pos;
        for (i, c) in s[pos..].iter().enumerate() {
            if *c == b'(' {
                depth += 1;
            } else if *c == b')' {
                depth -= 1;
                if depth == 0 {
                    end = pos + i + 1;
                    break;
                }
            }
        }
        if depth != 0 {
            return None;
        }
        let src = std::str::from_utf8(&s[pos..end]).ok()?.to_string();
        if let Some(v) = self.memo.get(&(self.cfg.clone(), src.clone())) {
            return Some((v.clone(), end));
        }
        // arguments: tokens or nested terms
        let mut args: Vec<Vec<u8>> = vec![]; // evaluated nested terms
        let mut toks: Vec<String> = vec![];
        let mut kinds: Vec<bool> = vec![]; // true = nested
        let mut i = pos + 1;
        while i < end - 1 {
            match s[i] {
                b' ' => i += 1,
                b'(' => {
                    let (v, e) = self.term(s, i)?;
                    args.push(v);
                    toks.push(String::new());
                    kinds.push(true);
                    i = e;
                }
                _ => {
                    let st = i;
                    while i < end - 1 && s[i] != b' ' {
                        i += 1;
                    }
                    toks.push(std::str::from_utf8(&s[st..i]).ok()?.to_string());
                    args.push(vec![]);
                    kinds.push(false);
                }
            }
        }
        let tag = toks.first()?.clone();
        let cfg = self.cfg.clone();
        let nested = |k: usize| -> Option<Vec<u8>> {
            if *kinds.get(k)? {
                Some(args[k].clone())
            } else {
                None
            }
        };
        let tok = |k: usize| -> Option<&String> {
            if !*kinds.get(k)? {
                toks.get(k)
            } else {
                None
            }
        };
        let out = match tag.as_str() {
            "raw" => parse_hex(tok(1)?)?,
            "hb" => h(&cfg, &parse_hex(tok(1)?)?),
            "leaf" => {
                let mut d = nested(1)?;
                d.extend_from_slice(&tok(2)?.parse::<u64>().ok()?.to_be_bytes());
                h(&cfg, &d)
            }
            "cat" => {
                let mut d = nested(1)?;
                d.extend(nested(2)?);
                h(&cfg, &d)
            }
            "vl" => {
                let mut d = nested(1)?;
                d.extend(h(&cfg, &label_bytes(tok(2)?)?));
                h(&cfg, &d)
            }
            "node" => {
                let mut d = nested(1)?;
                d.extend(label_bytes(tok(2)?)?);
                d.extend(nested(3)?);
                d.extend(label_bytes(tok(4)?)?);
                h(&cfg, &d)
            }
            "cm" => {
                let mut d = i2osp(&parse_hex(tok(1)?)?);
                d.extend(i2osp(&nested(2)?));
                h(&cfg, &d)
            }
            "nw" => {
                let mut d = nested(1)?;
                d.extend(label_bytes(tok(2)?)?);
                d.extend_from_slice(&tok(3)?.parse::<u64>().ok()?.to_be_bytes());
                d.extend(i2osp(&parse_hex(tok(4)?)?));
                h(&cfg, &d)
            }
            "nx" => {
                let mut d = nested(1)?;
                d.extend(label_bytes(tok(2)?)?);
                h(&cfg, &d)
            }
            _ => return None,
        };
        self.memo.insert((cfg, src), out.clone());
        Some((out, end))
    }

    pub fn line(&mut self, line: &str) -> String {
        let s = line.as_bytes();
        let mut out = String::with_capacity(line.len());
        let mut i = 0;
        while i < s.len() {
            if s[i] == b'(' {
                match self.term(s, i) {
                    Some((v, e)) => {
                        out.push_str(&hex_or_dash(&v));
                        i = e;
                    }
                    None => {
                        out.push('(');
                        i += 1;
                    }
                }
            } else {
                // copy one UTF-8 scalar
                let ch_len = match s[i] {
                    b if b < 0x80 => 1,
                    b if b >> 5 == 0b110 => 2,
                    b if b >> 4 == 0b1110 => 3,
                    _ => 4,
                };
                out.push_str(std::str::from_utf8(&s[i..(i + ch_len).min(s.len())]).unwrap_or("?"));
                i += ch_len;
            }
        }
        out
    }
}
