//! `l1.trie`: tries built directly through `Azks::batch_insert_nodes`, honest (non-)membership
//! proofs for members and non-members sharing prefixes of every length, and the symbolic adversary.
use crate::rng::Rng;
use crate::util::*;
use akd::NodeLabel;

fn label256(prefix: &[bool], rng: &mut Rng) -> NodeLabel {
    let mut b = prefix.to_vec();
    while b.len() < 256 {
        b.push(rng.chance(1, 2));
    }
    label_of_bits(&b)
}

fn embed256(short: &[bool]) -> NodeLabel {
    // a short bit string placed at the FRONT of a 256-bit label (rest zero): keeps tree shape of depth |short|
    let mut b = short.to_vec();
    b.resize(256, false);
    label_of_bits(&b)
}

fn val(rng: &mut Rng) -> String {
    hex::encode(rng.bytes(32))
}

fn bits_of_int(v: u64, n: usize) -> Vec<bool> {
    (0..n).map(|i| (v >> (n - 1 - i)) & 1 == 1).collect()
}

/// adversarial ops around query label `x` given the honest path (ancestor labels, top first)
fn adversary(out: &mut Vec<String>, rng: &mut Rng, x: &NodeLabel, ancestors: &[NodeLabel], members: &[NodeLabel], other: &NodeLabel) {
    let sx = show_label(x);
    out.push(format!("adv.mem {sx}"));
    out.push(format!("adv.nonmem {sx}"));
    // claim "x has node N's hash and path" for every ancestor N, and the sibling-less root claim
    for a in ancestors {
        out.push(format!("adv.mem {} label:{sx}", show_label(a)));
        // every ancestor as the anchor of a non-membership proof for x
        out.push(format!("adv.nonmem {} label:{sx}", show_label(a)));
        out.push(format!("adv.nonmem {} label:{sx} swapchildren", show_label(a)));
        out.push(format!("adv.nonmem {} label:{sx} childempty:0", show_label(a)));
        out.push(format!("adv.nonmem {} label:{sx} childempty:1", show_label(a)));
        out.push(format!("adv.nonmem {} label:{sx} childlabel:{}:{}", show_label(a), rng.below(2), show_label(other)));
    }
    out.push(format!("adv.mem {} label:{sx}", show_label(&NodeLabel::root())));
    out.push(format!("adv.mem {sx} hashroot droptop:300"));
    out.push(format!("adv.mem {sx} droptop:1"));
    out.push(format!("adv.mem {sx} dropbottom:1"));
    out.push(format!("adv.mem {sx} hashzero"));
    let depth = ancestors.len();
    for i in 0..depth.min(4) {
        out.push(format!("adv.mem {sx} flip:{i}"));
        out.push(format!("adv.mem {sx} hashsib:{i}"));
        out.push(format!("adv.mem {sx} siblabel:{i}:{}", show_label(other)));
        out.push(format!("adv.mem {sx} parentlabel:{i}:{}", show_label(other)));
        out.push(format!("adv.mem {sx} swapsib:{i}:{}", (i + 1) % depth.max(1)));
    }
    // bits beyond label_len / bit flips in the claimed label
    let mut v = x.label_val;
    v[31] ^= 1;
    out.push(format!("adv.mem {sx} label:{}", show_label(&NodeLabel::new(v, 256))));
    let mut v0 = x.label_val;
    v0[0] ^= 0x80;
    out.push(format!("adv.mem {sx} label:{}", show_label(&NodeLabel::new(v0, 256))));
    out.push(format!("adv.nonmem {sx} label:{}", show_label(&NodeLabel::new(v, 256))));
    // proofs of other members presented for x
    for m in members.iter().take(3) {
        out.push(format!("adv.mem {} label:{sx}", show_label(m)));
        out.push(format!("adv.nonmem {} label:{sx}", show_label(m)));
    }
    out.push(format!("adv.nonmem {sx} mp:hashroot mp:droptop:300"));
    out.push(format!("adv.nonmem {sx} mp:droptop:1"));
    out.push(format!("adv.nonmem {sx} lp:{}", show_label(&NodeLabel::root())));
}

fn ancestors_of(x: &NodeLabel, members: &[NodeLabel]) -> Vec<NodeLabel> {
    // labels of the interior nodes on the way to x in the compressed trie over `members`:
    // every proper prefix p of x such that two members extend p with different next bits
    let xb = bits_of(x);
    let mb: Vec<Vec<bool>> = members.iter().map(bits_of).collect();
    let mut out = vec![];
    for n in 0..xb.len() {
        let p = &xb[..n];
        let with: Vec<&Vec<bool>> = mb.iter().filter(|m| m.len() > n && &m[..n] == p).collect();
        let z = with.iter().any(|m| !m[n]);
        let o = with.iter().any(|m| m[n]);
        if (z && o) || n == 0 {
            out.push(label_of_bits(p));
        }
    }
    out
}

fn trie_case(out: &mut Vec<String>, rng: &mut Rng, cfg: &str, batches: &[Vec<NodeLabel>], queries: &[NodeLabel], full_adv: bool) {
    out.push(format!("reset {cfg}"));
    // the empty tree: root, honest proofs
    out.push("azks.root".into());
    out.push(format!("azks.nonmem {}", show_label(&embed256(&[true]))));
    out.push(format!("adv.nonmem {}", show_label(&embed256(&[true]))));
    out.push(format!("adv.mem {}", show_label(&embed256(&[true]))));
    let mut members: Vec<NodeLabel> = vec![];
    for b in batches {
        let line = b.iter().map(|l| format!("{} {}", show_label(l), val(rng))).collect::<Vec<_>>().join(" ");
        out.push(format!("azks.insert dir {line}").trim_end().to_string());
        members.extend(b.iter().cloned());
        out.push("azks.root".into());
    }
    out.push("dir.dump".into());
    let other = embed256(&[true, false, true, true, false, true]);
    for x in members.clone().iter().chain(queries.iter()) {
        out.push(format!("azks.mem {}", show_label(x)));
        out.push(format!("azks.nonmem {}", show_label(x)));
        if full_adv {
            let anc = ancestors_of(x, &members);
            adversary(out, rng, x, &anc, &members, &other);
        } else {
            out.push(format!("adv.mem {}", show_label(x)));
            out.push(format!("adv.nonmem {}", show_label(x)));
        }
    }
}

pub fn gen_trie(rng: &mut Rng, thorough: bool, out: &mut Vec<String>) {
    // (1) exhaustive: all subsets of all labels of depth <= d embedded in 256 bits … prefix-free ones only
    let d = if thorough { 3 } else { 2 };
    let mut shorts: Vec<Vec<bool>> = vec![];
    for n in 1..=d {
        for v in 0..(1u64 << n) {
            shorts.push(bits_of_int(v, n));
        }
    }
    // embed each short string s as the 256-bit label s ++ 1 ++ 0… (distinct short strings give distinct labels,
    // and every pair shares exactly their common prefix)
    let lab = |s: &Vec<bool>| {
        let mut b = s.clone();
        b.push(true);
        embed256(&b)
    };
    let n = shorts.len();
    let limit = if thorough { 1usize << n.min(14) } else { 1usize << n.min(6) };
    let mut cfgs = ["wv1", "exp"].iter().cycle();
    for mask in 1..limit {
        let set: Vec<NodeLabel> = (0..n).filter(|i| mask >> i & 1 == 1).map(|i| lab(&shorts[i])).collect();
        if set.len() > 6 {
            continue;
        }
        let queries: Vec<NodeLabel> = shorts.iter().map(lab).filter(|l| !set.contains(l)).take(4).collect();
        // one batch, or split into two epochs
        let batches = if mask % 3 == 0 && set.len() > 1 {
            vec![set[..set.len() / 2].to_vec(), set[set.len() / 2..].to_vec()]
        } else {
            vec![set.clone()]
        };
        trie_case(out, rng, cfgs.next().unwrap(), &batches, &queries, true);
    }
    // (2) byte-boundary sets: members sharing prefixes of length 7/8/9/15/16/17/…/255
    let cuts: Vec<usize> = if thorough {
        vec![0, 1, 6, 7, 8, 9, 15, 16, 17, 31, 32, 33, 63, 64, 65, 127, 128, 129, 200, 247, 248, 249, 253, 254, 255]
    } else {
        vec![0, 7, 8, 9, 16, 64, 128, 248, 254, 255]
    };
    for cfg in ["wv1", "exp"] {
        let base: Vec<bool> = (0..256).map(|_| rng.chance(1, 2)).collect();
        let mut set = vec![label_of_bits(&base)];
        for &c in &cuts {
            let mut b = base.clone();
            b[c] = !b[c];
            for k in (c + 1)..256 {
                b[k] = rng.chance(1, 2);
            }
            set.push(label_of_bits(&b));
        }
        // queries: non-members sharing a prefix of each length with the base
        let mut queries = vec![];
        for &c in cuts.iter().take(8) {
            let mut b = base.clone();
            b[c] = !b[c];
            if c + 1 < 256 {
                b[c + 1] = !b[c + 1];
            }
            let q = label_of_bits(&b);
            if !set.contains(&q) {
                queries.push(q);
            }
        }
        let mid = set.len() / 2;
        let mut s1 = set.clone();
        rng.shuffle(&mut s1);
        trie_case(out, rng, cfg, &[s1[..mid].to_vec(), s1[mid..].to_vec()], &queries, true);
    }
    // (3) random sets
    let nr = if thorough { 30 } else { 6 };
    for i in 0..nr {
        let size = if i % 5 == 4 { 200 } else { rng.range(1, 40) as usize };
        let shared = rng.range(0, 40) as usize;
        let prefix: Vec<bool> = (0..shared).map(|_| rng.chance(1, 2)).collect();
        let mut set: Vec<NodeLabel> = (0..size).map(|_| if rng.chance(1, 2) { label256(&prefix, rng) } else { label256(&[], rng) }).collect();
        set.sort();
        set.dedup();
        rng.shuffle(&mut set);
        let nb = rng.range(1, 4) as usize;
        let chunk = (set.len() + nb - 1) / nb;
        let batches: Vec<Vec<NodeLabel>> = set.chunks(chunk.max(1)).map(|c| c.to_vec()).collect();
        let queries: Vec<NodeLabel> = (0..4).map(|_| label256(&prefix, rng)).collect();
        let members_small = size <= 40;
        trie_case(out, rng, if i % 2 == 0 { "exp" } else { "wv1" }, &batches, &queries, members_small && i % 2 == 0);
    }
}


/// the same leaf set inserted in random orders and random splits into sub-batches within ONE epoch
/// (the epoch field is reset between sub-batches); every run of a group must end in the same tree
pub fn gen_perm(rng: &mut Rng, thorough: bool, out: &mut Vec<String>) {
    let groups = if thorough { 12 } else { 4 };
    let runs = if thorough { 20 } else { 8 };
    for g in 0..groups {
        let size = rng.range(2, if g % 3 == 0 { 40 } else { 12 }) as usize;
        let shared = rng.range(0, 250) as usize;
        let prefix: Vec<bool> = (0..shared).map(|_| rng.chance(1, 2)).collect();
        let mut set: Vec<(NodeLabel, String)> = (0..size)
            .map(|_| (if rng.chance(1, 2) { label256(&prefix, rng) } else { label256(&[], rng) }, val(rng)))
            .collect();
        set.sort_by_key(|x| x.0);
        set.dedup_by_key(|x| x.0);
        let cfg = if g % 2 == 0 { "wv1" } else { "exp" };
        out.push(format!("perm.group {g}"));
        for r in 0..runs {
            let mut s = set.clone();
            rng.shuffle(&mut s);
            out.push(format!("reset {cfg}"));
            let nb = if r == 0 { 1 } else { rng.range(1, 4) as usize };
            let chunk = (s.len() + nb - 1) / nb;
            for (bi, c) in s.chunks(chunk.max(1)).enumerate() {
                if bi > 0 {
                    out.push("azks.setepoch 0".into());
                }
                let line = c.iter().map(|(l, v)| format!("{} {}", show_label(l), v)).collect::<Vec<_>>().join(" ");
                out.push(format!("azks.insert dir {line}"));
            }
            out.push("azks.root".into());
        }
        out.push("perm.end".into());
    }
}
