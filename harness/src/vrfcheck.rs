//! C18 oracle: the VRF layer through its public API.
use akd::configuration::Configuration;
use akd::ecvrf::{HardCodedAkdVRF, Proof, VRFKeyStorage, VRFPublicKey, VrfError};
use akd::{AkdLabel, AkdValue, NodeLabel, VersionFreshness};
use std::convert::TryFrom;

/// a second key, for key separation
#[derive(Clone)]
pub struct OtherKeyVRF;

#[async_trait::async_trait]
impl VRFKeyStorage for OtherKeyVRF {
    async fn retrieve(&self) -> Result<Vec<u8>, VrfError> {
        Ok(hex::decode("a1b2c3d4e5f60718293a4b5c6d7e8f90112233445566778899aabbccddeeff00").unwrap())
    }
}

/// the real `verify_label` (`verify/base.rs`, module-private; exposed by the `akd_verif` hook), and next to it
/// the same decision re-assembled from the public primitives: the two must agree
async fn verify_label<TC: Configuration>(pk: &[u8], u: &AkdLabel, f: VersionFreshness, v: u64, proof: &[u8], nl: NodeLabel) -> bool {
    let real = akd_core::verify::base::verif_verify_label::<TC>(pk, u, f, v, proof, nl).is_ok();
    let re = reassembled::<TC>(pk, u, f, v, proof, nl).await;
    if real != re {
        MISMATCH.with(|m| *m.borrow_mut() = Some(format!("verify_label says {real} where the public primitives say {re} (claimed node label length {})", nl.label_len)));
    }
    real
}

thread_local! {
    static MISMATCH: std::cell::RefCell<Option<String>> = const { std::cell::RefCell::new(None) };
}

async fn reassembled<TC: Configuration>(pk: &[u8], u: &AkdLabel, f: VersionFreshness, v: u64, proof: &[u8], nl: NodeLabel) -> bool {
    let Ok(pk) = VRFPublicKey::try_from(pk) else { return false };
    let hashed = TC::get_hash_from_label_input(u, f, v);
    let Ok(p) = Proof::try_from(proof) else { return false };
    if pk.verify(&p, &hashed).is_err() {
        return false;
    }
    HardCodedAkdVRF {}.get_node_label_from_vrf_proof(p).await == nl
}

fn other(f: VersionFreshness) -> VersionFreshness {
    match f {
        VersionFreshness::Fresh => VersionFreshness::Stale,
        VersionFreshness::Stale => VersionFreshness::Fresh,
    }
}

pub async fn check<TC: Configuration>(u: &AkdLabel, f: VersionFreshness, v: u64) -> Result<usize, (String, String)> {
    let vrf = HardCodedAkdVRF {};
    MISMATCH.with(|m| *m.borrow_mut() = None);
    let err = |t: &str, w: String| Err((t.to_string(), w));
    let pk = vrf.get_vrf_public_key().await.unwrap();
    let l1 = vrf.get_node_label::<TC>(u, f, v).await.unwrap();
    let l2 = vrf.get_node_label::<TC>(u, f, v).await.unwrap();
    if l1 != l2 {
        return err("vrf-nondeterministic", "two evaluations give different node labels".into());
    }
    let proof = vrf.get_label_proof::<TC>(u, f, v).await.unwrap();
    let l3 = vrf.get_node_label_from_vrf_proof(proof).await;
    if l3 != l1 || l1.label_len != 256 {
        return err("vrf-proof-label-differs", "the label derived from the proof differs from the label placed in the tree".into());
    }
    let batch = vrf.get_node_labels::<TC>(&[(u.clone(), f, v, AkdValue(vec![1]))]).await.unwrap();
    if batch.len() != 1 || batch[0].1 != l1 {
        return err("vrf-batch-label-differs", "get_node_labels disagrees with get_node_label".into());
    }
    let pb = proof.to_bytes().to_vec();
    let proof2 = vrf.get_label_proof::<TC>(u, f, v).await.unwrap();
    if proof2.to_bytes().to_vec() != pb {
        return err("vrf-nondeterministic", "two proofs for the same input differ".into());
    }
    if !verify_label::<TC>(pk.as_bytes(), u, f, v, &pb, l1).await {
        return err("vrf-honest-rejected", "the honest proof does not verify".into());
    }
    let mut n = 1usize;
    // single-field alterations: each must be rejected
    let mut u2 = u.clone();
    u2.0.push(0);
    let mut l_alt = l1;
    l_alt.label_val[31] ^= 1;
    let mut l_alt0 = l1;
    l_alt0.label_val[0] ^= 0x80;
    let pk2 = OtherKeyVRF {}.get_vrf_public_key().await.unwrap();
    let cases: Vec<(&str, bool)> = vec![
        ("label", verify_label::<TC>(pk.as_bytes(), &u2, f, v, &pb, l1).await),
        ("freshness", verify_label::<TC>(pk.as_bytes(), u, other(f), v, &pb, l1).await),
        ("version+1", verify_label::<TC>(pk.as_bytes(), u, f, v.wrapping_add(1), &pb, l1).await),
        ("version-1", verify_label::<TC>(pk.as_bytes(), u, f, v.wrapping_sub(1), &pb, l1).await),
        ("node-label-bit255", verify_label::<TC>(pk.as_bytes(), u, f, v, &pb, l_alt).await),
        ("node-label-bit0", verify_label::<TC>(pk.as_bytes(), u, f, v, &pb, l_alt0).await),
        ("key", verify_label::<TC>(pk2.as_bytes(), u, f, v, &pb, l1).await),
    ];
    // the claimed node label altered in its LENGTH only (the length is part of a node label's identity)
    let mut cases = cases;
    for (name, len) in [("node-label-len255", 255u32), ("node-label-len0", 0), ("node-label-len1", 1), ("node-label-len248", 248), ("node-label-len257", 257)] {
        let mut l = l1;
        l.label_len = len;
        cases.push((name, verify_label::<TC>(pk.as_bytes(), u, f, v, &pb, l).await));
    }
    {
        // ... and cut to a proper prefix of itself
        let l = l1.get_prefix(200);
        cases.push(("node-label-prefix200", verify_label::<TC>(pk.as_bytes(), u, f, v, &pb, l).await));
    }
    for (what, accepted) in cases {
        n += 1;
        if accepted {
            return err("vrf-altered-field-accepted", format!("verification still succeeds with an altered {what}"));
        }
    }
    // alterations of the proof bytes: whatever is accepted must yield the SAME node label
    for i in 0..80 {
        for kind in 0..3 {
            let mut b = pb.clone();
            match kind {
                0 => b[i] ^= 1 << (i % 8),
                1 => b[i] = if b[i] == 0 { 0xff } else { 0 },
                _ => b[i] = b[i].wrapping_add(1),
            }
            n += 1;
            // accepted for SOME label? derive the label the altered proof would give
            if let Ok(p) = Proof::try_from(&b[..]) {
                let l = vrf.get_node_label_from_vrf_proof(p).await;
                if verify_label::<TC>(pk.as_bytes(), u, f, v, &b, l).await && l != l1 {
                    return err("vrf-malleable", format!("altering byte {i} of the proof makes a DIFFERENT node label verify"));
                }
            }
        }
    }
    for cut in [0usize, 1, 32, 48, 79, 81] {
        let mut b = pb.clone();
        b.resize(cut, 0);
        n += 1;
        if verify_label::<TC>(pk.as_bytes(), u, f, v, &b, l1).await {
            return err("vrf-wrong-length-accepted", format!("a {cut}-byte proof is accepted"));
        }
    }
    if let Some(m) = MISMATCH.with(|m| m.borrow_mut().take()) {
        return err("vrf-verify-label-differs", m);
    }
    // key separation: node label, nonce and commitment differ under another key
    let lo = OtherKeyVRF {}.get_node_label::<TC>(u, f, v).await.unwrap();
    if lo == l1 {
        return err("vrf-key-separation", "two different secret keys give the same node label".into());
    }
    let k1 = TC::hash(&vrf.retrieve().await.unwrap());
    let k2 = TC::hash(&OtherKeyVRF {}.retrieve().await.unwrap());
    let val = AkdValue(vec![7, 7]);
    if TC::get_commitment_nonce(&k1, &l1, v, &val) == TC::get_commitment_nonce(&k2, &l1, v, &val)
        || TC::compute_fresh_azks_value(&k1, &l1, v, &val) == TC::compute_fresh_azks_value(&k2, &l1, v, &val)
    {
        return err("commitment-key-separation", "two different secret keys give the same nonce / commitment".into());
    }
    Ok(n + 3)
}
