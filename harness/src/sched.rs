//! Deterministic scheduling of concurrent directory calls at storage-operation granularity (C12, C13).
//! `SchedDb` wraps the in-memory database; every call of a scheduled task waits for its turn from the
//! controller.  The calls run on a current-thread runtime, so a schedule (a word over task ids) fixes
//! the execution completely.
use akd::errors::StorageError;
use akd::storage::memory::AsyncInMemoryDatabase;
use akd::storage::types::{DbRecord, KeyData, ValueState, ValueStateRetrievalFlag};
use akd::storage::{Database, DbSetState, Storable, StorageUtil};
use akd::{AkdLabel, AkdValue};
use async_trait::async_trait;
use std::collections::{BTreeMap, HashMap};
use std::sync::atomic::{AtomicBool, Ordering};
use std::sync::{Arc, Mutex};
use tokio::sync::Notify;

tokio::task_local! {
    pub static TID: usize;
}

#[derive(Default)]
pub struct Ctl {
    pub waiting: Mutex<BTreeMap<usize, (String, Arc<Notify>)>>,
    /// (task, call kind, detail) in execution order
    pub trace: Mutex<Vec<(usize, String, String)>>,
    pub enabled: AtomicBool,
    /// model database latency: a read takes its value when it is issued and is delivered at a second
    /// scheduling point (`*.done`), so other calls can land in between
    pub split_reads: AtomicBool,
    /// fault injection (C12, "each call either fails without effect ..."): task id + 1 whose n-th single-record read
    /// of something other than the epoch record fails once (0 = no fault)
    pub fail_task: std::sync::atomic::AtomicUsize,
    pub fail_index: std::sync::atomic::AtomicUsize,
    pub fail_seen: std::sync::atomic::AtomicUsize,
    pub fail_fired: AtomicBool,
}

#[derive(Clone, Default)]
pub struct SchedDb {
    pub inner: AsyncInMemoryDatabase,
    pub ctl: Arc<Ctl>,
}

impl SchedDb {
    pub async fn from_records(recs: &[DbRecord]) -> Self {
        let d = SchedDb { inner: AsyncInMemoryDatabase::new(), ctl: Arc::new(Ctl::default()) };
        d.inner.batch_set(recs.to_vec(), DbSetState::General).await.unwrap();
        d
    }

    async fn gate(&self, kind: &str, detail: String) {
        if !self.ctl.enabled.load(Ordering::SeqCst) {
            return;
        }
        let Ok(tid) = TID.try_with(|t| *t) else { return };
        let n = Arc::new(Notify::new());
        self.ctl.waiting.lock().unwrap().insert(tid, (kind.to_string(), n.clone()));
        n.notified().await;
        self.ctl.trace.lock().unwrap().push((tid, kind.to_string(), detail));
    }

    /// a scheduling point that is not a storage call: lets the schedule decide WHEN a task issues its next request
    pub async fn pause(&self) {
        self.gate("pause", String::new()).await;
    }

    pub async fn snapshot(&self) -> Vec<DbRecord> {
        let mut v = self.inner.batch_get_all_direct().await.unwrap_or_default();
        v.sort();
        v
    }
}

fn azks_epoch(r: &Result<DbRecord, StorageError>) -> String {
    match r {
        Ok(DbRecord::Azks(a)) => format!("e{}", a.latest_epoch),
        _ => String::new(),
    }
}

#[async_trait]
impl Database for SchedDb {
    async fn set(&self, record: DbRecord) -> Result<(), StorageError> {
        self.gate("set", String::new()).await;
        self.inner.set(record).await
    }
    async fn batch_set(&self, records: Vec<DbRecord>, state: DbSetState) -> Result<(), StorageError> {
        let commit = matches!(state, DbSetState::TransactionCommit);
        let detail = records
            .iter()
            .find_map(|r| if let DbRecord::Azks(a) = r { Some(format!("e{}", a.latest_epoch)) } else { None })
            .unwrap_or_default();
        self.gate(if commit { "commit" } else { "batch_set" }, detail).await;
        self.inner.batch_set(records, state).await
    }
    async fn get<St: Storable>(&self, id: &St::StorageKey) -> Result<DbRecord, StorageError> {
        // the value is read when the turn is granted, not when the call was issued
        let is_azks = St::data_type() == akd::storage::types::StorageType::Azks;
        self.gate(if is_azks { "get_azks" } else { "get" }, String::new()).await;
        if !is_azks {
            let ft = self.ctl.fail_task.load(Ordering::SeqCst);
            if ft != 0 && TID.try_with(|t| *t + 1 == ft).unwrap_or(false) {
                let k = self.ctl.fail_seen.fetch_add(1, Ordering::SeqCst);
                if k == self.ctl.fail_index.load(Ordering::SeqCst) {
                    self.ctl.fail_fired.store(true, Ordering::SeqCst);
                    return Err(StorageError::Connection("injected read failure".into()));
                }
            }
        }
        let r = self.inner.get::<St>(id).await;
        if is_azks {
            if let Some(last) = self.ctl.trace.lock().unwrap().last_mut() {
                last.2 = azks_epoch(&r);
            }
        }
        if self.ctl.split_reads.load(Ordering::SeqCst) {
            self.gate("get.done", String::new()).await;
        }
        r
    }
    async fn batch_get<St: Storable>(&self, ids: &[St::StorageKey]) -> Result<Vec<DbRecord>, StorageError> {
        self.gate("batch_get", String::new()).await;
        let r = self.inner.batch_get::<St>(ids).await;
        if self.ctl.split_reads.load(Ordering::SeqCst) {
            self.gate("batch_get.done", String::new()).await;
        }
        r
    }
    async fn get_user_data(&self, username: &AkdLabel) -> Result<KeyData, StorageError> {
        self.gate("get_user_data", String::new()).await;
        self.inner.get_user_data(username).await
    }
    async fn get_user_state(&self, username: &AkdLabel, flag: ValueStateRetrievalFlag) -> Result<ValueState, StorageError> {
        self.gate("get_user_state", String::new()).await;
        self.inner.get_user_state(username, flag).await
    }
    async fn get_user_state_versions(
        &self,
        usernames: &[AkdLabel],
        flag: ValueStateRetrievalFlag,
    ) -> Result<HashMap<AkdLabel, (u64, AkdValue)>, StorageError> {
        self.gate("get_user_state_versions", String::new()).await;
        self.inner.get_user_state_versions(usernames, flag).await
    }
}

#[async_trait]
impl StorageUtil for SchedDb {
    async fn batch_get_type_direct<St: Storable>(&self) -> Result<Vec<DbRecord>, StorageError> {
        self.inner.batch_get_type_direct::<St>().await
    }
    async fn batch_get_all_direct(&self) -> Result<Vec<DbRecord>, StorageError> {
        self.inner.batch_get_all_direct().await
    }
}

/// One step of a run: which task was chosen among which enabled ones.
#[derive(Clone, Debug)]
pub struct Choice {
    pub chosen: usize,
    pub enabled: Vec<usize>,
}

/// Drives spawned tasks under the schedule `prefs` (then: keep running the current task while it is
/// enabled, else the lowest enabled one).  `finished(i)` tells whether task i is done.
pub async fn drive(ctl: &Arc<Ctl>, ntasks: usize, prefs: &[usize], finished: &dyn Fn(usize) -> bool) -> Vec<Choice> {
    let mut choices: Vec<Choice> = vec![];
    let mut current: Option<usize> = None;
    loop {
        // let every task run until it is finished or waits at a storage call
        let mut spins = 0;
        loop {
            tokio::task::yield_now().await;
            let waiting = ctl.waiting.lock().unwrap();
            let settled = (0..ntasks).all(|i| finished(i) || waiting.contains_key(&i));
            drop(waiting);
            spins += 1;
            if settled || spins > 3_000 {
                break;
            }
        }
        let enabled: Vec<usize> = ctl.waiting.lock().unwrap().keys().cloned().collect();
        if enabled.is_empty() {
            break;
        }
        let step = choices.len();
        let chosen = match prefs.get(step) {
            Some(p) if enabled.contains(p) => *p,
            _ => match current {
                Some(c) if enabled.contains(&c) => c,
                _ => enabled[0],
            },
        };
        current = Some(chosen);
        let (_, n) = ctl.waiting.lock().unwrap().remove(&chosen).unwrap();
        n.notify_one();
        choices.push(Choice { chosen, enabled });
        if choices.len() > 5_000 {
            break;
        }
    }
    choices
}

/// number of preemptions in a choice sequence: switches away from a task that was still enabled
pub fn preemptions(chosen: &[usize], enabled: &[Vec<usize>]) -> usize {
    let mut n = 0;
    for i in 1..chosen.len() {
        if chosen[i] != chosen[i - 1] && enabled[i].contains(&chosen[i - 1]) {
            n += 1;
        }
    }
    n
}


/// `drive` with a DAEMON task (the change poller): a task that never finishes and sleeps on the (paused) tokio
/// clock between its storage calls.  Before every scheduling decision the clock is advanced by `period`, so the
/// daemon is always either waiting at a storage call or blocked on a lock; it is an ordinary choice for the
/// schedule, but by default (no preference given) it only runs when nothing else can.  The run ends when every
/// other task has finished and the daemon has been granted `tail` further calls.
pub async fn drive_daemon(
    ctl: &Arc<Ctl>,
    ntasks: usize,
    daemon: usize,
    period: std::time::Duration,
    tail: usize,
    prefs: &[usize],
    finished: &dyn Fn(usize) -> bool,
) -> Vec<Choice> {
    let mut choices: Vec<Choice> = vec![];
    let mut current: Option<usize> = None;
    let mut tail_left = tail;
    loop {
        tokio::time::advance(period + std::time::Duration::from_millis(1)).await;
        let mut spins = 0;
        loop {
            tokio::task::yield_now().await;
            let waiting = ctl.waiting.lock().unwrap();
            let settled = (0..ntasks).all(|i| finished(i) || waiting.contains_key(&i));
            drop(waiting);
            spins += 1;
            // tasks blocked on the cache lock never "settle": a few hundred rounds are ample for the rest
            if settled || spins > 400 {
                break;
            }
        }
        let enabled: Vec<usize> = ctl.waiting.lock().unwrap().keys().cloned().collect();
        if enabled.is_empty() {
            break;
        }
        let others_done = (0..ntasks).filter(|i| *i != daemon).all(finished);
        if others_done {
            if tail_left == 0 || !enabled.contains(&daemon) {
                break;
            }
            tail_left -= 1;
        }
        let step = choices.len();
        let non_daemon: Vec<usize> = enabled.iter().cloned().filter(|i| *i != daemon).collect();
        let chosen = match prefs.get(step) {
            Some(p) if enabled.contains(p) => *p,
            _ => match current {
                Some(c) if c != daemon && enabled.contains(&c) => c,
                _ => non_daemon.first().cloned().unwrap_or(daemon),
            },
        };
        current = Some(chosen);
        let (_, n) = ctl.waiting.lock().unwrap().remove(&chosen).unwrap();
        n.notify_one();
        choices.push(Choice { chosen, enabled });
        if choices.len() > 2_000 {
            break;
        }
    }
    choices
}

/// preemptions, not counting switches away from the daemon (it is always enabled)
pub fn preemptions_daemon(chosen: &[usize], enabled: &[Vec<usize>], daemon: usize) -> usize {
    let mut n = 0;
    for i in 1..chosen.len() {
        if chosen[i] != chosen[i - 1] && chosen[i - 1] != daemon && enabled[i].contains(&chosen[i - 1]) {
            n += 1;
        }
    }
    n
}
