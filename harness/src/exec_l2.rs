//! Storage-manager ops (`st.*`, C10/C15/C16) on a real `StorageManager<FaultDb>`.
//! Records: `azks:<numnodes>:<epoch>`, `node:<id>:<version>:<payload>`, `vs:<user>:<epoch>:<version>:<payload>`
//! (payload 0 of a value state is the tombstone).  Keys: `azks`, `node:<id>`, `vs:<user>:<epoch>`.
use crate::exec::Exec;
use crate::exec_l1::L1State;
use crate::faultdb::FaultDb;
use akd::append_only_zks::DEFAULT_AZKS_KEY;
use akd::storage::manager::StorageManager;
use akd::storage::types::{DbRecord, ValueState, ValueStateKey, ValueStateRetrievalFlag};
use akd::storage::{Database, StorageUtil};
use akd::tree_node::{NodeKey, TreeNode, TreeNodeType, TreeNodeWithPreviousValue};
use akd::{AkdLabel, AkdValue, Azks, AzksValue, NodeLabel};
use std::sync::atomic::Ordering;
use std::time::Duration;

pub struct StState {
    pub db: FaultDb,
    pub mgr: StorageManager<FaultDb>,
    pub cached: bool,
}

fn node_label(id: u64) -> NodeLabel {
    let mut v = [0u8; 32];
    v[..8].copy_from_slice(&id.to_be_bytes());
    NodeLabel::new(v, 64)
}

fn payload_value(p: u64) -> Vec<u8> {
    if p == 0 {
        vec![]
    } else {
        p.to_be_bytes().to_vec()
    }
}

fn value_payload(v: &[u8]) -> u64 {
    if v.len() == 8 {
        let mut a = [0u8; 8];
        a.copy_from_slice(v);
        u64::from_be_bytes(a)
    } else {
        0
    }
}

pub fn parse_rec(s: &str) -> Option<DbRecord> {
    let p: Vec<&str> = s.split(':').collect();
    match p.as_slice() {
        ["azks", n, e] => Some(DbRecord::Azks(Azks { latest_epoch: e.parse().ok()?, num_nodes: n.parse().ok()? })),
        ["node", id, ver, pay] => {
            let label = node_label(id.parse().ok()?);
            let mut h = [0u8; 32];
            h[..8].copy_from_slice(&pay.parse::<u64>().ok()?.to_be_bytes());
            let node = TreeNode {
                label,
                last_epoch: ver.parse().ok()?,
                min_descendant_epoch: 0,
                parent: NodeLabel::root(),
                node_type: TreeNodeType::Leaf,
                left_child: None,
                right_child: None,
                hash: AzksValue(h),
            };
            Some(DbRecord::TreeNode(TreeNodeWithPreviousValue { label, latest_node: node, previous_node: None }))
        }
        ["vs", u, e, ver, pay] => Some(DbRecord::ValueState(ValueState {
            username: AkdLabel(vec![u.parse::<u8>().ok()?]),
            epoch: e.parse().ok()?,
            version: ver.parse().ok()?,
            label: NodeLabel::root(),
            value: AkdValue(payload_value(pay.parse().ok()?)),
        })),
        _ => None,
    }
}

pub fn show_rec(r: &DbRecord) -> String {
    match r {
        DbRecord::Azks(a) => format!("azks:{}:{}", a.num_nodes, a.latest_epoch),
        DbRecord::TreeNode(t) => {
            let mut id = [0u8; 8];
            id.copy_from_slice(&t.label.label_val[..8]);
            let mut pay = [0u8; 8];
            pay.copy_from_slice(&t.latest_node.hash.0[..8]);
            format!("node:{}:{}:{}", u64::from_be_bytes(id), t.latest_node.last_epoch, u64::from_be_bytes(pay))
        }
        DbRecord::ValueState(v) => format!(
            "vs:{}:{}:{}:{}",
            v.username.0.first().cloned().unwrap_or(0),
            v.epoch,
            v.version,
            value_payload(&v.value.0)
        ),
    }
}

#[derive(Debug)]
enum Key {
    Azks,
    Node(u64),
    Vs(u8, u64),
}

fn parse_key(s: &str) -> Option<Key> {
    let p: Vec<&str> = s.split(':').collect();
    match p.as_slice() {
        ["azks"] => Some(Key::Azks),
        ["node", id] => Some(Key::Node(id.parse().ok()?)),
        ["vs", u, e] => Some(Key::Vs(u.parse().ok()?, e.parse().ok()?)),
        _ => None,
    }
}

fn parse_flag(s: &str) -> Option<ValueStateRetrievalFlag> {
    let p: Vec<&str> = s.split(':').collect();
    match p.as_slice() {
        ["max"] => Some(ValueStateRetrievalFlag::MaxEpoch),
        ["min"] => Some(ValueStateRetrievalFlag::MinEpoch),
        ["ver", v] => Some(ValueStateRetrievalFlag::SpecificVersion(v.parse().ok()?)),
        ["ep", e] => Some(ValueStateRetrievalFlag::SpecificEpoch(e.parse().ok()?)),
        ["leq", e] => Some(ValueStateRetrievalFlag::LeqEpoch(e.parse().ok()?)),
        _ => None,
    }
}

fn show_one(r: Result<DbRecord, akd::errors::StorageError>) -> String {
    match r {
        Ok(r) => show_rec(&r),
        Err(akd::errors::StorageError::NotFound(_)) => "none".into(),
        Err(_) => "err".into(),
    }
}

fn show_many(mut v: Vec<String>) -> String {
    v.sort();
    v.dedup();
    format!("[{}]", v.join(","))
}

impl StState {
    async fn get(&self, k: &Key) -> Result<DbRecord, akd::errors::StorageError> {
        match k {
            Key::Azks => self.mgr.get::<Azks>(&DEFAULT_AZKS_KEY).await,
            Key::Node(id) => self.mgr.get::<TreeNodeWithPreviousValue>(&NodeKey(node_label(*id))).await,
            Key::Vs(u, e) => self.mgr.get::<ValueState>(&ValueStateKey(vec![*u], *e)).await,
        }
    }
    async fn get_direct(&self, k: &Key) -> Result<DbRecord, akd::errors::StorageError> {
        match k {
            Key::Azks => self.mgr.get_direct::<Azks>(&DEFAULT_AZKS_KEY).await,
            Key::Node(id) => self.mgr.get_direct::<TreeNodeWithPreviousValue>(&NodeKey(node_label(*id))).await,
            Key::Vs(u, e) => self.mgr.get_direct::<ValueState>(&ValueStateKey(vec![*u], *e)).await,
        }
    }
}

/// what a read of `k` must return by the statement of C16/C15: the database's record "at that moment"
/// — after a hypothetical commit of the pending log when a transaction is open
fn truth_after_commit(db: &[DbRecord], log: &[DbRecord], key: &str) -> String {
    let find = |rs: &[DbRecord]| rs.iter().map(show_rec).find(|s| rec_key(s) == key);
    find(log).or_else(|| find(db)).unwrap_or_else(|| "none".into())
}

pub fn rec_key(s: &str) -> String {
    let p: Vec<&str> = s.split(':').collect();
    match p[0] {
        "azks" => "azks".into(),
        "node" => format!("node:{}", p[1]),
        _ => format!("vs:{}:{}", p[1], p[2]),
    }
}

/// the read-only queries, on any manager
fn query(rt: &tokio::runtime::Runtime, s: &StState, toks: &[&str]) -> Option<String> {
    Some(match toks[0] {
        "st.get" => show_one(rt.block_on(s.get(&parse_key(toks[1])?))),
        "st.batchget" => {
            let keys: Option<Vec<Key>> = toks[2..].iter().map(|t| parse_key(t)).collect();
            let keys = keys?;
            let nodes: Vec<NodeKey> = keys.iter().filter_map(|k| if let Key::Node(id) = k { Some(NodeKey(node_label(*id))) } else { None }).collect();
            let vss: Vec<ValueStateKey> = keys.iter().filter_map(|k| if let Key::Vs(u, e) = k { Some(ValueStateKey(vec![*u], *e)) } else { None }).collect();
            let mut outv = vec![];
            let mut err = false;
            if !nodes.is_empty() {
                match rt.block_on(s.mgr.batch_get::<TreeNodeWithPreviousValue>(&nodes)) {
                    Ok(rs) => outv.extend(rs.iter().map(show_rec)),
                    Err(_) => err = true,
                }
            }
            if !vss.is_empty() && !err {
                match rt.block_on(s.mgr.batch_get::<ValueState>(&vss)) {
                    Ok(rs) => outv.extend(rs.iter().map(show_rec)),
                    Err(_) => err = true,
                }
            }
            if err { "err".to_string() } else { show_many(outv) }
        }
        "st.userstate" => {
            let u: u8 = toks[1].parse().ok()?;
            let f = parse_flag(toks[2])?;
            match rt.block_on(s.mgr.get_user_state(&AkdLabel(vec![u]), f)) {
                Ok(v) => show_rec(&DbRecord::ValueState(v)),
                Err(akd::errors::StorageError::NotFound(_)) => "none".into(),
                Err(_) => "err".into(),
            }
        }
        "st.userdata" => {
            let u: u8 = toks[1].parse().ok()?;
            match rt.block_on(s.mgr.get_user_data(&AkdLabel(vec![u]))) {
                Ok(kd) => show_many(kd.states.into_iter().map(|v| show_rec(&DbRecord::ValueState(v))).collect()),
                Err(akd::errors::StorageError::NotFound(_)) => "[]".into(),
                Err(_) => "err".into(),
            }
        }
        "st.userversions" => {
            let f = parse_flag(toks[1])?;
            let us: Option<Vec<u8>> = toks[3..].iter().map(|t| t.parse().ok()).collect();
            let labels: Vec<AkdLabel> = us?.iter().map(|u| AkdLabel(vec![*u])).collect();
            match rt.block_on(s.mgr.get_user_state_versions(&labels, f)) {
                Ok(m) => show_many(m.into_iter().map(|(k, (ver, val))| format!("{}:{}:{}", k.0.first().cloned().unwrap_or(0), ver, value_payload(&val.0))).collect()),
                Err(_) => "err".into(),
            }
        }
        _ => return None,
    })
}

/// C15 / C16 oracle: the same read against an uncached manager over the database as it would be
/// after committing the pending log (or as it is, outside a transaction)
fn reference_answer(rt: &tokio::runtime::Runtime, s: &StState, log: &[DbRecord], toks: &[&str]) -> Option<String> {
    let mut recs = rt.block_on(s.db.inner.batch_get_all_direct()).ok()?;
    if s.mgr.is_transaction_active() {
        for r in log {
            recs.retain(|x| rec_key(&show_rec(x)) != rec_key(&show_rec(r)));
            recs.push(r.clone());
        }
    }
    let db = rt.block_on(FaultDb::from_records(&recs));
    let clone = StState { db: db.clone(), mgr: StorageManager::new_no_cache(db), cached: false };
    query(rt, &clone, toks)
}

/// `o.st.flushprobe <seed>` (C16, "after a flush the next read of the epoch record reflects storage"): the records a
/// cached manager holds are overwritten in the database BEHIND its back (as another writer on the same database does),
/// the manager is flushed in every state it can be in — idle, inside a transaction (with and without pending records),
/// with cache cleaning disabled (an audit is under way), after a sleep that outlives the items — and the next reads
/// (get and batch_get, epoch record, nodes, value states) must equal uncached reads.  Oracle only: the model has one writer.
fn flush_probe(ex: &mut Exec, st: &mut L1State, toks: &[&str]) -> Option<String> {
    let seed: u64 = toks.get(1)?.parse().ok()?;
    let mut rng = crate::rng::Rng::new(seed ^ 0x51ed_270b_0f1a_5c33);
    let rt = &st.rt;
    let mut cases = 0usize;
    let mut bad: Option<String> = None;
    for mode in ["default", "long", "tiny"] {
        for situation in ["idle", "txn-empty", "txn-pending", "cleaning-disabled", "txn-then-commit", "after-sleep"] {
            let db = FaultDb::new();
            let mgr = match mode {
                "tiny" => StorageManager::new(db.clone(), Some(Duration::from_millis(60)), Some(300), Some(Duration::from_millis(2))),
                "long" => StorageManager::new(db.clone(), Some(Duration::from_secs(600)), None, Some(Duration::from_millis(25))),
                _ => StorageManager::new(db.clone(), Some(Duration::from_millis(60)), None, Some(Duration::from_millis(25))),
            };
            let e0 = 1 + rng.below(5);
            let old = vec![parse_rec(&format!("azks:3:{e0}"))?, parse_rec(&format!("node:1:{e0}:4"))?, parse_rec(&format!("node:2:{e0}:5"))?, parse_rec(&format!("vs:0:{e0}:1:7"))?];
            let newer = vec![parse_rec(&format!("azks:5:{}", e0 + 1))?, parse_rec(&format!("node:1:{}:8", e0 + 1))?, parse_rec(&format!("node:2:{}:9", e0 + 1))?, parse_rec(&format!("vs:0:{e0}:1:0"))?];
            let keys = [Key::Azks, Key::Node(1), Key::Node(2), Key::Vs(0, e0)];
            let s = StState { db: db.clone(), mgr, cached: true };
            let r: Result<Vec<String>, akd::errors::StorageError> = rt.block_on(async {
                s.mgr.batch_set(old.clone()).await?;
                for k in &keys {
                    s.get(k).await?; // all cached now
                }
                match situation {
                    "txn-empty" | "txn-pending" | "txn-then-commit" => {
                        s.mgr.begin_transaction();
                    }
                    "cleaning-disabled" => s.mgr.disable_cache_cleaning(),
                    _ => {}
                }
                if situation == "txn-pending" {
                    s.mgr.set(parse_rec("node:7:1:1").unwrap()).await?;
                }
                // another writer on the same database
                db.inner.batch_set(newer.clone(), akd::storage::DbSetState::General).await?;
                if situation == "after-sleep" {
                    tokio::time::sleep(Duration::from_millis(130)).await;
                }
                s.mgr.flush_cache().await;
                if situation == "txn-then-commit" {
                    s.mgr.commit_transaction().await?;
                }
                let mut diffs = vec![];
                for k in &keys {
                    let got = show_one(s.get(k).await);
                    let want = show_one(s.get_direct(k).await);
                    if got != want {
                        diffs.push(format!("get {k:?} = {got}, storage holds {want}"));
                    }
                }
                let got: Vec<String> = s.mgr.batch_get::<TreeNodeWithPreviousValue>(&[NodeKey(node_label(1)), NodeKey(node_label(2))]).await?.iter().map(show_rec).collect();
                let want = vec![show_one(s.get_direct(&Key::Node(1)).await), show_one(s.get_direct(&Key::Node(2)).await)];
                if show_many(got.clone()) != show_many(want.clone()) {
                    diffs.push(format!("batch_get nodes = {got:?}, storage holds {want:?}"));
                }
                match situation {
                    "txn-empty" | "txn-pending" => {
                        let _ = s.mgr.rollback_transaction();
                    }
                    "cleaning-disabled" => s.mgr.enable_cache_cleaning(),
                    _ => {}
                }
                Ok(diffs)
            });
            cases += 1;
            match r {
                Ok(d) if d.is_empty() => {}
                Ok(d) => {
                    if bad.is_none() {
                        bad = Some(format!("cache {mode}, manager {situation}: records cached at epoch {e0}, another writer stores epoch {}, flush_cache, then: {}", e0 + 1, d.join("; ")));
                    }
                }
                Err(e) => {
                    if bad.is_none() {
                        bad = Some(format!("cache {mode}, manager {situation}: unexpected storage error {e:?}"));
                    }
                }
            }
        }
    }
    match bad {
        Some(w) => {
            ex.fail_tag("C16", "read-after-flush-stale", format!("{:?}: {}", toks, w));
            Some("FAIL".into())
        }
        None => {
            ex.stats.bump("o.st.flushprobe", "ok");
            Some(format!("ok {cases}"))
        }
    }
}

pub fn step(ex: &mut Exec, st: &mut L1State, op: &str, toks: &[&str]) -> Option<String> {
    if op == "o.st.flushprobe" {
        return flush_probe(ex, st, toks);
    }
    if !op.starts_with("st.") {
        return crate::exec_l3::step(ex, st, op, toks);
    }
    if op == "st.reset" {
        let db = FaultDb::new();
        let cached = toks.get(1) != Some(&"nocache");
        let mgr = match toks.get(1).cloned() {
            Some("nocache") => StorageManager::new_no_cache(db.clone()),
            // timing margins: an item lives 60 ms and `st.sleep` sleeps 130 ms, so that a descheduled process does not make
            // items expire where the model does not expect it (the model expires items at `st.sleep` only).  `tiny`: a
            // 300-byte memory limit cleaned every 2 ms evicts at moments nobody can predict — its sequences carry no
            // fault-injected READS (the only observations that depend on what is cached)
            Some("tiny") => StorageManager::new(db.clone(), Some(Duration::from_millis(60)), Some(300), Some(Duration::from_millis(2))),
            _ => StorageManager::new(db.clone(), Some(Duration::from_millis(60)), None, Some(Duration::from_millis(25))),
        };
        st.st = Some(StState { db, mgr, cached });
        st.st_log.clear();
        return Some("ok".into());
    }
    let rt = &st.rt;
    let s = st.st.as_ref()?;
    let fail = |t: &str| -> Option<bool> {
        match t {
            "0" => Some(false),
            "1" => Some(true),
            _ => None,
        }
    };
    let arm = |f: bool| s.db.fail_next.store(f, Ordering::SeqCst);
    if matches!(op, "st.get" | "st.batchget" | "st.userstate" | "st.userdata" | "st.userversions") {
        let fidx = match op { "st.get" => 2, "st.batchget" => 1, "st.userstate" => 3, "st.userdata" => 2, _ => 2 };
        let f = fail(toks.get(fidx)?)?;
        arm(f);
        let out = query(rt, s, toks)?;
        s.db.fail_next.store(false, Ordering::SeqCst);
        if out != "err" {
            let active = s.mgr.is_transaction_active();
            if let Some(reference) = reference_answer(rt, s, &st.st_log, toks) {
                if reference != out {
                    let (prop, tag) = if active { ("C15", "txn-read-differs-from-commit") } else { ("C16", "read-differs-from-database") };
                    ex.fail_tag(prop, tag, format!("{:?} returned {} {} — the same read on the database{} gives {}", toks, out,
                        if active { "inside the transaction" } else { "through the cache" },
                        if active { " after committing the pending records" } else { "" }, reference));
                }
            }
        }
        ex.stats.bump(op, if out == "err" { "err" } else if out == "none" || out == "[]" { "empty" } else if s.mgr.is_transaction_active() { "ok-txn" } else { "ok" });
        return Some(out);
    }
    let out = match op {
        "st.set" if toks.len() == 3 => {
            let r = parse_rec(toks[1])?;
            arm(fail(toks[2])?);
            let active = s.mgr.is_transaction_active();
            let res = rt.block_on(s.mgr.set(r.clone()));
            if active && res.is_ok() {
                st.st_log.retain(|x| rec_key(&show_rec(x)) != rec_key(&show_rec(&r)));
                st.st_log.push(r);
            }
            if res.is_ok() { "ok".to_string() } else { "err".to_string() }
        }
        "st.batchset" if toks.len() >= 2 => {
            let rs: Option<Vec<DbRecord>> = toks[2..].iter().map(|t| parse_rec(t)).collect();
            let rs = rs?;
            arm(fail(toks[1])?);
            let active = s.mgr.is_transaction_active();
            let res = rt.block_on(s.mgr.batch_set(rs.clone()));
            if active && res.is_ok() {
                for r in rs {
                    st.st_log.retain(|x| rec_key(&show_rec(x)) != rec_key(&show_rec(&r)));
                    st.st_log.push(r);
                }
            }
            if res.is_ok() { "ok".to_string() } else { "err".to_string() }
        }
        "st.get" if toks.len() == 3 => {
            let k = parse_key(toks[1])?;
            let f = fail(toks[2])?;
            arm(f);
            let r = show_one(rt.block_on(s.get(&k)));
            // oracle (C16 / C15): a read returns what the database holds at that moment, or the pending value
            if r != "err" {
                s.db.fail_next.store(false, Ordering::SeqCst);
                let db = rt.block_on(s.db.inner.batch_get_all_direct()).unwrap_or_default();
                let log: Vec<DbRecord> = if s.mgr.is_transaction_active() { st.st_log.clone() } else { vec![] };
                let truth = truth_after_commit(&db, &log, toks[1]);
                if truth != r {
                    ex.fail_tag("C16", "read-differs-from-database", format!("get {} returned {} while storage (with the pending transaction) holds {}", toks[1], r, truth));
                }
            }
            r
        }
        "st.getdirect" if toks.len() == 3 => {
            let k = parse_key(toks[1])?;
            arm(fail(toks[2])?);
            show_one(rt.block_on(s.get_direct(&k)))
        }
        "st.batchget" if toks.len() >= 2 => {
            arm(fail(toks[1])?);
            let keys: Option<Vec<Key>> = toks[2..].iter().map(|t| parse_key(t)).collect();
            let keys = keys?;
            // batch_get is typed: issue one call per record type, as the tree code does
            let nodes: Vec<NodeKey> = keys.iter().filter_map(|k| if let Key::Node(id) = k { Some(NodeKey(node_label(*id))) } else { None }).collect();
            let vss: Vec<ValueStateKey> = keys.iter().filter_map(|k| if let Key::Vs(u, e) = k { Some(ValueStateKey(vec![*u], *e)) } else { None }).collect();
            let mut outv = vec![];
            let mut err = false;
            if !nodes.is_empty() {
                match rt.block_on(s.mgr.batch_get::<TreeNodeWithPreviousValue>(&nodes)) {
                    Ok(rs) => outv.extend(rs.iter().map(show_rec)),
                    Err(_) => err = true,
                }
            }
            if !vss.is_empty() && !err {
                match rt.block_on(s.mgr.batch_get::<ValueState>(&vss)) {
                    Ok(rs) => outv.extend(rs.iter().map(show_rec)),
                    Err(_) => err = true,
                }
            }
            if err { "err".to_string() } else { show_many(outv) }
        }
        "st.begin" => {
            let b = s.mgr.begin_transaction();
            b.to_string()
        }
        "st.commit" if toks.len() == 2 => {
            arm(fail(toks[1])?);
            let expected: Vec<String> = st.st_log.iter().map(show_rec).collect();
            *s.db.last_commit.lock().unwrap() = None;
            let r = rt.block_on(s.mgr.commit_transaction());
            // oracle (C15): the database receives exactly the pending records, the epoch record last
            if let Some(batch) = s.db.last_commit.lock().unwrap().clone() {
                let mut got: Vec<String> = batch.iter().map(show_rec).collect();
                let last_is_azks = got.last().map(|x| x.starts_with("azks")).unwrap_or(true);
                let mut exp = expected.clone();
                got.sort();
                exp.sort();
                if got != exp || !last_is_azks {
                    ex.fail_tag("C15", "commit-batch", format!("commit handed {:?} to the database, pending were {:?}", got, exp));
                }
            }
            st.st_log.clear();
            match r {
                Ok(n) => format!("n{n}"),
                Err(_) => "err".into(),
            }
        }
        "st.rollback" => {
            let r = s.mgr.rollback_transaction();
            st.st_log.clear();
            if r.is_ok() { "ok".to_string() } else { "err".to_string() }
        }
        "st.flush" => {
            rt.block_on(s.mgr.flush_cache());
            "ok".into()
        }
        "st.sleep" => {
            // every cached item (except the epoch slot) outlives its 60 ms lifetime
            std::thread::sleep(Duration::from_millis(130));
            "ok".into()
        }
        "st.userstate" if toks.len() == 4 => {
            let u: u8 = toks[1].parse().ok()?;
            let f = parse_flag(toks[2])?;
            arm(fail(toks[3])?);
            match rt.block_on(s.mgr.get_user_state(&AkdLabel(vec![u]), f)) {
                Ok(v) => show_rec(&DbRecord::ValueState(v)),
                Err(akd::errors::StorageError::NotFound(_)) => "none".into(),
                Err(_) => "err".into(),
            }
        }
        "st.userdata" if toks.len() == 3 => {
            let u: u8 = toks[1].parse().ok()?;
            arm(fail(toks[2])?);
            match rt.block_on(s.mgr.get_user_data(&AkdLabel(vec![u]))) {
                Ok(kd) => show_many(kd.states.into_iter().map(|v| show_rec(&DbRecord::ValueState(v))).collect()),
                Err(akd::errors::StorageError::NotFound(_)) => "[]".into(),
                Err(_) => "err".into(),
            }
        }
        "st.userversions" if toks.len() >= 3 => {
            let f = parse_flag(toks[1])?;
            arm(fail(toks[2])?);
            let us: Option<Vec<u8>> = toks[3..].iter().map(|t| t.parse().ok()).collect();
            let us = us?;
            let labels: Vec<AkdLabel> = us.iter().map(|u| AkdLabel(vec![*u])).collect();
            match rt.block_on(s.mgr.get_user_state_versions(&labels, f)) {
                Ok(m) => show_many(m.into_iter().map(|(k, (ver, val))| format!("{}:{}:{}", k.0.first().cloned().unwrap_or(0), ver, value_payload(&val.0))).collect()),
                Err(_) => "err".into(),
            }
        }
        "st.tombstone" if toks.len() == 4 => {
            let u: u8 = toks[1].parse().ok()?;
            let e: u64 = toks[2].parse().ok()?;
            // oracle (C20, at the level of the stored values): after tombstone(u, e) exactly the states of u with
            // epoch <= e are tombstones, and every later state is what it was — inside a transaction as outside
            s.db.fail_next.store(false, Ordering::SeqCst);
            let pre = rt.block_on(s.mgr.get_user_data(&AkdLabel(vec![u]))).map(|k| k.states).unwrap_or_default();
            arm(fail(toks[3])?);
            let active = s.mgr.is_transaction_active();
            // what will be written (for the pending-log mirror)
            let r = rt.block_on(s.mgr.tombstone_value_states(&AkdLabel(vec![u]), e));
            s.db.fail_next.store(false, Ordering::SeqCst);
            if r.is_ok() {
                let post = rt.block_on(s.mgr.get_user_data(&AkdLabel(vec![u]))).map(|k| k.states).unwrap_or_default();
                for a in &pre {
                    match post.iter().find(|b| b.epoch == a.epoch) {
                        None => ex.fail_tag("C20", "tombstone-lost-state", format!("{:?}{}: the state of epoch {} is gone", toks, if active { " (in a transaction)" } else { "" }, a.epoch)),
                        Some(b) if a.epoch <= e && !b.value.0.is_empty() => ex.fail_tag("C20", "tombstone-skipped-state", format!("{:?}{}: the state of epoch {} <= {} still carries its value", toks, if active { " (in a transaction)" } else { "" }, a.epoch, e)),
                        Some(b) if a.epoch > e && (b.value != a.value || b.version != a.version) => ex.fail_tag("C20", "tombstone-touched-later-state", format!("{:?}{}: the state of epoch {} > {} was changed (value payload {} -> {})", toks, if active { " (in a transaction)" } else { "" }, a.epoch, e, value_payload(&a.value.0), value_payload(&b.value.0))),
                        _ => {}
                    }
                }
            }
            if active {
                // the manager put tombstones into the log: mirror every state whose value changed in the manager's view
                if let Ok(kd) = rt.block_on(s.mgr.get_user_data(&AkdLabel(vec![u]))) {
                    for v in kd.states {
                        let changed = pre.iter().any(|a| a.epoch == v.epoch && (a.value != v.value || a.version != v.version));
                        if changed {
                            let rec = DbRecord::ValueState(v);
                            st.st_log.retain(|x| rec_key(&show_rec(x)) != rec_key(&show_rec(&rec)));
                            st.st_log.push(rec);
                        }
                    }
                }
            }
            if r.is_ok() { "ok".to_string() } else { "err".to_string() }
        }
        "st.flush" => {
            rt.block_on(s.mgr.flush_cache());
            "ok".into()
        }
        "st.sleep" => {
            // every cached item (except the epoch slot) outlives its 60 ms lifetime
            std::thread::sleep(Duration::from_millis(130));
            "ok".into()
        }
        "st.userstate" if toks.len() == 4 => {
            let u: u8 = toks[1].parse().ok()?;
            let f = parse_flag(toks[2])?;
            arm(fail(toks[3])?);
            match rt.block_on(s.mgr.get_user_state(&AkdLabel(vec![u]), f)) {
                Ok(v) => show_rec(&DbRecord::ValueState(v)),
                Err(akd::errors::StorageError::NotFound(_)) => "none".into(),
                Err(_) => "err".into(),
            }
        }
        "st.userdata" if toks.len() == 3 => {
            let u: u8 = toks[1].parse().ok()?;
            arm(fail(toks[2])?);
            match rt.block_on(s.mgr.get_user_data(&AkdLabel(vec![u]))) {
                Ok(kd) => show_many(kd.states.into_iter().map(|v| show_rec(&DbRecord::ValueState(v))).collect()),
                Err(akd::errors::StorageError::NotFound(_)) => "[]".into(),
                Err(_) => "err".into(),
            }
        }
        "st.userversions" if toks.len() >= 3 => {
            let f = parse_flag(toks[1])?;
            arm(fail(toks[2])?);
            let us: Option<Vec<u8>> = toks[3..].iter().map(|t| t.parse().ok()).collect();
            let us = us?;
            let labels: Vec<AkdLabel> = us.iter().map(|u| AkdLabel(vec![*u])).collect();
            match rt.block_on(s.mgr.get_user_state_versions(&labels, f)) {
                Ok(m) => show_many(m.into_iter().map(|(k, (ver, val))| format!("{}:{}:{}", k.0.first().cloned().unwrap_or(0), ver, value_payload(&val.0))).collect()),
                Err(_) => "err".into(),
            }
        }
        "st.tombstone" if toks.len() == 4 => {
            let u: u8 = toks[1].parse().ok()?;
            let e: u64 = toks[2].parse().ok()?;
            // oracle (C20, at the level of the stored values): after tombstone(u, e) exactly the states of u with
            // epoch <= e are tombstones, and every later state is what it was — inside a transaction as outside
            s.db.fail_next.store(false, Ordering::SeqCst);
            let pre = rt.block_on(s.mgr.get_user_data(&AkdLabel(vec![u]))).map(|k| k.states).unwrap_or_default();
            arm(fail(toks[3])?);
            let active = s.mgr.is_transaction_active();
            // what will be written (for the pending-log mirror)
            let r = rt.block_on(s.mgr.tombstone_value_states(&AkdLabel(vec![u]), e));
            s.db.fail_next.store(false, Ordering::SeqCst);
            if r.is_ok() {
                let post = rt.block_on(s.mgr.get_user_data(&AkdLabel(vec![u]))).map(|k| k.states).unwrap_or_default();
                for a in &pre {
                    match post.iter().find(|b| b.epoch == a.epoch) {
                        None => ex.fail_tag("C20", "tombstone-lost-state", format!("{:?}{}: the state of epoch {} is gone", toks, if active { " (in a transaction)" } else { "" }, a.epoch)),
                        Some(b) if a.epoch <= e && !b.value.0.is_empty() => ex.fail_tag("C20", "tombstone-skipped-state", format!("{:?}{}: the state of epoch {} <= {} still carries its value", toks, if active { " (in a transaction)" } else { "" }, a.epoch, e)),
                        Some(b) if a.epoch > e && (b.value != a.value || b.version != a.version) => ex.fail_tag("C20", "tombstone-touched-later-state", format!("{:?}{}: the state of epoch {} > {} was changed (value payload {} -> {})", toks, if active { " (in a transaction)" } else { "" }, a.epoch, e, value_payload(&a.value.0), value_payload(&b.value.0))),
                        _ => {}
                    }
                }
            }
            if active {
                // the manager put tombstones into the log; mirror by re-reading the user's data
                s.db.fail_next.store(false, Ordering::SeqCst);
                if let Ok(kd) = rt.block_on(s.mgr.get_user_data(&AkdLabel(vec![u]))) {
                    for v in kd.states {
                        if v.epoch <= e && v.value.0.is_empty() {
                            let rec = DbRecord::ValueState(v);
                            let db = rt.block_on(s.db.inner.batch_get_all_direct()).unwrap_or_default();
                            if !db.iter().any(|x| show_rec(x) == show_rec(&rec)) {
                                st.st_log.retain(|x| rec_key(&show_rec(x)) != rec_key(&show_rec(&rec)));
                                st.st_log.push(rec);
                            }
                        }
                    }
                }
            }
            if r.is_ok() { "ok".to_string() } else { "err".to_string() }
        }
        "st.active" => s.mgr.is_transaction_active().to_string(),
        "st.dbdump" => {
            let db = rt.block_on(s.db.inner.batch_get_all_direct()).unwrap_or_default();
            show_many(db.iter().map(show_rec).collect())
        }
        _ => return None,
    };
    s.db.fail_next.store(false, Ordering::SeqCst);
    let _ = s.cached;
    ex.stats.bump(op, if out == "err" { "err" } else if out == "none" { "none" } else { "ok" });
    Some(out)
}
