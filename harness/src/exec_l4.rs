//! Further ops — filled in as the model grows.
use crate::exec::Exec;
use crate::exec_l1::L1State;

pub fn step(_ex: &mut Exec, _st: &mut L1State, _op: &str, _toks: &[&str]) -> Option<String> {
    None
}
