//! Generators of the L0 streams (C17 labels and label sets, C08 marker versions).
use crate::exec::empty_label;
use crate::rng::Rng;
use crate::util::*;
use akd::NodeLabel;

fn bits_of_int(v: u64, n: usize) -> Vec<bool> {
    (0..n).map(|i| (v >> (n - 1 - i)) & 1 == 1).collect()
}

fn all_bitstrings(max_len: usize) -> Vec<Vec<bool>> {
    let mut out = vec![];
    for n in 0..=max_len {
        for v in 0..(1u64 << n) {
            out.push(bits_of_int(v, n));
        }
    }
    out
}

fn embed(prefix: &[bool], s: &[bool]) -> NodeLabel {
    let mut b = prefix.to_vec();
    b.extend_from_slice(s);
    label_of_bits(&b)
}

fn pair_ops(out: &mut Vec<String>, a: &NodeLabel, b: &NodeLabel) {
    let (sa, sb) = (show_label(a), show_label(b));
    out.push(format!("lbl.isprefix {sa} {sb}"));
    out.push(format!("lbl.lcp wv1 {sa} {sb}"));
    out.push(format!("lbl.lcp exp {sa} {sb}"));
    out.push(format!("lbl.ord {sa} {sb}"));
    out.push(format!("lbl.cmp {sa} {sb}"));
}

fn with_garbage(l: &NodeLabel, rng: &mut Rng, kind: u64) -> NodeLabel {
    // set bits beyond label_len: none / bit len / bit len+1 / all / random
    let mut v = l.label_val;
    let n = l.label_len as usize;
    let set = |v: &mut [u8; 32], i: usize| {
        if i < 256 {
            v[i / 8] |= 1 << (7 - (i % 8));
        }
    };
    match kind {
        0 => {}
        1 => set(&mut v, n),
        2 => set(&mut v, n + 1),
        3 => {
            for i in n..256 {
                set(&mut v, i);
            }
        }
        _ => {
            for i in n..256 {
                if rng.chance(1, 2) {
                    set(&mut v, i);
                }
            }
        }
    }
    NodeLabel::new(v, l.label_len)
}

pub fn gen_c17(tier: &str, seed: u64) -> Vec<String> {
    let thorough = tier == "thorough";
    let mut rng = Rng::new(seed);
    let mut out = vec![];

    // (1) exhaustive pairs of short labels, at bit offset 0 and behind shared prefixes that
    //     put the interesting bits across byte boundaries
    let k = if thorough { 7 } else { 5 };
    let strs = all_bitstrings(k);
    for a in &strs {
        for b in &strs {
            pair_ops(&mut out, &label_of_bits(a), &label_of_bits(b));
        }
    }
    let small = all_bitstrings(if thorough { 4 } else { 3 });
    for off in [5usize, 6, 7, 8, 13, 15, 16, 61, 64, 127, 128, 248, 250, 252] {
        let prefix: Vec<bool> = (0..off).map(|_| rng.chance(1, 2)).collect();
        for a in &small {
            for b in &small {
                if off + a.len() <= 256 && off + b.len() <= 256 {
                    pair_ops(&mut out, &embed(&prefix, a), &embed(&prefix, b));
                }
            }
        }
    }

    // (2) every length 0..=256 with adversarial patterns, garbage beyond the length
    for len in 0..=256usize {
        let pats: Vec<Vec<bool>> = vec![
            vec![false; len],
            vec![true; len],
            (0..len).map(|i| i % 2 == 0).collect(),
            (0..len).map(|i| i + 1 == len).collect(),
            (0..len).map(|_| rng.chance(1, 2)).collect(),
        ];
        for (pi, p) in pats.iter().enumerate() {
            if !thorough && pi == 2 && len % 3 != 0 {
                continue;
            }
            let a0 = label_of_bits(p);
            for gk in 0..5 {
                if !thorough && gk >= 3 && len % 4 != 0 {
                    continue;
                }
                let a = with_garbage(&a0, &mut rng, gk);
                // prefix extraction at every interesting cut
                for n in [0, 1, len.saturating_sub(1), len, len + 1, len / 2, 7, 8, 9, 255, 256, 257] {
                    out.push(format!("lbl.prefix {} {}", show_label(&a), n));
                }
                // partners: extensions, flips, truncations
                let mut partners: Vec<NodeLabel> = vec![];
                for d in [0usize, 1, 2, 7, 8, 9] {
                    if len + d <= 256 {
                        let mut q = p.clone();
                        for _ in 0..d {
                            q.push(rng.chance(1, 2));
                        }
                        partners.push(label_of_bits(&q));
                    }
                }
                for kf in [0usize, len / 2, len.saturating_sub(1)] {
                    if kf < len {
                        let mut q = p.clone();
                        q[kf] = !q[kf];
                        partners.push(label_of_bits(&q));
                        let mut q2 = q.clone();
                        q2.extend((0..rng.below(5)).map(|_| true));
                        if q2.len() <= 256 {
                            partners.push(label_of_bits(&q2));
                        }
                    }
                }
                partners.push(label_of_bits(&p[..len / 2]));
                for b0 in partners {
                    let gk2 = rng.below(5);
                    let b = with_garbage(&b0, &mut rng, gk2);
                    pair_ops(&mut out, &a, &b);
                    pair_ops(&mut out, &b, &a);
                }
            }
        }
    }
    // the two configurations' empty labels as operands
    for cfg in ["wv1", "exp"] {
        let e = empty_label(cfg).unwrap();
        for other in [NodeLabel::root(), label_of_bits(&[true]), label_of_bits(&[false; 256]), e] {
            pair_ops(&mut out, &e, &other);
            pair_ops(&mut out, &other, &e);
        }
    }

    // (3) malformed stream: lengths beyond 256 (observed for panics and model agreement)
    for big in [257u32, 300, 1000] {
        for small_len in [0u32, 1, 8, 255, 256, 257, 300] {
            let a = NodeLabel::new([0xA5; 32], big);
            let b = NodeLabel::new([0xA5; 32], small_len);
            pair_ops(&mut out, &a, &b);
            pair_ops(&mut out, &b, &a);
            out.push(format!("lbl.prefix {} {}", show_label(&a), small_len));
        }
    }
    for big in [u32::MAX, 1 << 31] {
        let a = NodeLabel::new([0x5A; 32], big);
        let b = NodeLabel::new([0x5A; 32], 12);
        let (sa, sb) = (show_label(&a), show_label(&b));
        out.push(format!("lbl.cmp {sa} {sb}"));
        out.push(format!("lbl.ord {sa} {sb}"));
        out.push(format!("lbl.ord {sb} {sa}"));
        out.push(format!("lbl.isprefix {sa} {sb}"));
        out.push(format!("lbl.prefix {sa} 77"));
    }

    // (4) label sets
    gen_sets(&mut out, &mut rng, thorough);
    out
}

fn gen_sets(out: &mut Vec<String>, rng: &mut Rng, thorough: bool) {
    let w = 3usize; // width of the varying part
    let pats: Vec<Vec<bool>> = (0..(1u64 << w)).map(|v| bits_of_int(v, w)).collect();
    let max_size = if thorough { 4 } else { 3 };
    for off in [0usize, 5, 8, 250] {
        let prefix: Vec<bool> = (0..off).map(|_| rng.chance(1, 2)).collect();
        // all subsets (with the order shuffled) of the 8 patterns up to max_size
        for mask in 0u32..256 {
            let chosen: Vec<&Vec<bool>> = (0..8).filter(|i| mask >> i & 1 == 1).map(|i| &pats[i]).collect();
            if chosen.is_empty() || chosen.len() > max_size {
                continue;
            }
            let mut labels: Vec<NodeLabel> = chosen.iter().map(|s| embed(&prefix, s)).collect();
            rng.shuffle(&mut labels);
            let ls = labels.iter().map(show_label).collect::<Vec<_>>().join(" ");
            // true common prefix of the set
            let mut cp: Vec<bool> = bits_of(&labels[0]);
            for l in &labels[1..] {
                let b = bits_of(l);
                let n = cp.iter().zip(b.iter()).take_while(|(x, y)| x == y).count();
                cp.truncate(n);
            }
            for cut in [cp.len(), cp.len().saturating_sub(1), off.min(cp.len()), 0] {
                let p = label_of_bits(&cp[..cut]);
                for mode in ["auto", "un"] {
                    out.push(format!("set.partition {mode} {} {ls}", show_label(&p)));
                    out.push(format!("set.contains {mode} {} {ls}", show_label(&p)));
                }
            }
            // probes that are not prefixes
            for s in &pats {
                let p = embed(&prefix, s);
                out.push(format!("set.contains auto {} {ls}", show_label(&p)));
                out.push(format!("set.contains un {} {ls}", show_label(&p)));
                let p2 = embed(&prefix, &s[..2]);
                out.push(format!("set.contains auto {} {ls}", show_label(&p2)));
            }
            for mode in ["auto", "un"] {
                out.push(format!("set.lcp {mode} wv1 {ls}"));
                out.push(format!("set.lcp {mode} exp {ls}"));
            }
        }
    }
    // mixed-length sets (always the unsorted representation) and random 256-bit sets
    let n_rand = if thorough { 2000 } else { 300 };
    for _ in 0..n_rand {
        let hi = if rng.chance(1, 4) { 64 } else { 8 };
        let size = rng.range(1, hi) as usize;
        let shared = rng.range(0, 255) as usize;
        let prefix: Vec<bool> = (0..shared).map(|_| rng.chance(1, 2)).collect();
        let mixed = rng.chance(1, 3);
        let mut labels = vec![];
        for _ in 0..size {
            let total = if mixed { rng.range(shared as u64 + 1, 256) as usize } else { 256 };
            let mut b = prefix.clone();
            while b.len() < total {
                b.push(rng.chance(1, 2));
            }
            labels.push(label_of_bits(&b));
        }
        let ls = labels.iter().map(show_label).collect::<Vec<_>>().join(" ");
        let cut = rng.range(0, shared as u64) as usize;
        let p = label_of_bits(&prefix[..cut]);
        let pfull = label_of_bits(&prefix);
        for mode in ["auto", "un"] {
            out.push(format!("set.partition {mode} {} {ls}", show_label(&pfull)));
            out.push(format!("set.contains {mode} {} {ls}", show_label(&p)));
            out.push(format!("set.contains {mode} {} {ls}", show_label(&labels[0].get_prefix(rng.range(0, 256) as u32))));
            out.push(format!("set.lcp {mode} wv1 {ls}"));
            out.push(format!("set.lcp {mode} exp {ls}"));
        }
        // a probe that differs from every member
        let mut q = prefix.clone();
        q.push(rng.chance(1, 2));
        q.push(rng.chance(1, 2));
        if q.len() <= 256 {
            out.push(format!("set.contains auto {} {ls}", show_label(&label_of_bits(&q))));
            out.push(format!("set.contains un {} {ls}", show_label(&label_of_bits(&q))));
        }
    }
}

pub fn gen_c08_markers(tier: &str, seed: u64) -> Vec<String> {
    let thorough = tier == "thorough";
    let mut rng = Rng::new(seed);
    let mut out = vec![];
    let bound = if thorough { 260 } else { 96 };
    for e in 1..=bound {
        for n in 1..=e {
            for s in 1..=n {
                out.push(format!("mk {s} {n} {e}"));
            }
        }
    }
    // structured corners over the u64 range
    let mut corners: Vec<u64> = vec![1, 2, 3];
    for i in 1..64 {
        let p = 1u64 << i;
        corners.extend([p - 1, p, p + 1]);
    }
    corners.extend([u64::MAX, u64::MAX - 1, (1 << 63) + 12345]);
    corners.sort();
    corners.dedup();
    let n_rand = if thorough { 300_000 } else { 40_000 };
    for _ in 0..n_rand {
        let mut pick = |rng: &mut Rng| -> u64 {
            if rng.chance(1, 2) {
                *rng.pick(&corners)
            } else {
                let bits = rng.range(1, 64);
                let v = rng.next() >> (64 - bits);
                v.max(1)
            }
        };
        let mut t = [pick(&mut rng), pick(&mut rng), pick(&mut rng)];
        if rng.chance(9, 10) {
            t.sort();
        }
        out.push(format!("mk {} {} {}", t[0], t[1], t[2]));
    }
    // inputs the function documents as panicking
    for t in [(0u64, 1u64, 1u64), (1, 0, 1), (1, 1, 0), (0, 0, 0), (5, 300, 7), (3, 2, 1)] {
        out.push(format!("mk {} {} {}", t.0, t.1, t.2));
    }
    out
}
