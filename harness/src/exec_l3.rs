//! Fault enumeration on the real `Directory::publish` (C10): for every storage-operation index k
//! of a publish, re-run it from the same snapshot with operation k failing and check the
//! property's statement on the same instance and on a fresh instance over the same database.
use crate::exec::{Exec, Exp, Wv1};
use crate::exec_l1::L1State;
use crate::faultdb::FaultDb;
use crate::util::*;
use akd::append_only_zks::{AzksParallelismConfig, AzksParallelismOption};
use akd::directory::Directory;
use akd::ecvrf::{HardCodedAkdVRF, VRFKeyStorage};
use akd::storage::manager::StorageManager;
use akd::storage::types::DbRecord;
use akd::verify::history::HistoryVerificationParams;
use akd::{AkdLabel, AkdValue, HistoryParams};
use std::sync::atomic::Ordering;
use std::time::Duration;

pub struct FxState {
    pub cfg: String,
    pub cache: String,
    pub par: AzksParallelismConfig,
    /// committed database contents
    pub records: Vec<DbRecord>,
    pub users: Vec<AkdLabel>,
}

pub fn parse_par(s: &str) -> Option<AzksParallelismConfig> {
    let opt = |t: &str| -> Option<AzksParallelismOption> {
        if t == "off" {
            Some(AzksParallelismOption::Disabled)
        } else if let Some(n) = t.strip_prefix("static") {
            Some(AzksParallelismOption::Static(n.parse().ok()?))
        } else if let Some(n) = t.strip_prefix("avail") {
            Some(AzksParallelismOption::AvailableOr(n.parse().ok()?))
        } else {
            None
        }
    };
    let o = opt(s)?;
    Some(AzksParallelismConfig { insertion: o, preload: o })
}

fn make_mgr(db: &FaultDb, cache: &str) -> StorageManager<FaultDb> {
    match cache {
        "default" => StorageManager::new(db.clone(), None, None, None),
        "1ms" => StorageManager::new(db.clone(), Some(Duration::from_millis(2)), None, Some(Duration::from_millis(2))),
        "tiny" => StorageManager::new(db.clone(), Some(Duration::from_millis(50)), Some(300), Some(Duration::from_millis(2))),
        _ => StorageManager::new_no_cache(db.clone()),
    }
}

macro_rules! with_cfg {
    ($cfg:expr, $tc:ident => $body:expr) => {
        match $cfg {
            "wv1" => {
                type $tc = Wv1;
                $body
            }
            _ => {
                type $tc = Exp;
                $body
            }
        }
    };
}

struct Probe {
    epoch_hash: Option<(u64, [u8; 32])>,
    lookups_ok: bool,
    histories_ok: bool,
    audit_ok: bool,
    detail: String,
    /// verified results per user (lookup, complete history), for comparing two views of storage
    results: Vec<String>,
}

/// observations of a directory instance: epoch hash; every user's lookup/history verify against it
/// and yield `expected`; audit (0..epoch) verifies against `roots`
async fn probe<TC: akd::configuration::Configuration>(
    dir: &Directory<TC, FaultDb, HardCodedAkdVRF>,
    users: &[AkdLabel],
    roots: &[[u8; 32]],
) -> Probe {
    let pk = HardCodedAkdVRF {}.get_vrf_public_key().await.unwrap();
    let eh = dir.get_epoch_hash().await.ok().map(|e| (e.0, e.1));
    let mut p = Probe { epoch_hash: eh, lookups_ok: true, histories_ok: true, audit_ok: true, detail: String::new(), results: vec![] };
    let Some((ep, root)) = eh else { return p };
    for u in users {
        match dir.lookup(u.clone()).await {
            Ok((proof, eh2)) => {
                match akd::verify::lookup_verify::<TC>(pk.as_bytes(), root, ep, u.clone(), proof) {
                    Ok(r) if eh2.0 == ep && eh2.1 == root => p.results.push(format!("L {} {} {} {}", hex_or_dash(&u.0), r.epoch, r.version, hex_or_dash(&r.value.0))),
                    _ => {
                        p.lookups_ok = false;
                        p.detail = format!("lookup of {} does not verify against ({ep},{})", hex_or_dash(&u.0), hex::encode(root));
                    }
                }
            }
            Err(_) => p.results.push(format!("L {} none", hex_or_dash(&u.0))), // unpublished at this state
        }
        match dir.key_history(u, HistoryParams::Complete).await {
            Ok((proof, eh2)) => {
                match akd::verify::key_history_verify::<TC>(pk.as_bytes(), root, ep, u.clone(), proof, HistoryVerificationParams::default()) {
                    Ok(rs) if eh2.0 == ep && eh2.1 == root => p.results.push(format!("H {} {}", hex_or_dash(&u.0), rs.iter().map(|r| format!("({},{},{})", r.epoch, r.version, hex_or_dash(&r.value.0))).collect::<Vec<_>>().join(" "))),
                    _ => {
                        p.histories_ok = false;
                        p.detail = format!("history of {} does not verify against ({ep},{})", hex_or_dash(&u.0), hex::encode(root));
                    }
                }
            }
            Err(_) => p.results.push(format!("H {} none", hex_or_dash(&u.0))),
        }
        // limited histories: records of an unfinished or failed epoch must not use up slots of the window
        for n in [1usize, 2] {
            let hp = HistoryParams::MostRecent(n);
            match dir.key_history(u, hp).await {
                Ok((proof, eh2)) => {
                    match akd::verify::key_history_verify::<TC>(pk.as_bytes(), root, ep, u.clone(), proof, HistoryVerificationParams::Default { history_params: hp }) {
                        Ok(rs) if eh2.0 == ep && eh2.1 == root => p.results.push(format!("H{n} {} {}", hex_or_dash(&u.0), rs.iter().map(|r| format!("({},{},{})", r.epoch, r.version, hex_or_dash(&r.value.0))).collect::<Vec<_>>().join(" "))),
                        _ => {
                            p.histories_ok = false;
                            p.detail = format!("history (most recent {n}) of {} does not verify against ({ep},{})", hex_or_dash(&u.0), hex::encode(root));
                        }
                    }
                }
                Err(_) => p.results.push(format!("H{n} {} none", hex_or_dash(&u.0))),
            }
        }
    }
    if ep >= 1 && roots.len() as u64 == ep + 1 {
        match dir.audit(0, ep).await {
            Ok(ap) => {
                if akd::auditor::audit_verify::<TC>(roots.to_vec(), ap).await.is_err() {
                    p.audit_ok = false;
                    p.detail = format!("audit(0,{ep}) does not verify against the published roots");
                }
            }
            Err(_) => {
                p.audit_ok = false;
                p.detail = format!("audit(0,{ep}) refused");
            }
        }
    }
    p
}

fn sorted(mut v: Vec<DbRecord>) -> Vec<DbRecord> {
    v.sort();
    v
}

/// the `parent` field of a node is bookkeeping no proof reads; two databases are compared without it
fn canon(v: &[DbRecord]) -> Vec<String> {
    let mut out: Vec<String> = v
        .iter()
        .map(|r| match r {
            DbRecord::TreeNode(t) => {
                let mut t = t.clone();
                t.latest_node.parent = akd::NodeLabel::root();
                if let Some(p) = t.previous_node.as_mut() {
                    p.parent = akd::NodeLabel::root();
                }
                format!("{:?}", t)
            }
            other => format!("{:?}", other),
        })
        .collect();
    out.sort();
    out
}

pub fn step(ex: &mut Exec, st: &mut L1State, op: &str, toks: &[&str]) -> Option<String> {
    match op {
        "fx.reset" if toks.len() == 4 => {
            let par = parse_par(toks[3])?;
            let cfg = toks[1].to_string();
            // create the directory once to get the initial records
            let db = FaultDb::new();
            let mgr = make_mgr(&db, "none");
            let ok = with_cfg!(cfg.as_str(), TC => st.rt.block_on(Directory::<TC, _, _>::new(mgr, HardCodedAkdVRF {}, par)).is_ok());
            if !ok {
                return Some("err".into());
            }
            let records = st.rt.block_on(db.snapshot());
            st.inst = None;
            st.fx = Some(FxState { cfg, cache: toks[2].to_string(), par, records, users: vec![] });
            st.fx_roots.clear();
            let root0 = with_cfg!(st.fx.as_ref()?.cfg.as_str(), TC => {
                let db = st.rt.block_on(FaultDb::from_records(&st.fx.as_ref()?.records));
                let dir = st.rt.block_on(Directory::<TC, _, _>::new(make_mgr(&db, "none"), HardCodedAkdVRF {}, par)).ok()?;
                st.rt.block_on(dir.get_epoch_hash()).ok()?.1
            });
            st.fx_roots.push(root0);
            Some("ok".into())
        }
        "fx.publish" | "fx.enum" => {
            let fx = st.fx.as_mut()?;
            let mut ups = vec![];
            let mut i = 1;
            while i + 1 < toks.len() {
                ups.push((AkdLabel(parse_hex(toks[i])?), AkdValue(parse_hex(toks[i + 1])?)));
                i += 2;
            }
            if i != toks.len() {
                return None;
            }
            let rt = &st.rt;
            let cfg = fx.cfg.clone();
            let cache = fx.cache.clone();
            let par = fx.par;
            // fault-free run from the snapshot
            let (res, final_records, k_total, trace) = with_cfg!(cfg.as_str(), TC => {
                let db = rt.block_on(FaultDb::from_records(&fx.records));
                let dir = rt.block_on(Directory::<TC, _, _>::new(make_mgr(&db, &cache), HardCodedAkdVRF {}, par)).ok()?;
                // warm the instance the way a serving directory is: one epoch-hash read (same in every re-run)
                let _ = rt.block_on(dir.get_epoch_hash());
                db.reset_counters();
                let r = rt.block_on(dir.publish(ups.clone())).ok().map(|e| (e.0, e.1));
                let k = db.count.load(Ordering::SeqCst);
                let tr = db.trace.lock().unwrap().clone();
                (r, rt.block_on(db.snapshot()), k, tr)
            });
            if op == "fx.publish" {
                return Some(match res {
                    Some((e, h)) => {
                        fx.records = final_records;
                        for (u, _) in &ups {
                            if !fx.users.contains(u) {
                                fx.users.push(u.clone());
                            }
                        }
                        if st.fx_roots.len() as u64 == e {
                            st.fx_roots.push(h);
                        }
                        ex.stats.bump(op, "ok");
                        format!("ok {} {}", e, hex::encode(h))
                    }
                    None => {
                        ex.stats.bump(op, "err");
                        "err".into()
                    }
                });
            }
            // --- enumeration ---
            let t_enum = std::time::Instant::now();
            let Some((fe, fh)) = res else { return Some("violations=0".into()) };
            let roots = st.fx_roots.clone();
            // the probe after every fault serves every label; on a large directory a sample: the labels of this batch, the
            // first and the last dozen
            let users: Vec<AkdLabel> = if fx.users.len() > 40 {
                let mut v: Vec<AkdLabel> = ups.iter().map(|(u, _)| u.clone()).take(12).collect();
                v.extend(fx.users.iter().take(12).cloned());
                v.extend(fx.users.iter().rev().take(12).cloned());
                v.sort();
                v.dedup();
                v
            } else {
                fx.users.clone()
            };
            let snapshot = fx.records.clone();
            let mut violations = 0usize;
            let mut report = |ex: &mut Exec, k: u64, tag: &str, what: String| {
                violations += 1;
                ex.fail_tag("C10", tag, format!("fault at storage operation {k} of {k_total} [{}] (cache={cache}, {:?}): {what}", trace.get(k as usize).cloned().unwrap_or_default(), par.insertion));
            };
            // trace shape (ties the run to `PublishIO.lean`): nothing but reads before the commit write,
            // and the commit write is the last storage operation of the call
            if let Some(pos) = trace.iter().position(|t| t == "commit") {
                if trace[..pos].iter().any(|t| t == "set" || t == "batch_set") {
                    report(ex, pos as u64, "trace-shape", "a database write precedes the commit".into());
                }
                if pos + 1 != trace.len() {
                    report(ex, pos as u64 + 1, "trace-shape-post-commit-read", format!("storage operations after the commit write: {:?}", &trace[pos + 1..]));
                }
            }
            // with parallel insertion every fault index is tried twice: as fast as the in-memory database goes, and with a read
            // latency of 200 us, which keeps the sub-tasks of the insertion at work while a sibling fails
            let delays: &[u64] = if par.insertion == akd::append_only_zks::AzksParallelismOption::Disabled { &[0] } else { &[0, 200] };
            // a very long call (the large publish without cache): in the quick tier every fourth read index, plus the first and
            // the last forty operations (the commit write is the last one)
            let sample = k_total > 400 && !st.thorough;
            for (k, delay) in (0..k_total).filter(|k| !sample || k % 4 == 0 || *k < 40 || *k + 40 >= k_total).flat_map(|k| delays.iter().map(move |d| (k, *d))) {
                let outcome = with_cfg!(cfg.as_str(), TC => {
                    let db = rt.block_on(FaultDb::from_records(&snapshot));
                    db.read_delay_us.store(delay, Ordering::SeqCst);
                    let mgr = make_mgr(&db, &cache);
                    let dir = rt.block_on(Directory::<TC, _, _>::new(mgr.clone(), HardCodedAkdVRF {}, par)).ok()?;
                    // warm the instance the way a serving directory is: one epoch-hash read
                    let before = rt.block_on(dir.get_epoch_hash()).ok().map(|e| (e.0, e.1));
                    db.reset_counters();
                    db.fail_at.store(k as i64, Ordering::SeqCst);
                    let r = rt.block_on(dir.publish(ups.clone()));
                    db.fail_at.store(-1, Ordering::SeqCst);
                    // let detached tasks (parallel insertion) run to completion
                    rt.block_on(async { tokio::time::sleep(Duration::from_millis(if delay > 0 { 40 } else { 15 })).await });
                    db.read_delay_us.store(0, Ordering::SeqCst);
                    let mut v: Vec<(String, String)> = vec![];
                    match r {
                        // (with an expiring cache the number of storage operations of a run depends on timing: when operation k
                        // did not occur in this run no fault was injected and there is nothing to judge)
                        Ok(_) if !db.fired.load(Ordering::SeqCst) => {}
                        Ok(_) => v.push(("fault-swallowed".into(), "publish returned Ok although a storage operation failed".into())),
                        Err(_) => {
                            if mgr.is_transaction_active() {
                                v.push(("transaction-left-open".into(), "a transaction is still active after the failed publish".into()));
                            }
                            let now = rt.block_on(db.snapshot());
                            if canon(&now) != canon(&snapshot) {
                                v.push(("database-changed".into(), format!("database differs from the pre-call snapshot ({} vs {} records)", now.len(), snapshot.len())));
                            }
                            let p1 = rt.block_on(probe::<TC>(&dir, &users, &roots));
                            if p1.epoch_hash != before {
                                v.push(("epoch-hash-changed".into(), format!("same instance reports {:?}, before the call {:?}", p1.epoch_hash.map(|e| (e.0, hex::encode(e.1))), before.map(|e| (e.0, hex::encode(e.1))))));
                            }
                            if !(p1.lookups_ok && p1.histories_ok && p1.audit_ok) {
                                v.push(("proofs-broken".into(), format!("same instance: {}", p1.detail)));
                            }
                            // a fresh instance over the same database
                            let dir2 = rt.block_on(Directory::<TC, _, _>::new(make_mgr(&db, &cache), HardCodedAkdVRF {}, par)).ok()?;
                            let p2 = rt.block_on(probe::<TC>(&dir2, &users, &roots));
                            if p2.epoch_hash != before {
                                v.push(("epoch-hash-changed-fresh".into(), format!("fresh instance reports {:?}, before the call {:?}", p2.epoch_hash.map(|e| e.0), before.map(|e| e.0))));
                            }
                            if !(p2.lookups_ok && p2.histories_ok && p2.audit_ok) {
                                v.push(("proofs-broken-fresh".into(), format!("fresh instance: {}", p2.detail)));
                            }
                            // retry on the same instance
                            match rt.block_on(dir.publish(ups.clone())) {
                                Ok(eh) => {
                                    if (eh.0, eh.1) != (fe, fh) {
                                        v.push(("retry-differs".into(), format!("retry returned epoch {} root {}, the fault-free run epoch {} root {}", eh.0, hex::encode(eh.1), fe, hex::encode(fh))));
                                    } else if canon(&rt.block_on(db.snapshot())) != canon(&final_records) {
                                        v.push(("retry-state-differs".into(), "database after the retry differs from the fault-free run".into()));
                                    }
                                }
                                Err(e) => v.push(("retry-failed".into(), format!("retry failed: {e}"))),
                            }
                        }
                    }
                    v
                });
                for (tag, what) in outcome {
                    report(ex, k, &tag, what);
                }
            }
            ex.stats.bump(op, &format!("K{}", (k_total / 10) * 10));
            let _ = sorted;
            if std::env::var("VERIF_TIMING").is_ok() {
                eprintln!("fx.enum cfg={} cache={} par={:?} labels={} k_total={} took {:?}", cfg, cache, par.insertion, ups.len(), k_total, t_enum.elapsed());
            }
            Some(format!("violations={violations}"))
        }
        "pc.enum" => {
            // C11: every prefix and many subsets/orders of the commit's record writes (epoch record last)
            let fx = st.fx.as_mut()?;
            let mut ups = vec![];
            let mut i = 1;
            while i + 1 < toks.len() {
                ups.push((AkdLabel(parse_hex(toks[i])?), AkdValue(parse_hex(toks[i + 1])?)));
                i += 2;
            }
            if i != toks.len() {
                return None;
            }
            let rt = &st.rt;
            let cfg = fx.cfg.clone();
            let par = fx.par;
            let snapshot = fx.records.clone();
            let roots = st.fx_roots.clone();
            let mut users = fx.users.clone();
            for (u, _) in &ups {
                if !users.contains(u) {
                    users.push(u.clone());
                }
            }
            let thorough = st.thorough;
            let seed = st.rng.next();
            let out = with_cfg!(cfg.as_str(), TC => {
                // the fault-free publish, with the commit batch captured
                let db = rt.block_on(FaultDb::from_records(&snapshot));
                let dir = rt.block_on(Directory::<TC, _, _>::new(make_mgr(&db, "none"), HardCodedAkdVRF {}, par)).ok()?;
                let before = rt.block_on(probe::<TC>(&dir, &users, &roots));
                let res = rt.block_on(dir.publish(ups.clone()));
                let batch = db.last_commit.lock().unwrap().clone();
                let (Ok(eh), Some(batch)) = (res, batch) else { return Some("violations=0".into()) };
                let mut new_roots = roots.clone();
                if new_roots.len() as u64 == eh.0 {
                    new_roots.push(eh.1);
                }
                let after = rt.block_on(probe::<TC>(&dir, &users, &new_roots));
                let node_recs: Vec<DbRecord> = batch.iter().filter(|r| !matches!(r, DbRecord::Azks(_))).cloned().collect();
                let azks_last = matches!(batch.last(), Some(DbRecord::Azks(_)));
                let mut violations = 0usize;
                if !azks_last {
                    violations += 1;
                    ex.fail_tag("C11", "epoch-record-not-last", "the commit batch does not end with the directory's epoch record".into());
                }
                // the subsets to try: every prefix of the batch order, of the reversed order, and random subsets in random order
                let n = node_recs.len();
                let mut trials: Vec<Vec<usize>> = vec![];
                for k in 0..=n {
                    trials.push((0..k).collect());
                    trials.push((n - k..n).rev().collect());
                }
                let mut rng = crate::rng::Rng::new(seed);
                if n <= (if thorough { 11 } else { 7 }) {
                    for mask in 0u32..(1 << n) {
                        let mut idx: Vec<usize> = (0..n).filter(|i| mask >> i & 1 == 1).collect();
                        rng.shuffle(&mut idx);
                        trials.push(idx);
                    }
                } else {
                    for _ in 0..(if thorough { 400 } else { 60 }) {
                        let mut idx: Vec<usize> = (0..n).filter(|_| rng.chance(1, 2)).collect();
                        rng.shuffle(&mut idx);
                        trials.push(idx);
                    }
                }
                let ntrials = trials.len();
                for idx in trials {
                    let pdb = rt.block_on(FaultDb::from_records(&snapshot));
                    let w: Vec<DbRecord> = idx.iter().map(|i| node_recs[*i].clone()).collect();
                    // value states and node records written so far; one `set` per record, in the chosen order
                    for r in w {
                        rt.block_on(akd::storage::Database::set(&pdb, r)).ok()?;
                    }
                    // a second instance opened on that storage (read-only wrapper and a full directory)
                    let ro = rt.block_on(akd::directory::ReadOnlyDirectory::<TC, _, _>::new(make_mgr(&pdb, "none"), HardCodedAkdVRF {}, par)).ok()?;
                    let ro_eh = rt.block_on(ro.get_epoch_hash()).ok().map(|e| (e.0, e.1));
                    let d2 = rt.block_on(Directory::<TC, _, _>::new(make_mgr(&pdb, "none"), HardCodedAkdVRF {}, par)).ok()?;
                    let p2 = rt.block_on(probe::<TC>(&d2, &users, &roots));
                    let mut bad: Vec<(&str, String)> = vec![];
                    if ro_eh != before.epoch_hash || p2.epoch_hash != before.epoch_hash {
                        bad.push(("partial-commit-visible-epoch", format!("reports {:?} instead of the previous {:?}", p2.epoch_hash.map(|e| (e.0, hex::encode(e.1))), before.epoch_hash.map(|e| (e.0, hex::encode(e.1))))));
                    }
                    if !(p2.lookups_ok && p2.histories_ok && p2.audit_ok) {
                        bad.push(("partial-commit-breaks-proofs", p2.detail.clone()));
                    } else if p2.results != before.results {
                        bad.push(("partial-commit-visible-values", "verified lookup / history results differ from those of the previous epoch".into()));
                    }
                    for (tag, what) in bad {
                        violations += 1;
                        ex.fail_tag("C11", tag, format!("with {} of the {} node records of the commit written (indices {:?}, epoch record not yet written): {}", idx.len(), n, idx, what));
                    }
                }
                // everything written, epoch record last: the new epoch is served completely
                let fdb = rt.block_on(FaultDb::from_records(&snapshot));
                for r in batch.iter() {
                    rt.block_on(akd::storage::Database::set(&fdb, r.clone())).ok()?;
                }
                let d3 = rt.block_on(Directory::<TC, _, _>::new(make_mgr(&fdb, "none"), HardCodedAkdVRF {}, par)).ok()?;
                let p3 = rt.block_on(probe::<TC>(&d3, &users, &new_roots));
                if p3.epoch_hash != Some((eh.0, eh.1)) || !(p3.lookups_ok && p3.histories_ok && p3.audit_ok) || p3.results != after.results {
                    violations += 1;
                    ex.fail_tag("C11", "full-commit-not-served", format!("after all records incl. the epoch record are written the new epoch is not served completely: {}", p3.detail));
                }
                ex.stats.bump("pc.enum", &format!("records{}-trials{}", n.min(20), (ntrials / 50) * 50));
                Some(format!("violations={violations}"))
            });
            out
        }
        _ => crate::exec_pb::step(ex, st, op, toks),
    }
}
