mod exec;
mod exec_l1;
mod exec_l2;
mod exec_l3;
mod exec_l4;
mod exec_pb;
mod gen_pb;
mod vrfcheck;
mod sched;
mod exec_sched;
mod faultdb;
mod eval;
mod gen_l1;
mod gen_trie;
mod gen_l0;
mod rng;
mod util;

use std::io::{BufRead, Write};

fn arg(args: &[String], name: &str) -> Option<String> {
    args.iter()
        .position(|a| a == name)
        .and_then(|i| args.get(i + 1).cloned())
}

fn json_escape(s: &str) -> String {
    let mut o = String::new();
    for c in s.chars() {
        match c {
            '"' => o.push_str("\\\""),
            '\\' => o.push_str("\\\\"),
            '\n' => o.push_str("\\n"),
            c if (c as u32) < 0x20 => o.push_str(&format!("\\u{:04x}", c as u32)),
            c => o.push(c),
        }
    }
    o
}

fn main() {
    let args: Vec<String> = std::env::args().collect();
    let cmd = args.get(1).map(|s| s.as_str()).unwrap_or("");
    // silence the default panic message: a panic is an observation
    if std::env::var("VERIF_PANIC_MSG").is_err() {
        std::panic::set_hook(Box::new(|_| {}));
    }
    match cmd {
        "gen" => {
            let stream = args.get(2).expect("stream");
            let tier = arg(&args, "--tier").unwrap_or("quick".into());
            let seed: u64 = arg(&args, "--seed").and_then(|s| s.parse().ok()).unwrap_or(1);
            let out = arg(&args, "--out").expect("--out");
            let lines = match stream.as_str() {
                "c17" => gen_l0::gen_c17(&tier, seed),
                "c08.markers" => gen_l0::gen_c08_markers(&tier, seed),
                other if other.starts_with("l1.") => gen_l1::generate(other, &tier, seed),
                other => {
                    eprintln!("unknown stream {other}");
                    std::process::exit(2);
                }
            };
            let mut f = std::io::BufWriter::new(std::fs::File::create(&out).unwrap());
            for l in &lines {
                writeln!(f, "{l}").unwrap();
            }
            println!("{}", lines.len());
        }
        "exec" => {
            let inp = arg(&args, "--in").expect("--in");
            let outp = arg(&args, "--out").expect("--out");
            let report = arg(&args, "--report").expect("--report");
            let mut ex = exec::Exec::new();
            {
                // C14 matrix: execution configuration of the implementation side
                let mut l1 = exec_l1::L1State::default();
                if let Some(c) = arg(&args, "--cache") {
                    l1.cache_mode = c;
                }
                if let Some(p) = arg(&args, "--par") {
                    l1.parallelism = exec_l3::parse_par(&p).expect("--par off|staticN|availN");
                }
                if let Some(r) = arg(&args, "--restart") {
                    l1.restart_permille = r.parse().expect("--restart <permille>");
                }
                l1.readonly = args.iter().any(|a| a == "--readonly");
                l1.thorough = arg(&args, "--tier").map(|t| t == "thorough").unwrap_or(false);
                if let Some(s) = arg(&args, "--seed") {
                    l1.rng = rng::Rng::new(s.parse().unwrap_or(7));
                }
                ex.l1 = Some(l1);
            }
            let f = std::io::BufReader::new(std::fs::File::open(&inp).unwrap());
            let mut o = std::io::BufWriter::new(std::fs::File::create(&outp).unwrap());
            for line in f.lines() {
                let line = line.unwrap();
                let obs = ex.step(&line);
                writeln!(o, "{obs}").unwrap();
            }
            o.flush().unwrap();
            // traces of scheduled runs, for validation by the model (a second ops file)
            if let Some(l1) = ex.l1.as_ref() {
                if !l1.sched_traces.is_empty() {
                    std::fs::write(format!("{outp}.traces"), l1.sched_traces.join("\n") + "\n").unwrap();
                }
            }
            // report: JSON with op/class distribution and oracle failures
            let mut r = String::from("{\"ops\":{");
            r.push_str(
                &ex.stats
                    .ops
                    .iter()
                    .map(|(k, v)| format!("\"{}\":{}", json_escape(k), v))
                    .collect::<Vec<_>>()
                    .join(","),
            );
            r.push_str("},\"classes\":{");
            r.push_str(
                &ex.stats
                    .classes
                    .iter()
                    .map(|(k, v)| format!("\"{}\":{}", json_escape(k), v))
                    .collect::<Vec<_>>()
                    .join(","),
            );
            r.push_str("},\"oracle_failures\":[");
            r.push_str(
                &ex.oracle_failures
                    .iter()
                    .enumerate()
                    .map(|(i, (p, n, w, t))| {
                        let replay = match ex.failure_replays.get(&i) {
                            Some(ls) => format!(",\"replay_lines\":[{}]", ls.iter().map(|l| format!("\"{}\"", json_escape(l))).collect::<Vec<_>>().join(",")),
                            None => String::new(),
                        };
                        format!(
                            "{{\"property\":\"{}\",\"line\":{},\"what\":\"{}\",\"tag\":\"{}\"{}}}",
                            json_escape(p),
                            n,
                            json_escape(w),
                            json_escape(t),
                            replay
                        )
                    })
                    .collect::<Vec<_>>()
                    .join(","),
            );
            r.push_str("]}");
            std::fs::write(&report, r).unwrap();
        }
        "eval" => {
            // --ops OPS --in MODEL --out EVAL : replace digest terms by bytes; `reset <cfg>` lines of the
            // ops file select the hash
            let ops = arg(&args, "--ops").expect("--ops");
            let inp = arg(&args, "--in").expect("--in");
            let outp = arg(&args, "--out").expect("--out");
            let fo = std::io::BufReader::new(std::fs::File::open(&ops).unwrap());
            let fi = std::io::BufReader::new(std::fs::File::open(&inp).unwrap());
            let mut o = std::io::BufWriter::new(std::fs::File::create(&outp).unwrap());
            let mut ev = eval::Evaluator::new();
            for (op, line) in fo.lines().zip(fi.lines()) {
                let op = op.unwrap();
                let line = line.unwrap();
                let t: Vec<&str> = op.split_whitespace().collect();
                if t.len() >= 2 && (t[0] == "reset" || t[0] == "fx.reset" || t[0] == "vrfin") {
                    ev.cfg = t[1].to_string();
                }
                writeln!(o, "{}", ev.line(&line)).unwrap();
            }
            o.flush().unwrap();
        }
        _ => {
            eprintln!("usage: harness gen <stream> --tier T --seed S --out F | exec --in OPS --out OBS --report R");
            std::process::exit(2);
        }
    }
}
