//! Generators of the streams above L0: tries (`l1.trie`) and directory histories (`l1.dir.*`).
use crate::exec::{Exp, Wv1};
use crate::rng::Rng;
use crate::util::*;
use akd::ecvrf::{HardCodedAkdVRF, VRFKeyStorage};
use akd::{AkdLabel, NodeLabel, VersionFreshness};

fn rt() -> tokio::runtime::Runtime {
    tokio::runtime::Builder::new_current_thread().enable_all().build().unwrap()
}

pub fn vrf_label(rt: &tokio::runtime::Runtime, cfg: &str, u: &[u8], fresh: bool, v: u64) -> NodeLabel {
    let vrf = HardCodedAkdVRF {};
    let f = if fresh { VersionFreshness::Fresh } else { VersionFreshness::Stale };
    let l = AkdLabel(u.to_vec());
    match cfg {
        "wv1" => rt.block_on(vrf.get_node_label::<Wv1>(&l, f, v)).unwrap(),
        _ => rt.block_on(vrf.get_node_label::<Exp>(&l, f, v)).unwrap(),
    }
}

pub fn key_hex(rt: &tokio::runtime::Runtime) -> String {
    hex::encode(rt.block_on(HardCodedAkdVRF {}.retrieve()).unwrap())
}

pub fn user_pool(rng: &mut Rng, n: usize) -> Vec<Vec<u8>> {
    let mut pool: Vec<Vec<u8>> = vec![
        vec![],                 // the empty label
        vec![0x61],             // 1 byte
        vec![0x61, 0x62],       // extends the previous one
        vec![0x61, 0x62, 0x63],
        (0..300).map(|i| (i % 251) as u8).collect(), // long
        vec![0x00],
        vec![0x00, 0x00],
    ];
    while pool.len() < n {
        let len = rng.range(1, 12) as usize;
        pool.push(rng.bytes(len));
    }
    rng.shuffle(&mut pool);
    pool.truncate(n);
    pool
}

fn value(rng: &mut Rng) -> Vec<u8> {
    match rng.below(12) {
        0 => (0..2048).map(|i| (i % 253) as u8).collect(),
        1 => vec![0],
        _ => {
            let len = rng.range(1, 6) as usize;
            rng.bytes(len)
        }
    }
}

pub struct DirOpts {
    pub epochs: usize,
    pub users: usize,
    pub lookups: bool,
    pub histories: bool,
    pub audits: bool,
    pub dumps: bool,
    pub tombstones: bool,
    pub proofs: bool, // print full proofs (structure comparison) in addition to verification results
    pub hot_user: bool, // one label updated in every epoch (versions 1,2,3,…)
    pub audit_adv: bool, // adversarial audit proofs for the latest transition after each effective publish
    pub lookup_adv: bool,
    pub history_adv: bool,
    pub lag: bool, // read-only instances whose cached epoch record falls behind by 0..3 epochs (C13)
}

/// one directory history as an ops segment
pub fn dir_case(rng: &mut Rng, cfg: &str, o: &DirOpts, out: &mut Vec<String>) {
    let rt = rt();
    out.push(format!("reset {cfg}"));
    out.push(format!("ck {}", key_hex(&rt)));
    let pool = user_pool(rng, o.users);
    let maxv = o.epochs as u64 + 2;
    for u in &pool {
        for v in 1..=maxv {
            for fresh in [true, false] {
                out.push(format!(
                    "vrf {} {} {} {}",
                    hex_or_dash(u),
                    if fresh { "F" } else { "S" },
                    v,
                    show_label(&vrf_label(&rt, cfg, u, fresh, v))
                ));
            }
        }
    }
    // current values as the generator believes them (for re-submissions)
    let allow_empty = !o.histories && !o.history_adv && !o.tombstones && !o.lag;
    let mut current: Vec<Option<Vec<u8>>> = vec![None; pool.len()];
    let mut past: Vec<Vec<Vec<u8>>> = vec![vec![]; pool.len()];
    let mut last_update: Vec<usize> = vec![0; pool.len()];
    let mut nver: Vec<u64> = vec![0; pool.len()];
    let mut epoch = 0usize;
    let mut published: Vec<usize> = vec![];
    let mut scripted_done = false;
    out.push("spec.root".into());
    for step in 0..o.epochs {
        // batch
        let size = match rng.below(10) {
            0 => 0,
            1 => pool.len(),
            _ => rng.range(1, pool.len().min(12) as u64) as usize,
        };
        let mut idx: Vec<usize> = (0..pool.len()).collect();
        rng.shuffle(&mut idx);
        idx.truncate(size);
        if o.hot_user && !idx.contains(&0) {
            idx.push(0);
        }
        let mut batch: Vec<(usize, Vec<u8>)> = vec![];
        let mut changed = false;
        for i in idx {
            let resubmit = current[i].is_some() && rng.chance(3, 10) && !(o.hot_user && i == 0);
            // now and then a value the label carried BEFORE (A -> B -> A): a new version with an old value
            let earlier: Vec<Vec<u8>> = past[i].iter().filter(|x| Some(*x) != current[i].as_ref()).cloned().collect();
            let v = if resubmit {
                current[i].clone().unwrap()
            } else if !earlier.is_empty() && rng.chance(1, 6) {
                earlier[rng.below(earlier.len() as u64) as usize].clone()
            } else if allow_empty && rng.chance(1, 9) {
                // the EMPTY value is a legal value (it merely coincides with the tombstone); only in streams that do not
                // verify histories, whose strict verifier rejects an empty value by design
                vec![]
            } else {
                value(rng)
            };
            if current[i].as_ref() != Some(&v) {
                changed = true;
            }
            batch.push((i, v));
        }
        // malformed stream: a repeated label now and then
        // (all shapes: two new values, the current value together with a new one in either order, the
        // current value twice next to other labels that change, the same new value twice; at any position)
        let dup = rng.chance(1, 7) && !batch.is_empty();
        if dup {
            // prefer a label that already has a value
            let with_value: Vec<usize> = (0..batch.len()).filter(|j| current[batch[*j].0].is_some()).collect();
            let j = if !with_value.is_empty() && rng.chance(2, 3) { with_value[rng.below(with_value.len() as u64) as usize] } else { rng.below(batch.len() as u64) as usize };
            let i = batch[j].0;
            let cur = current[i].clone();
            let (first, second) = match (rng.below(5), cur) {
                (0, Some(c)) => (c, value(rng)),
                (1, Some(c)) => (value(rng), c),
                (2, Some(c)) => (c.clone(), c),
                (3, _) => {
                    let v = value(rng);
                    (v.clone(), v)
                }
                _ => (value(rng), value(rng)),
            };
            batch[j].1 = first;
            let at = rng.below(batch.len() as u64 + 1) as usize;
            batch.insert(at, (i, second));
        }
        let line = batch
            .iter()
            .map(|(i, v)| format!("{} {}", hex_or_dash(&pool[*i]), hex_or_dash(v)))
            .collect::<Vec<_>>()
            .join(" ");
        out.push(format!("dir.publish {line}").trim_end().to_string());
        if !dup && changed {
            epoch += 1;
            for (i, v) in &batch {
                if current[*i].as_ref() != Some(v) {
                    last_update[*i] = epoch;
                    nver[*i] += 1;
                }
                current[*i] = Some(v.clone());
                if !past[*i].contains(v) {
                    past[*i].push(v.clone());
                }
                if !published.contains(i) {
                    published.push(*i);
                }
            }
        }
        out.push("dir.epochhash".into());
        out.push("spec.root".into());
        if !scripted_done && !published.is_empty() {
            scripted_done = true;
            // every shape of a repeated label, once per case, next to a label that really changes: all must be
            // rejected without effect (these extra calls are not counted as epochs)
            let i = published[0];
            let other = (0..pool.len()).find(|k| *k != i).unwrap_or(i);
            let cur = current[i].clone().unwrap();
            let hu = hex_or_dash(&pool[i]);
            let ho = hex_or_dash(&pool[other]);
            let (n1, n2, n3) = (value(rng), value(rng), value(rng));
            let shapes: Vec<String> = vec![
                format!("{hu} {} {ho} {} {hu} {}", hex_or_dash(&cur), hex_or_dash(&n3), hex_or_dash(&n1)),
                format!("{hu} {} {ho} {} {hu} {}", hex_or_dash(&n1), hex_or_dash(&n3), hex_or_dash(&cur)),
                format!("{hu} {} {ho} {} {hu} {}", hex_or_dash(&cur), hex_or_dash(&n3), hex_or_dash(&cur)),
                format!("{hu} {} {hu} {} {ho} {}", hex_or_dash(&n1), hex_or_dash(&n1), hex_or_dash(&n3)),
                format!("{ho} {} {hu} {} {hu} {}", hex_or_dash(&n3), hex_or_dash(&n1), hex_or_dash(&n2)),
                format!("{hu} {} {hu} {}", hex_or_dash(&cur), hex_or_dash(&n1)),
            ];
            for sh in shapes {
                out.push(format!("dir.publish {sh}"));
                out.push("dir.epochhash".into());
                out.push("spec.root".into());
            }
        }
        if o.dumps && (o.epochs <= 8 || step % 3 == 0) {
            out.push("dir.dump".into());
        }
        if o.lookups {
            for u in pool.iter() {
                let hu = hex_or_dash(u);
                if o.proofs {
                    out.push(format!("dir.lookup {hu}"));
                }
                out.push(format!("spec.lookup {hu}"));
            }
            // batch lookups: all published labels, a random sub-batch (with a repeated label), a batch containing a label that
            // was never published (the whole call fails), the empty batch
            let publ: Vec<String> = pool.iter().enumerate().filter(|(i, _)| nver[*i] > 0).map(|(_, u)| hex_or_dash(u)).collect();
            let unpub: Vec<String> = pool.iter().enumerate().filter(|(i, _)| nver[*i] == 0).map(|(_, u)| hex_or_dash(u)).collect();
            if !publ.is_empty() {
                let mut sub: Vec<String> = publ.iter().filter(|_| rng.chance(1, 2)).cloned().collect();
                sub.push(publ[rng.below(publ.len() as u64) as usize].clone());
                rng.shuffle(&mut sub);
                for b in [publ.clone(), sub] {
                    if o.proofs {
                        out.push(format!("dir.batchlookup {}", b.join(" ")));
                    }
                    out.push(format!("spec.batchlookup {}", b.join(" ")));
                }
                if let Some(x) = unpub.first() {
                    out.push(format!("dir.batchlookup {} {}", publ[0], x));
                    out.push(format!("spec.batchlookup {} {}", x, publ[0]));
                }
            }
            if step % 4 == 0 {
                out.push("dir.batchlookup".into());
            }
        }
        if o.histories && (step % 2 == 1 || step + 1 == o.epochs) {
            for (k, u) in pool.iter().enumerate() {
                let hu = hex_or_dash(u);
                let mut params = vec!["complete".to_string(), "recent:1".into(), "recent:2".into(), "recent:1000".into()];
                if k == 0 {
                    params.extend(["recent:3".to_string(), format!("recent:{}", epoch.max(1)), format!("recent:{}", epoch + 1)]);
                }
                for p in params {
                    if o.proofs && (p == "complete" || p == "recent:2") {
                        out.push(format!("dir.history {hu} {p}"));
                    }
                    out.push(format!("spec.history {hu} {p}"));
                    if p == "complete" || p == "recent:2" {
                        out.push(format!("dir.verify.history {hu} {p} allow"));
                    }
                }
            }
        }
        if o.audits && (step + 1 == o.epochs || step % 4 == 3) {
            for s in 0..=epoch + 1 {
                for e in 0..=epoch + 1 {
                    if o.proofs && s < e && e <= epoch && (e - s <= 2 || s == 0) {
                        out.push(format!("dir.audit {s} {e}"));
                    }
                    out.push(format!("dir.verify.audit {s} {e}"));
                }
            }
        }
        if o.lag {
            // readers 0..3 are re-pinned in rotation, so that at any time they lag by 0,1,2,3 effective epochs
            let k = step % 4;
            for r in 0..4usize {
                if step >= 4 || r <= step {
                    if r == k {
                        out.push(format!("lag.new {r}"));
                    }
                }
            }
            for r in 0..4usize {
                if step < 4 && r > step {
                    continue;
                }
                out.push(format!("lag.epochhash {r}"));
                for u in pool.iter().take(4) {
                    let hu = hex_or_dash(u);
                    out.push(format!("lag.lookup {r} {hu}"));
                    out.push(format!("lag.history {r} {hu} complete"));
                    out.push(format!("lag.history {r} {hu} recent:1"));
                    // a window larger than one: states ahead of the served epoch must not use up its slots
                    out.push(format!("lag.history {r} {hu} recent:2"));
                    out.push(format!("lag.history {r} {hu} recent:3"));
                }
                if epoch >= 1 {
                    out.push(format!("lag.audit {r} 0 {}", epoch));
                    out.push(format!("lag.audit {r} {} {}", epoch - 1, epoch));
                    if epoch >= 3 {
                        out.push(format!("lag.audit {r} {} {}", epoch - 3, epoch - 1));
                    }
                }
            }
        }
        if o.lag {
            // readers 10/11 keep what they have read for an hour; 10 is re-created every third epoch and warmed with
            // every kind of request, 11 lives for the whole history.  Judged by the oracle alone.
            if step % 3 == 0 {
                out.push("o.lagc.new 10".into());
            }
            if step == 0 {
                out.push("o.lagc.new 11".into());
            }
            for r in [10usize, 11] {
                out.push(format!("o.lagc.epochhash {r}"));
                for u in pool.iter().take(4) {
                    let hu = hex_or_dash(u);
                    out.push(format!("o.lagc.lookup {r} {hu}"));
                    out.push(format!("o.lagc.history {r} {hu} complete"));
                    out.push(format!("o.lagc.history {r} {hu} recent:2"));
                }
                if epoch >= 1 {
                    out.push(format!("o.lagc.audit {r} 0 {}", epoch));
                    out.push(format!("o.lagc.audit {r} {} {}", epoch - 1, epoch));
                }
                out.push(format!("o.lagc.epochhash {r}"));
            }
        }
        if o.lookup_adv && (step % 2 == 0 || step + 1 == o.epochs) {
            for (i, u) in pool.iter().enumerate() {
                let hu = hex_or_dash(u);
                out.push(format!("adv.lookup {hu}"));
                if nver[i] == 0 {
                    continue;
                }
                let other = hex_or_dash(&pool[(i + 1) % pool.len()]);
                for v in 1..=nver[i] {
                    if v < nver[i] || v == 1 {
                        out.push(format!("adv.lookup {hu} version:{v}"));
                    }
                    if v < nver[i] {
                        for k in 0..4 {
                            out.push(format!("adv.lookup {hu} version:{v} fresh.anchor:{k}"));
                        }
                        out.push(format!("adv.lookup {hu} version:{v} swap.fresh:{other}"));
                        out.push(format!("adv.lookup {hu} version:{v} marker.rootproof fresh.anchor:0"));
                        // the retired label "proved" absent under another length (its 32 bytes are bound by the VRF
                        // proof, its length must be too)
                        for n in [255u32, 254, 248, 1, 0] {
                            out.push(format!("adv.lookup {hu} version:{v} fresh.len:{n}"));
                        }
                    }
                }
                out.push(format!("adv.lookup {hu} fresh.anchor:0"));
                out.push(format!("adv.lookup {hu} fresh.anchor:1"));
                out.push(format!("adv.lookup {hu} value:ff00"));
                out.push(format!("adv.lookup {hu} value:-"));
                out.push(format!("adv.lookup {hu} epoch:{}", last_update[i] + 1));
                out.push(format!("adv.lookup {hu} epoch:{}", last_update[i].saturating_sub(1)));
                out.push(format!("adv.lookup {hu} vfield:{}", nver[i] + 1));
                out.push(format!("adv.lookup {hu} vfield:{}", nver[i].saturating_sub(1)));
                out.push(format!("adv.lookup {hu} vfield:{}", epoch + 5));
                // material of OTHER EPOCHS' trees: the proof served one, two and many epochs ago, whole or in parts
                for back in [1usize, 2, 5] {
                    if epoch > back && last_update[i] > 0 {
                        let e = epoch - back;
                        for part in ["full", "exist", "marker", "fresh"] {
                            out.push(format!("adv.lookup {hu} old.{part}:{e}"));
                        }
                    }
                }
                out.push(format!("adv.lookup {hu} fresh.len:255"));
                out.push(format!("adv.lookup {hu} fresh.len:257"));
                out.push(format!("adv.lookup {hu} exist.len:255"));
                out.push(format!("adv.lookup {hu} marker.len:255"));
                out.push(format!("adv.lookup {hu} exist.len:0"));
                out.push(format!("adv.lookup {hu} nonce.zero"));
                out.push(format!("adv.lookup {hu} marker.rootproof"));
                out.push(format!("adv.lookup {hu} exist.rootproof"));
                out.push(format!("adv.lookup {hu} swap.exist:{other}"));
                out.push(format!("adv.lookup {hu} swap.marker:{other}"));
                out.push(format!("adv.lookup {hu} swap.fresh:{other}"));
            }
        }
        if o.history_adv && (step % 3 == 2 || step + 1 == o.epochs) {
            for (i, u) in pool.iter().enumerate() {
                let hu = hex_or_dash(u);
                for mode in ["default", "allow"] {
                    out.push(format!("adv.invent {hu} {} complete {mode}", epoch.max(1)));
                    out.push(format!("adv.invent {hu} 1 recent:1 {mode}"));
                }
                if nver[i] == 0 {
                    out.push(format!("adv.history {hu} complete default"));
                    continue;
                }
                let n = nver[i] as usize;
                for prm in ["complete".to_string(), "recent:2".to_string(), format!("recent:{}", n)] {
                    for mode in ["default", "allow"] {
                        let base = format!("adv.history {hu} {prm} {mode}");
                        out.push(base.clone());
                        out.push(format!("{base} drop.newest:1"));
                        for k in 0..3 {
                            out.push(format!("{base} drop.newest:1 future.anchor:0:{k}"));
                        }
                        out.push(format!("{base} drop.newest:2 future.anchor:0:0 future.anchor:1:0"));
                        // hidden newest version(s) "proved" absent under another label length
                        for nl in [255u32, 248, 0] {
                            out.push(format!("{base} drop.newest:1 future.len:0:{nl}"));
                        }
                        out.push(format!("{base} drop.newest:2 future.len:0:255 future.len:1:255"));
                        out.push(format!("{base} future.len:0:255"));
                        out.push(format!("{base} past.len:0:255"));
                        out.push(format!("{base} prev.len:0:255"));
                        out.push(format!("{base} drop.oldest:1"));
                        out.push(format!("{base} gap:1"));
                        out.push(format!("{base} gap:0"));
                        out.push(format!("{base} dup:0"));
                        out.push(format!("{base} swapupd:0:1"));
                        // a version hidden behind a duplicate of its neighbour (count, first and last entry unchanged)
                        out.push(format!("{base} copy:1:0"));
                        out.push(format!("{base} copy:1:2"));
                        if n >= 3 {
                            out.push(format!("{base} copy:{}:{}", n - 2, n - 1));
                            out.push(format!("{base} copy:{}:{}", n - 2, n - 3));
                        }
                        out.push(format!("{base} copy:0:1"));
                        // random re-arrangements (selection with repetition) of the updates and of the marker lists
                        for _ in 0..6 {
                            let len = (n as i64 + rng.range(0, 2) as i64 - 1).max(1) as usize;
                            let idx: Vec<String> = (0..len).map(|k| if rng.chance(2, 3) { k.min(n - 1).to_string() } else { rng.below(n as u64).to_string() }).collect();
                            out.push(format!("{base} sel:{}", idx.join(",")));
                        }
                        for _ in 0..2 {
                            let idx: Vec<String> = (0..rng.range(1, 4)).map(|_| rng.below(4).to_string()).collect();
                            out.push(format!("{base} pastsel:{}", idx.join(",")));
                            out.push(format!("{base} futuresel:{}", idx.join(",")));
                            out.push(format!("{base} drop.newest:1 futuresel:{}", idx.join(",")));
                        }
                        out.push(format!("{base} value:0:ff"));
                        out.push(format!("{base} value:{}:ee", n.saturating_sub(1)));
                        out.push(format!("{base} epoch:0:{}", epoch + 1));
                        out.push(format!("{base} epoch:0:{}", last_update[i].saturating_sub(1)));
                        out.push(format!("{base} epoch:{}:{}", n.saturating_sub(1), epoch));
                        out.push(format!("{base} tomb:0"));
                        out.push(format!("{base} tomb:{}", n.saturating_sub(1)));
                        out.push(format!("{base} tomb:{} epoch:{}:{}", n.saturating_sub(1), n.saturating_sub(1), epoch.max(2) - 1));
                        out.push(format!("{base} tomb:0 epoch:0:{}", epoch + 1));
                        out.push(format!("{base} noprev:0"));
                        out.push(format!("{base} past.drop:0"));
                        out.push(format!("{base} future.drop:0"));
                        out.push(format!("{base} past.rootproof:0"));
                        out.push(format!("{base} tomb:0 exist.rootproof:0"));
                        out.push(format!("{base} exist.rootproof:0"));
                    }
                }
            }
        }
        if o.audit_adv && !dup && changed && epoch >= 1 {
            let e = epoch - 1;
            let r32 = |rng: &mut Rng| hex::encode(rng.bytes(32));
            out.push(format!("adv.audit {e}"));
            out.push(format!("adv.audit {e} end:rebuilt"));
            out.push(format!("adv.audit {e} epoch:1"));
            out.push(format!("adv.audit {e} epoch:1 end:rebuilt"));
            for j in 0..3 {
                let v = r32(rng);
                out.push(format!("adv.audit {e} ins.ext:{j}:{v} end:rebuilt"));
                out.push(format!("adv.audit {e} ins.ext:{j}:{v}"));
                out.push(format!("adv.audit {e} unch.drop:{j} end:rebuilt"));
                out.push(format!("adv.audit {e} unch.drop:{j}"));
                out.push(format!("adv.audit {e} ins.drop:{j} end:rebuilt"));
                out.push(format!("adv.audit {e} ins.drop:{j}"));
                out.push(format!("adv.audit {e} unch.dup:{j} end:rebuilt"));
                out.push(format!("adv.audit {e} ins.dup:{j} end:rebuilt"));
                out.push(format!("adv.audit {e} unch.toins:{j} end:rebuilt"));
                out.push(format!("adv.audit {e} ins.tounch:{j} end:rebuilt"));
                out.push(format!("adv.audit {e} ins.copylabel:0:{j} end:rebuilt"));
                out.push(format!("adv.audit {e} ins.copylabel:{j}:{} end:rebuilt", (j + 1) % 3));
                for n in [0u32, 1, 2, 7, 8] {
                    out.push(format!("adv.audit {e} ins.addprefix:{j}:{n}:{} end:rebuilt", r32(rng)));
                }
                out.push(format!("adv.audit {e} unch.relabel:{j}:{} end:rebuilt", show_label(&NodeLabel::root())));
                out.push(format!("adv.audit {e} ins.ext:{j}:{} ins.ext:{}:{} end:rebuilt", r32(rng), (j + 1) % 3, r32(rng)));
            }
            // multi-step audits with one dishonest step (first, middle, last): every step must start from the hash before it
            if e >= 2 {
                for (s0, k) in [(e - 2, 3u64), (e - 1, 2)] {
                    for i in 0..k {
                        out.push(format!("adv.auditn {s0} {k} {i}"));
                        for j in 0..2 {
                            out.push(format!("adv.auditn {s0} {k} {i} unch.drop:{j} end:rebuilt"));
                            out.push(format!("adv.auditn {s0} {k} {i} ins.ext:{j}:{} end:rebuilt", r32(rng)));
                            out.push(format!("adv.auditn {s0} {k} {i} unch.dup:{j} end:rebuilt"));
                            out.push(format!("adv.auditn {s0} {k} {i} ins.drop:{j} end:rebuilt"));
                            out.push(format!("adv.auditn {s0} {k} {i} unch.drop:{j}"));
                        }
                    }
                }
            }
            out.push(format!("adv.audit {e} ins.add:{}:{} end:rebuilt", show_label(&label_of_bits(&vec![true; 256])), r32(rng)));
            out.push(format!("adv.audit {e} ins.add:{}:{}", show_label(&label_of_bits(&vec![true; 256])), r32(rng)));
        }
        if o.tombstones && rng.chance(1, 3) && !published.is_empty() {
            let i = *rng.pick(&published);
            // the property speaks of cut-offs BEFORE the label's latest update
            if last_update[i] == 0 {
                continue;
            }
            let cut = rng.range(0, last_update[i] as u64 - 1);
            out.push(format!("dir.tombstone {} {}", hex_or_dash(&pool[i]), cut));
            out.push("dir.epochhash".into());
            out.push("spec.root".into());
            for u in pool.iter() {
                let hu = hex_or_dash(u);
                out.push(format!("spec.lookup {hu}"));
                for p in ["complete", "recent:1", "recent:2", "recent:3"] {
                    out.push(format!("spec.history.tomb {hu} {p} allow"));
                    out.push(format!("spec.history.tomb {hu} {p} default"));
                }
            }
            if epoch >= 1 {
                out.push(format!("dir.verify.audit 0 {epoch}"));
            }
        }
    }
}

pub fn generate(stream: &str, tier: &str, seed: u64) -> Vec<String> {
    let thorough = tier == "thorough";
    let mut rng = Rng::new(seed ^ 0x11);
    let mut out = vec![];
    let (ncases, epochs, users) = if thorough { (10, 34, 8) } else { (4, 9, 6) };
    match stream {
        "l1.trie" => crate::gen_trie::gen_trie(&mut rng, thorough, &mut out),
        "l1.store" => gen_store(&mut rng, thorough, &mut out),
        "l1.pb" => crate::gen_pb::gen_pb(&mut rng, thorough, &mut out),
        "l1.c14" => {
            // histories with every kind of read, verified (C14: the configuration matrix replays this stream)
            for i in 0..(if thorough { 6 } else { 2 }) {
                let o = DirOpts { epochs: if thorough { 14 } else { 7 }, users: 6, lookups: true, histories: true, audits: true, dumps: false, tombstones: false, proofs: false, hot_user: i % 2 == 0, audit_adv: false, lookup_adv: false, history_adv: false, lag: false };
                dir_case(&mut rng, if i % 2 == 0 { "wv1" } else { "exp" }, &o, &mut out);
            }
            // one large publish (thresholds in the parallel label derivation / insertion / preloading)
            big_batch_case(&mut rng, "exp", 1031, &mut out);
            // sequential vs parallel insertion on structured (tree, batch) pairs
            out.push(format!("o.par.sweep wv1 {} {}", if thorough { 3000 } else { 500 }, rng.next() % 1000));
            out.push(format!("o.par.sweep exp {} {}", if thorough { 3000 } else { 500 }, rng.next() % 1000));
            crate::gen_trie::gen_perm(&mut rng, thorough, &mut out);
        }
        "l1.fault" => gen_fault(&mut rng, thorough, &mut out),
        "l1.vrf" => gen_vrf(&mut rng, thorough, &mut out),
        "l1.sched" => gen_sched(&mut rng, thorough, &mut out),
        "l1.sched.read" => gen_sched_read(&mut rng, thorough, &mut out),
        "l1.sched.poll" => gen_sched_poll(&mut rng, thorough, &mut out),
        "l1.sched.hist" => gen_sched_hist(&mut rng, thorough, &mut out),
        "l1.sched.flush" => gen_sched_flush(&mut rng, thorough, &mut out),
        "l1.partial" => gen_partial(&mut rng, thorough, &mut out),
        "l1.dir.c01" => {
            // one LARGE publish per configuration (label derivation and insertion behave differently above thresholds)
            for cfg in ["wv1", "exp"] {
                big_batch_case(&mut rng, cfg, if thorough { 2600 } else { 1031 }, &mut out);
            }
            for i in 0..ncases {
                let o = DirOpts { epochs: epochs + (i % 3) * 4, users, lookups: false, histories: false, audits: false, dumps: true, tombstones: false, proofs: false, hot_user: i % 2 == 0, audit_adv: false, lookup_adv: false, history_adv: false, lag: false };
                dir_case(&mut rng, if i % 2 == 0 { "wv1" } else { "exp" }, &o, &mut out);
            }
        }
        "l1.dir.c02" => {
            for i in 0..ncases {
                let o = DirOpts { epochs: if i == 0 { epochs.max(18) } else { epochs }, users, lookups: true, histories: false, audits: false, dumps: false, tombstones: false, proofs: true, hot_user: i < 2, audit_adv: false, lookup_adv: false, history_adv: false, lag: false };
                dir_case(&mut rng, if i % 2 == 0 { "wv1" } else { "exp" }, &o, &mut out);
            }
        }
        "l1.dir.c03" => {
            for i in 0..ncases {
                let o = DirOpts { epochs: if i == 0 { epochs.max(18) } else { epochs }, users: users.min(5), lookups: false, histories: true, audits: false, dumps: false, tombstones: false, proofs: true, hot_user: i < 2, audit_adv: false, lookup_adv: false, history_adv: false, lag: i % 4 == 1 };
                dir_case(&mut rng, if i % 2 == 0 { "exp" } else { "wv1" }, &o, &mut out);
            }
        }
        "l1.dir.c04" => {
            for i in 0..ncases {
                let o = DirOpts { epochs: epochs.min(12), users, lookups: false, histories: false, audits: true, dumps: false, tombstones: false, proofs: true, hot_user: i % 2 == 1, audit_adv: false, lookup_adv: false, history_adv: false, lag: false };
                dir_case(&mut rng, if i % 2 == 0 { "wv1" } else { "exp" }, &o, &mut out);
            }
        }
        "l1.dir.c06" => {
            for i in 0..ncases {
                let o = DirOpts { epochs: if i == 0 { epochs.max(12) } else { epochs }, users: users.min(5), lookups: false, histories: false, audits: false, dumps: false, tombstones: false, proofs: false, hot_user: i < 2, audit_adv: false, lookup_adv: true, history_adv: false, lag: false };
                dir_case(&mut rng, if i % 2 == 0 { "wv1" } else { "exp" }, &o, &mut out);
            }
        }
        "l1.dir.c07" => {
            // the tree itself is dishonest: a version whose predecessor was not retired in the epoch of its replacement
            for cfg in ["wv1", "exp"] {
                unretired_case(&mut rng, cfg, &mut out);
            }
            for i in 0..ncases {
                let o = DirOpts { epochs: if i == 0 { epochs.max(12) } else { epochs }, users: users.min(4), lookups: false, histories: false, audits: false, dumps: false, tombstones: false, proofs: false, hot_user: i < 2, audit_adv: false, lookup_adv: false, history_adv: true, lag: false };
                dir_case(&mut rng, if i % 2 == 0 { "exp" } else { "wv1" }, &o, &mut out);
            }
        }
        "l1.dir.c13" => {
            for cfg in ["wv1", "exp"] {
                lag_partial_cache_case(&mut rng, cfg, if thorough { 120 } else { 48 }, &mut out);
            }
            for i in 0..ncases {
                let o = DirOpts { epochs: epochs.max(10), users: users.min(5), lookups: false, histories: false, audits: false, dumps: false, tombstones: false, proofs: false, hot_user: true, audit_adv: false, lookup_adv: false, history_adv: false, lag: true };
                dir_case(&mut rng, if i % 2 == 0 { "wv1" } else { "exp" }, &o, &mut out);
            }
        }
        "l1.dir.c09" => {
            for i in 0..ncases {
                let o = DirOpts { epochs: epochs.min(10), users, lookups: false, histories: false, audits: false, dumps: false, tombstones: false, proofs: false, hot_user: i % 2 == 1, audit_adv: true, lookup_adv: false, history_adv: false, lag: false };
                dir_case(&mut rng, if i % 2 == 0 { "wv1" } else { "exp" }, &o, &mut out);
            }
        }
        "l1.dir.c20" => {
            for i in 0..ncases {
                let o = DirOpts { epochs, users: users.min(5), lookups: false, histories: false, audits: false, dumps: false, tombstones: true, proofs: false, hot_user: i % 2 == 0, audit_adv: false, lookup_adv: false, history_adv: false, lag: false };
                dir_case(&mut rng, if i % 2 == 0 { "wv1" } else { "exp" }, &o, &mut out);
            }
        }
        other => {
            eprintln!("unknown stream {other}");
            std::process::exit(2);
        }
    }
    out
}

/// `l1.store`: random operation sequences through one storage manager (C15 / C16).
pub fn gen_store(rng: &mut Rng, thorough: bool, out: &mut Vec<String>) {
    let ncases = if thorough { 400 } else { 60 };
    // a flush in every state of the manager, after another writer changed the database behind the cache
    for _ in 0..(if thorough { 4 } else { 1 }) {
        out.push(format!("o.st.flushprobe {}", rng.below(1 << 30)));
    }
    for case in 0..ncases {
        let mode = match case % 4 { 0 => "nocache", 3 => "tiny", _ => "cache" };
        out.push(format!("st.reset {mode}"));
        // well-formed plan: per user a set of epochs, version = rank of the epoch
        let users = 3u64;
        let mut plan: Vec<Vec<u64>> = vec![];
        for _ in 0..users {
            let mut eps: Vec<u64> = (1..=6).filter(|_| rng.chance(3, 5)).collect();
            if eps.is_empty() {
                eps.push(rng.range(1, 6));
            }
            plan.push(eps);
        }
        let vs_rec = |rng: &mut Rng, plan: &Vec<Vec<u64>>| -> String {
            let u = rng.below(users) as usize;
            let i = rng.below(plan[u].len() as u64) as usize;
            let pay = if rng.chance(1, 8) { 0 } else { rng.range(1, 9) };
            format!("vs:{}:{}:{}:{}", u, plan[u][i], i + 1, pay)
        };
        let any_rec = |rng: &mut Rng, plan: &Vec<Vec<u64>>| -> String {
            match rng.below(6) {
                0 => format!("azks:{}:{}", rng.range(1, 5), rng.range(0, 6)),
                1 | 2 => format!("node:{}:{}:{}", rng.range(0, 3), rng.range(0, 6), rng.range(1, 9)),
                _ => vs_rec(rng, plan),
            }
        };
        let any_key = |rng: &mut Rng| -> String {
            match rng.below(5) {
                0 => "azks".into(),
                1 | 2 => format!("node:{}", rng.range(0, 3)),
                _ => format!("vs:{}:{}", rng.below(users), rng.range(1, 6)),
            }
        };
        let flag = |rng: &mut Rng| -> String {
            match rng.below(5) {
                0 => "max".into(),
                1 => "min".into(),
                2 => format!("ver:{}", rng.range(1, 5)),
                3 => format!("ep:{}", rng.range(1, 6)),
                _ => format!("leq:{}", rng.range(0, 7)),
            }
        };
        let n = rng.range(5, 60);
        let mut in_txn = false;
        for _ in 0..n {
            let fail = if rng.chance(15, 100) { 1 } else { 0 };
            // reads that the database rejects observe what is cached: not under memory pressure (see exec_l2 `st.reset`)
            let rfail = if mode == "tiny" { 0 } else { fail };
            match rng.below(20) {
                0 | 1 | 2 => out.push(format!("st.set {} {fail}", any_rec(rng, &plan))),
                3 | 4 => {
                    let k = rng.range(0, 4);
                    let rs: Vec<String> = (0..k).map(|_| any_rec(rng, &plan)).collect();
                    out.push(format!("st.batchset {fail} {}", rs.join(" ")).trim_end().to_string());
                }
                5 | 6 | 7 => out.push(format!("st.get {} {rfail}", any_key(rng))),
                8 => {
                    let k = rng.range(0, 5);
                    let ks: Vec<String> = (0..k).map(|_| any_key(rng)).filter(|k| k != "azks").collect();
                    out.push(format!("st.batchget {rfail} {}", ks.join(" ")).trim_end().to_string());
                }
                9 => {
                    out.push("st.begin".into());
                    in_txn = true;
                }
                10 => {
                    if in_txn && rng.chance(4, 5) {
                        out.push(format!("st.set azks:{}:{} 0", rng.range(1, 5), rng.range(1, 7)));
                    }
                    out.push(format!("st.commit {fail}"));
                    in_txn = false;
                }
                11 => {
                    if rng.chance(1, 2) {
                        out.push("st.rollback".into());
                        in_txn = false;
                    } else {
                        out.push("st.flush".into());
                        out.push("st.get azks 0".into());
                    }
                }
                12 => out.push("st.sleep".into()),
                13 | 14 => out.push(format!("st.userstate {} {} {rfail}", rng.below(users + 1), flag(rng))),
                15 | 16 => out.push(format!("st.userdata {} {rfail}", rng.below(users + 1))),
                17 | 18 => {
                    let k = rng.range(1, 4);
                    let us: Vec<String> = (0..k).map(|_| rng.below(users + 1).to_string()).collect();
                    out.push(format!("st.userversions {} {rfail} {}", flag(rng), us.join(" ")));
                }
                _ => {
                    if !in_txn {
                        out.push(format!("st.tombstone {} {} {fail}", rng.below(users), rng.range(0, 6)));
                    } else {
                        out.push("st.active".into());
                    }
                }
            }
        }
        out.push("st.active".into());
        out.push("st.dbdump".into());
    }
    gen_store_txn(rng, thorough, out);
}

/// dense part of `l1.store` (C15): committed states, then a transaction in which EVERY write (single, batched,
/// tombstone) is followed by the full battery of reads — every user x every retrieval flag, all states, bulk
/// versions, every key — each judged against the same read after committing the pending records
fn gen_store_txn(rng: &mut Rng, thorough: bool, out: &mut Vec<String>) {
    let ncases = if thorough { 150 } else { 16 };
    let users = 3u64;
    let probe = |out: &mut Vec<String>| {
        let mut flags: Vec<String> = vec!["max".into(), "min".into()];
        flags.extend((0..=6).map(|e| format!("leq:{e}")));
        flags.extend((1..=4).map(|v| format!("ver:{v}")));
        flags.extend((1..=6).map(|e| format!("ep:{e}")));
        for u in 0..=users {
            for f in &flags {
                out.push(format!("st.userstate {u} {f} 0"));
            }
            out.push(format!("st.userdata {u} 0"));
        }
        for f in ["max", "min", "leq:2", "leq:4", "ver:2", "ep:3"] {
            out.push(format!("st.userversions {f} 0 0 1 2 3"));
        }
        for u in 0..users {
            let ks: Vec<String> = (1..=6).map(|e| format!("vs:{u}:{e}")).collect();
            out.push(format!("st.batchget 0 {}", ks.join(" ")));
        }
        out.push("st.get azks 0".into());
    };
    for case in 0..ncases {
        let mode = match case % 3 { 0 => "nocache", 1 => "cache", _ => "tiny" };
        out.push(format!("st.reset {mode}"));
        let mut plan: Vec<Vec<u64>> = vec![];
        for _ in 0..users {
            let mut eps: Vec<u64> = (1..=6).filter(|_| rng.chance(3, 5)).collect();
            if eps.is_empty() {
                eps.push(rng.range(1, 6));
            }
            plan.push(eps);
        }
        let vs_rec = |rng: &mut Rng, plan: &Vec<Vec<u64>>| -> String {
            let u = rng.below(users) as usize;
            let i = rng.below(plan[u].len() as u64) as usize;
            let pay = if rng.chance(1, 8) { 0 } else { rng.range(1, 9) };
            format!("vs:{}:{}:{}:{}", u, plan[u][i], i + 1, pay)
        };
        // committed part
        for _ in 0..rng.range(2, 9) {
            out.push(format!("st.set {} 0", vs_rec(rng, &plan)));
        }
        if rng.chance(1, 3) {
            out.push(format!("st.tombstone {} {} 0", rng.below(users), rng.range(0, 6)));
        }
        out.push("st.begin".into());
        for _ in 0..rng.range(1, 4) {
            match rng.below(6) {
                0 | 1 | 2 => out.push(format!("st.set {} 0", vs_rec(rng, &plan))),
                3 | 4 => {
                    let rs: Vec<String> = (0..rng.range(1, 3)).map(|_| vs_rec(rng, &plan)).collect();
                    out.push(format!("st.batchset 0 {}", rs.join(" ")));
                }
                _ => out.push(format!("st.tombstone {} {} 0", rng.below(users), rng.range(0, 6))),
            }
            probe(out);
        }
        // tombstoning while the transaction is open: the user's states come out of a merged map there, in no
        // particular order; cut in the middle of the user with the most states
        {
            let u = (0..users as usize).max_by_key(|u| plan[*u].len()).unwrap_or(0);
            let mid = plan[u][plan[u].len() / 2];
            out.push(format!("st.tombstone {} {} 0", u, if plan[u].len() > 1 { mid - 1 } else { mid }));
            probe(out);
            out.push(format!("st.tombstone {} {} 0", rng.below(users), rng.range(1, 5)));
            out.push(format!("st.userdata {} 0", u));
        }
        out.push("st.begin".into());
        if rng.chance(1, 2) {
            out.push(format!("st.set azks:{}:{} 0", rng.range(1, 5), rng.range(1, 7)));
        }
        out.push("st.commit 0".into());
        probe(out);
        out.push("st.active".into());
        out.push("st.dbdump".into());
    }
}


/// `l1.fault`: fault enumeration over publishes of every shape (C10).
pub fn gen_fault(rng: &mut Rng, thorough: bool, out: &mut Vec<String>) {
    let rt = rt();
    let caches: &[&str] = if thorough { &["none", "default", "1ms", "tiny"] } else { &["none", "default"] };
    let pars: &[&str] = if thorough { &["off", "static4", "static2", "avail32"] } else { &["off", "static4"] };
    for cfg in ["wv1", "exp"] {
        for cache in caches {
            for par in pars {
                if !thorough && cfg == "exp" && *cache == "none" && *par == "static4" {
                    continue;
                }
                out.push(format!("fx.reset {cfg} {cache} {par}"));
                out.push(format!("ck {}", key_hex(&rt)));
                let pool = user_pool(rng, 5);
                for u in &pool {
                    for v in 1..=5u64 {
                        for fresh in [true, false] {
                            out.push(format!("vrf {} {} {} {}", hex_or_dash(u), if fresh { "F" } else { "S" }, v, show_label(&vrf_label(&rt, cfg, u, fresh, v))));
                        }
                    }
                }
                let pair = |rng: &mut Rng, i: usize| format!("{} {}", hex_or_dash(&pool[i]), hex_or_dash(&rng.bytes(3)));
                // the very first publish (empty tree), enumerated
                out.push(format!("fx.enum {} {}", pair(rng, 0), pair(rng, 1)));
                out.push(format!("fx.publish {} {}", pair(rng, 0), pair(rng, 1)));
                // inserts only
                out.push(format!("fx.enum {} {}", pair(rng, 2), pair(rng, 3)));
                out.push(format!("fx.publish {} {}", pair(rng, 2), pair(rng, 3)));
                // updates only
                out.push(format!("fx.enum {} {}", pair(rng, 0), pair(rng, 2)));
                // mixed insert + update
                out.push(format!("fx.enum {} {} {}", pair(rng, 1), pair(rng, 4), pair(rng, 3)));
                out.push(format!("fx.publish {} {}", pair(rng, 1), pair(rng, 4)));
                // single update on a deeper tree
                out.push(format!("fx.enum {}", pair(rng, 4)));
            }
        }
    }
    // a MEDIUM publish under parallel insertion without cache (so that the insertion reads, and sub-tasks two levels down
    // have real work): a failing read in one sub-tree while tasks of the other are still running
    for (cfg, par) in [("wv1", "static4"), ("exp", "static8")] {
        if !thorough && cfg == "exp" {
            continue;
        }
        out.push(format!("fx.reset {cfg} none {par}"));
        out.push(format!("ck {}", key_hex(&rt)));
        let names: Vec<Vec<u8>> = (0..26usize).map(|i| vec![0x76, i as u8, rng.below(256) as u8]).collect();
        for u in &names {
            for v in 1..=2u64 {
                for fresh in [true, false] {
                    out.push(format!("vrf {} {} {} {}", hex_or_dash(u), if fresh { "F" } else { "S" }, v, show_label(&vrf_label(&rt, cfg, u, fresh, v))));
                }
            }
        }
        let pairs = |rng: &mut Rng, r: std::ops::Range<usize>| r.map(|i| format!("{} {}", hex_or_dash(&names[i]), hex_or_dash(&rng.bytes(3)))).collect::<Vec<_>>().join(" ");
        out.push(format!("fx.publish {}", pairs(rng, 0..12)));
        // 6 updates and 14 insertions
        out.push(format!("fx.enum {}", pairs(rng, 6..26)));
    }
    // one LARGE publish (more than a thousand records in the commit), enumerated: whatever the storage manager
    // does with a big commit log, a rejected write must leave nothing behind
    let big: &[(&str, &str)] = if thorough { &[("wv1", "none"), ("exp", "default"), ("wv1", "1ms")] } else { &[("wv1", "none"), ("exp", "default")] };
    for (cfg, cache) in big {
        out.push(format!("fx.reset {cfg} {cache} off"));
        out.push(format!("ck {}", key_hex(&rt)));
        let n = 420usize;
        let names: Vec<Vec<u8>> = (0..n).map(|i| vec![0x75, (i >> 8) as u8, (i & 0xff) as u8, rng.below(256) as u8]).collect();
        for u in &names {
            for v in 1..=2u64 {
                for fresh in [true, false] {
                    out.push(format!("vrf {} {} {} {}", hex_or_dash(u), if fresh { "F" } else { "S" }, v, show_label(&vrf_label(&rt, cfg, u, fresh, v))));
                }
            }
        }
        let pairs = |rng: &mut Rng, r: std::ops::Range<usize>| r.map(|i| format!("{} {}", hex_or_dash(&names[i]), hex_or_dash(&rng.bytes(3)))).collect::<Vec<_>>().join(" ");
        out.push(format!("fx.publish {}", pairs(rng, 0..12)));
        // 8 updates and 408 insertions
        let batch = pairs(rng, 4..n);
        out.push(format!("fx.enum {batch}"));
        out.push(format!("fx.publish {batch}"));
        out.push(format!("fx.enum {}", pairs(rng, 0..3)));
    }
}


/// `l1.partial`: partial commits (C11) for publishes that create, split (decompress) and update nodes.
pub fn gen_partial(rng: &mut Rng, thorough: bool, out: &mut Vec<String>) {
    let rt = rt();
    for cfg in ["wv1", "exp"] {
        for round in 0..(if thorough { 4 } else { 1 }) {
            out.push(format!("fx.reset {cfg} none off"));
            out.push(format!("ck {}", key_hex(&rt)));
            let pool = user_pool(rng, 6);
            for u in &pool {
                for v in 1..=8u64 {
                    for fresh in [true, false] {
                        out.push(format!("vrf {} {} {} {}", hex_or_dash(u), if fresh { "F" } else { "S" }, v, show_label(&vrf_label(&rt, cfg, u, fresh, v))));
                    }
                }
            }
            let pair = |rng: &mut Rng, i: usize| format!("{} {}", hex_or_dash(&pool[i]), hex_or_dash(&rng.bytes(3)));
            // first publish into the empty tree
            out.push(format!("pc.enum {}", pair(rng, 0)));
            out.push(format!("fx.publish {} {}", pair(rng, 0), pair(rng, 1)));
            // creates nodes (and splits existing ones)
            out.push(format!("pc.enum {} {}", pair(rng, 2), pair(rng, 3)));
            out.push(format!("fx.publish {} {}", pair(rng, 2), pair(rng, 3)));
            // updates only
            out.push(format!("pc.enum {}", pair(rng, 0)));
            out.push(format!("pc.enum {} {}", pair(rng, 1), pair(rng, 2)));
            out.push(format!("fx.publish {}", pair(rng, 1)));
            // mixed, on a deeper tree
            out.push(format!("pc.enum {} {} {}", pair(rng, 1), pair(rng, 4), pair(rng, 5)));
            out.push(format!("fx.publish {} {}", pair(rng, 4), pair(rng, 0)));
            out.push(format!("pc.enum {}", pair(rng, 5)));
            let _ = round;
        }
    }
}


/// `l1.vrf` (C18): VRF input bytes, the VRF oracle, and altered VRF proof bytes through the real `lookup_verify`.
pub fn gen_vrf(rng: &mut Rng, thorough: bool, out: &mut Vec<String>) {
    let labels: Vec<Vec<u8>> = vec![
        vec![],
        vec![0],
        vec![0, 0],
        vec![1],
        vec![0x61],
        vec![0x61, 0x62],
        (0..300).map(|i| (i % 251) as u8).collect(),
        (0..2048).map(|i| (i % 7) as u8).collect(),
        vec![0xff; 8],
        // a label whose bytes imitate the suffix (freshness byte + version) of another input
        vec![0x61, 1, 0, 0, 0, 0, 0, 0, 0, 1],
    ];
    let versions: Vec<u64> = vec![0, 1, 2, 255, 256, 1 << 32, (1 << 32) + 1, 1 << 63, u64::MAX - 1, u64::MAX];
    for cfg in ["wv1", "exp"] {
        for l in &labels {
            for v in &versions {
                for f in ["F", "S"] {
                    out.push(format!("vrfin {cfg} {} {f} {v}", hex_or_dash(l)));
                }
            }
        }
        for _ in 0..(if thorough { 400 } else { 60 }) {
            let n = rng.range(0, 40) as usize;
            let l = rng.bytes(n);
            out.push(format!("vrfin {cfg} {} {} {}", hex_or_dash(&l), if rng.chance(1, 2) { "F" } else { "S" }, rng.next()));
        }
        // every label length: the real input against the model's byte string, and the collision oracle
        for len in 0..=(if thorough { 600 } else { 300 }) {
            let l: Vec<u8> = (0..len).map(|i| (i * 5 + len) as u8).collect();
            out.push(format!("vrfin {cfg} {} {} {}", hex_or_dash(&l), if len % 2 == 0 { "F" } else { "S" }, 0x0102_0304_0506_0700u64 + (len as u64 % 3)));
        }
        out.push(format!("o.vrfin.sweep {cfg} {}", if thorough { 1100 } else { 320 }));
        out.push(format!("o.vrf.batch {cfg} {} {}", if thorough { 400 } else { 120 }, rng.below(1 << 30)));
        // the oracle over the public API (each line runs ~260 verifications)
        let nl = if thorough { labels.len() } else { 5 };
        for l in labels.iter().take(nl) {
            for v in [1u64, 2, 1 << 32, u64::MAX] {
                for f in ["F", "S"] {
                    out.push(format!("o.vrf.check {cfg} {} {f} {v}", hex_or_dash(l)));
                }
            }
        }
    }
    // altered proof bytes through the real lookup verifier
    let rt = rt();
    for cfg in ["wv1", "exp"] {
        out.push(format!("reset {cfg}"));
        out.push(format!("ck {}", key_hex(&rt)));
        let pool = user_pool(rng, 3);
        for u in &pool {
            for v in 1..=6u64 {
                for fresh in [true, false] {
                    out.push(format!("vrf {} {} {} {}", hex_or_dash(u), if fresh { "F" } else { "S" }, v, show_label(&vrf_label(&rt, cfg, u, fresh, v))));
                }
            }
        }
        for round in 0..3 {
            let line = pool.iter().map(|u| format!("{} {}", hex_or_dash(u), hex_or_dash(&rng.bytes(2)))).collect::<Vec<_>>().join(" ");
            out.push(format!("dir.publish {line}"));
            let _ = round;
        }
        for (i, u) in pool.iter().enumerate() {
            let hu = hex_or_dash(u);
            let other = hex_or_dash(&pool[(i + 1) % pool.len()]);
            out.push(format!("adv.lookup {hu}"));
            out.push(format!("adv.lookup {hu} exvrf.splus"));
            out.push(format!("adv.lookup {hu} exvrf.trunc"));
            let step = if thorough { 1 } else { 5 };
            for b in (0..80).step_by(step) {
                out.push(format!("adv.lookup {hu} exvrf.flip:{b}"));
                out.push(format!("adv.lookup {hu} exvrf.zero:{b}"));
                out.push(format!("adv.lookup {hu} exvrf.inc:{b}"));
                out.push(format!("adv.lookup {hu} frvrf.flip:{b}"));
                out.push(format!("adv.lookup {hu} mkvrf.flip:{b}"));
            }
            // honest proofs for other inputs in place of the right one
            out.push(format!("adv.lookup {hu} exvrf.other:{other}:F:3"));
            out.push(format!("adv.lookup {hu} exvrf.other:{hu}:S:3"));
            out.push(format!("adv.lookup {hu} exvrf.other:{hu}:F:2"));
            out.push(format!("adv.lookup {hu} exvrf.other:{hu}:F:3"));
            out.push(format!("adv.lookup {hu} exvrf.other:{hu}:F:4"));
        }
    }
}


/// `l1.sched` (C12): concurrent publishes under every schedule with a bounded number of preemptions.
pub fn gen_sched(rng: &mut Rng, thorough: bool, out: &mut Vec<String>) {
    let rt = rt();
    let bound = if thorough { 3 } else { 2 };
    for (cfg, cache) in [("wv1", "none"), ("exp", "default"), ("wv1", "default"), ("exp", "none")] {
        out.push(format!("fx.reset {cfg} {cache} off"));
        out.push(format!("ck {}", key_hex(&rt)));
        let pool = user_pool(rng, 5);
        for u in &pool {
            for v in 1..=6u64 {
                for fresh in [true, false] {
                    out.push(format!("vrf {} {} {} {}", hex_or_dash(u), if fresh { "F" } else { "S" }, v, show_label(&vrf_label(&rt, cfg, u, fresh, v))));
                }
            }
        }
        let pair = |rng: &mut Rng, i: usize| format!("{} {}", hex_or_dash(&pool[i]), hex_or_dash(&rng.bytes(3)));
        // the mutex of the repaired code is taken in spawn order, so every scenario is run in both orders
        let both = |out: &mut Vec<String>, bound: usize, a: String, b: String| {
            out.push(format!("sch.enum {bound} {a} | {b}"));
            out.push(format!("sch.enum {bound} {b} | {a}"));
        };
        // two publishers on the empty directory, disjoint labels
        both(out, bound, pair(rng, 0), pair(rng, 1));
        out.push(format!("fx.publish {} {}", pair(rng, 0), pair(rng, 1)));
        // two publishers updating the SAME label
        both(out, bound, pair(rng, 0), pair(rng, 0));
        // an update and an insert
        both(out, bound, pair(rng, 1), format!("{} {}", pair(rng, 2), pair(rng, 3)));
        out.push(format!("fx.publish {} {}", pair(rng, 2), pair(rng, 3)));
        // a no-op (re-submission of the current value is not known here: a fresh value) and three publishers
        let (a, b, c) = (pair(rng, 0), pair(rng, 4), pair(rng, 2));
        out.push(format!("sch.enum {} {a} | {b} | {c}", bound.min(2)));
        out.push(format!("sch.enum {} {c} | {a} | {b}", bound.min(2)));
        out.push(format!("sch.enum {} {b} | {c} | {a}", bound.min(2)));
        // "each call either fails without effect ...": the n-th single-record read of one publish fails (before, in the
        // middle of and after its first writes into the transaction) while the other publishes wait for the lock
        let (a, b, c) = (format!("{} {}", pair(rng, 0), pair(rng, 4)), format!("{} {}", pair(rng, 1), pair(rng, 2)), pair(rng, 3));
        for n in 0..(if thorough { 16 } else { 12 }) {
            out.push(format!("sch.enum 1 fault:0:{n} {a} | {b}"));
        }
        for n in [1, 4, 7, 10] {
            out.push(format!("sch.enum 1 fault:1:{n} {c} | {a} | {b}"));
        }
        if !thorough {
            break;
        }
    }
}


/// `l1.sched.read` (C13): read requests on a second (read-only) instance interleaved with a publish.
pub fn gen_sched_read(rng: &mut Rng, thorough: bool, out: &mut Vec<String>) {
    let rt = rt();
    let bound = if thorough { 3 } else { 2 };
    // `same:<mode>`: the readers share the writer's storage manager and reads have latency (cache fills race the commit)
    for (cfg, rcache) in [("wv1", "none"), ("exp", "same:1ms"), ("wv1", "same:default"), ("exp", "none"), ("wv1", "default"), ("exp", "1ms"), ("wv1", "same:1ms"), ("exp", "same:default")] {
        out.push(format!("fx.reset {cfg} none off"));
        out.push(format!("ck {}", key_hex(&rt)));
        let pool = user_pool(rng, 4);
        for u in &pool {
            for v in 1..=6u64 {
                for fresh in [true, false] {
                    out.push(format!("vrf {} {} {} {}", hex_or_dash(u), if fresh { "F" } else { "S" }, v, show_label(&vrf_label(&rt, cfg, u, fresh, v))));
                }
            }
        }
        let pair = |rng: &mut Rng, i: usize| format!("{} {}", hex_or_dash(&pool[i]), hex_or_dash(&rng.bytes(3)));
        out.push(format!("fx.publish {} {} {}", pair(rng, 0), pair(rng, 1), pair(rng, 2)));
        out.push(format!("fx.publish {} {}", pair(rng, 0), pair(rng, 1)));
        let u0 = hex_or_dash(&pool[0]);
        let u2 = hex_or_dash(&pool[2]);
        // the publish updates label 0 (and inserts label 3) while it is being read
        let batch = format!("{} {}", pair(rng, 0), pair(rng, 3));
        out.push(format!("sch.read {bound} {rcache} history {u0} complete || {batch}"));
        out.push(format!("sch.read {bound} {rcache} lookup {u0} || {batch}"));
        out.push(format!("sch.read {bound} {rcache} history {u2} complete || {batch}"));
        out.push(format!("sch.read {bound} {rcache} lookup {u2} | epochhash || {batch}"));
        out.push(format!("sch.read {bound} {rcache} audit 0 2 || {batch}"));
        out.push(format!("sch.read {} {rcache} batchlookup {u0} {u2} || {batch}", bound.min(2)));
        out.push(format!("sch.read {} {rcache} history {u0} recent:1 | audit 1 2 || {batch}", bound.min(2)));
        if !thorough && rcache == "same:default" {
            break;
        }
    }
}


/// `l1.sched.hist` (C03): the history requests of `l1.sched.read` only — Complete and MostRecent(n) histories of a label
/// while a publish gives that label its next version; what is returned must be the whole history as of the returned epoch.
pub fn gen_sched_hist(rng: &mut Rng, thorough: bool, out: &mut Vec<String>) {
    let rt = rt();
    let bound = if thorough { 3 } else { 2 };
    for (cfg, rcache) in [("wv1", "none"), ("exp", "default"), ("exp", "same:default"), ("wv1", "same:1ms")] {
        out.push(format!("fx.reset {cfg} none off"));
        out.push(format!("ck {}", key_hex(&rt)));
        let pool = user_pool(rng, 3);
        for u in &pool {
            for v in 1..=6u64 {
                for fresh in [true, false] {
                    out.push(format!("vrf {} {} {} {}", hex_or_dash(u), if fresh { "F" } else { "S" }, v, show_label(&vrf_label(&rt, cfg, u, fresh, v))));
                }
            }
        }
        let pair = |rng: &mut Rng, i: usize| format!("{} {}", hex_or_dash(&pool[i]), hex_or_dash(&rng.bytes(3)));
        out.push(format!("fx.publish {} {}", pair(rng, 0), pair(rng, 1)));
        out.push(format!("fx.publish {} {}", pair(rng, 0), pair(rng, 1)));
        out.push(format!("fx.publish {}", pair(rng, 0)));
        let u0 = hex_or_dash(&pool[0]);
        let u1 = hex_or_dash(&pool[1]);
        let batch = format!("{} {}", pair(rng, 0), pair(rng, 2));
        out.push(format!("sch.read {bound} {rcache} history {u0} complete || {batch}"));
        out.push(format!("sch.read {bound} {rcache} history {u0} recent:1 || {batch}"));
        out.push(format!("sch.read {} {rcache} history {u0} recent:2 | history {u1} complete || {batch}", bound.min(2)));
        if !thorough && rcache == "default" {
            break;
        }
    }
}

/// `l1.sched.poll` (C13, last clause): a writer instance publishes while requests are served by a second, read-only
/// instance with its own cache, on which `poll_for_azks_changes` runs; every schedule up to the preemption bound.
pub fn gen_sched_poll(rng: &mut Rng, thorough: bool, out: &mut Vec<String>) {
    let rt = rt();
    let bound = if thorough { 3 } else { 2 };
    // `lat:<mode>`: database reads have latency (a second scheduling point when the value is delivered)
    for (cfg, rcache) in [("wv1", "lat:default"), ("exp", "default"), ("exp", "lat:default"), ("wv1", "default"), ("wv1", "lat:1ms"), ("exp", "1ms")] {
        out.push(format!("fx.reset {cfg} none off"));
        out.push(format!("ck {}", key_hex(&rt)));
        let pool = user_pool(rng, 4);
        for u in &pool {
            for v in 1..=6u64 {
                for fresh in [true, false] {
                    out.push(format!("vrf {} {} {} {}", hex_or_dash(u), if fresh { "F" } else { "S" }, v, show_label(&vrf_label(&rt, cfg, u, fresh, v))));
                }
            }
        }
        let pair = |rng: &mut Rng, i: usize| format!("{} {}", hex_or_dash(&pool[i]), hex_or_dash(&rng.bytes(3)));
        out.push(format!("fx.publish {} {} {}", pair(rng, 0), pair(rng, 1), pair(rng, 2)));
        out.push(format!("fx.publish {} {}", pair(rng, 0), pair(rng, 1)));
        let u0 = hex_or_dash(&pool[0]);
        let u2 = hex_or_dash(&pool[2]);
        let b1 = format!("{} {}", pair(rng, 0), pair(rng, 3));
        let b2 = pair(rng, 0);
        out.push(format!("sch.poll {bound} {rcache} epochhash || {b1}"));
        out.push(format!("sch.poll {bound} {rcache} lookup {u0} || {b1}"));
        out.push(format!("sch.poll {bound} {rcache} epochhash | lookup {u2} || {b1}"));
        out.push(format!("sch.poll {bound} {rcache} batchlookup {u0} {u2} || {b1}"));
        // two publishes and a request path that does not queue behind the poller's flush: one preemption more
        out.push(format!("sch.poll 3 {rcache} epochhash || {b1} || {b2}"));
        out.push(format!("sch.poll {} {rcache} history {u0} complete | epochhash || {b1} || {b2}", bound.min(2)));
        if !thorough && rcache == "exp" {
            break;
        }
        if !thorough && rcache == "default" {
            break;
        }
    }
}


/// `l1.sched.flush`: as `l1.sched.poll`, but instead of the poller a task calls `StorageManager::flush_cache` on
/// the serving instance's storage manager twice, whenever the schedule says.  NOT REGISTERED for any property: a
/// flush that does not go through the directory's cache lock while requests are under way is outside what C13 and
/// C16 state (DESIGN section 0.4); kept as an exploration tool only.
pub fn gen_sched_flush(rng: &mut Rng, thorough: bool, out: &mut Vec<String>) {
    let rt = rt();
    for (cfg, rcache) in [("wv1", "lat:default"), ("exp", "default"), ("exp", "lat:1ms"), ("wv1", "default")] {
        out.push(format!("fx.reset {cfg} none off"));
        out.push(format!("ck {}", key_hex(&rt)));
        let pool = user_pool(rng, 4);
        for u in &pool {
            for v in 1..=6u64 {
                for fresh in [true, false] {
                    out.push(format!("vrf {} {} {} {}", hex_or_dash(u), if fresh { "F" } else { "S" }, v, show_label(&vrf_label(&rt, cfg, u, fresh, v))));
                }
            }
        }
        let pair = |rng: &mut Rng, i: usize| format!("{} {}", hex_or_dash(&pool[i]), hex_or_dash(&rng.bytes(3)));
        out.push(format!("fx.publish {} {} {}", pair(rng, 0), pair(rng, 1), pair(rng, 2)));
        out.push(format!("fx.publish {} {}", pair(rng, 0), pair(rng, 1)));
        let u0 = hex_or_dash(&pool[0]);
        let b1 = format!("{} {}", pair(rng, 0), pair(rng, 3));
        out.push(format!("sch.flush 2 {rcache} lookup {u0} || {b1}"));
        out.push(format!("sch.flush 3 {rcache} epochhash || {b1}"));
        out.push(format!("sch.flush 2 {rcache} history {u0} recent:1 | epochhash || {b1}"));
        if !thorough && rcache == "default" {
            break;
        }
    }
}


/// a small publish, then ONE publish of `n` new labels together with updates of the existing ones (an odd total, not a
/// multiple of any power of two), then updates of the first, middle and LAST labels of the big batch; after each: returned
/// epoch hash, specification root, and lookups of labels at the end of the batch
fn big_batch_case(rng: &mut Rng, cfg: &str, n: usize, out: &mut Vec<String>) {
    let rt = rt();
    out.push(format!("reset {cfg}"));
    out.push(format!("ck {}", key_hex(&rt)));
    let labels: Vec<Vec<u8>> = (0..n + 7).map(|i| { let mut b = vec![0xb1, (i >> 8) as u8, i as u8]; b.extend(rng.bytes(2)); b }).collect();
    for (i, u) in labels.iter().enumerate() {
        let maxv = if i < 7 || i == 7 + n / 2 || i + 3 >= labels.len() { 3 } else { 1 };
        for v in 1..=maxv {
            for fresh in [true, false] {
                out.push(format!("vrf {} {} {} {}", hex_or_dash(u), if fresh { "F" } else { "S" }, v, show_label(&vrf_label(&rt, cfg, u, fresh, v))));
            }
        }
    }
    let pairs = |rng: &mut Rng, idx: &[usize]| idx.iter().map(|i| format!("{} {}", hex_or_dash(&labels[*i]), hex_or_dash(&rng.bytes(3)))).collect::<Vec<_>>().join(" ");
    let first: Vec<usize> = (0..7).collect();
    out.push(format!("dir.publish {}", pairs(rng, &first)));
    out.push("spec.root".into());
    // the big batch: n new labels + 5 updates, shuffled
    let mut big: Vec<usize> = (7..7 + n).chain(0..5).collect();
    rng.shuffle(&mut big);
    out.push(format!("dir.publish {}", pairs(rng, &big)));
    out.push("dir.epochhash".into());
    out.push("spec.root".into());
    let probes = [0usize, 6, 7, 7 + n / 2, labels.len() - 3, labels.len() - 2, labels.len() - 1, big[big.len() - 1], big[big.len() - 2], big[0]];
    for i in probes {
        out.push(format!("dir.lookup {}", hex_or_dash(&labels[i])));
        out.push(format!("spec.lookup {}", hex_or_dash(&labels[i])));
    }
    let upd = [0usize, 7 + n / 2, labels.len() - 1, labels.len() - 2, labels.len() - 3];
    out.push(format!("dir.publish {}", pairs(rng, &upd)));
    out.push("dir.epochhash".into());
    out.push("spec.root".into());
    for i in upd {
        out.push(format!("spec.lookup {}", hex_or_dash(&labels[i])));
        out.push(format!("spec.history {} complete", hex_or_dash(&labels[i])));
    }
    out.push("dir.audit 1 3".into());
    out.push("dir.verify.audit 0 3".into());
}


/// a reader with a long-lived cache that is only PARTLY warm: it has served one label, then the directory moves on by two
/// and by three epochs (other labels change), then it is asked about every label — nodes it never read are no longer
/// available as of its epoch.  Judged by the C13 oracle alone (error, or a published pair with a verifying proof).
fn lag_partial_cache_case(rng: &mut Rng, cfg: &str, n: usize, out: &mut Vec<String>) {
    let rt = rt();
    out.push(format!("reset {cfg}"));
    out.push(format!("ck {}", key_hex(&rt)));
    let labels: Vec<Vec<u8>> = (0..n).map(|i| vec![0xc3, i as u8, rng.below(256) as u8]).collect();
    for u in &labels {
        for v in 1..=4u64 {
            for fresh in [true, false] {
                out.push(format!("vrf {} {} {} {}", hex_or_dash(u), if fresh { "F" } else { "S" }, v, show_label(&vrf_label(&rt, cfg, u, fresh, v))));
            }
        }
    }
    let pairs = |rng: &mut Rng, idx: &[usize]| idx.iter().map(|i| format!("{} {}", hex_or_dash(&labels[*i]), hex_or_dash(&rng.bytes(3)))).collect::<Vec<_>>().join(" ");
    let all: Vec<usize> = (0..n).collect();
    out.push(format!("dir.publish {}", pairs(rng, &all)));
    out.push("o.lagc.new 20".into());
    out.push("o.lagc.epochhash 20".into());
    out.push(format!("o.lagc.lookup 20 {}", hex_or_dash(&labels[0])));
    out.push("o.lagc.new 21".into());
    out.push(format!("o.lagc.history 21 {} complete", hex_or_dash(&labels[n - 1])));
    let some: Vec<usize> = (1..n / 3).collect();
    for round in 0..3 {
        out.push(format!("dir.publish {}", pairs(rng, &some)));
        if round == 0 {
            continue;
        }
        for r in [20usize, 21] {
            out.push(format!("o.lagc.epochhash {r}"));
            for i in (0..n).step_by(if round == 1 { 2 } else { 3 }) {
                out.push(format!("o.lagc.lookup {r} {}", hex_or_dash(&labels[i])));
            }
            out.push(format!("o.lagc.history {r} {} complete", hex_or_dash(&labels[1])));
            out.push(format!("o.lagc.history {r} {} recent:1", hex_or_dash(&labels[n / 2])));
            out.push(format!("o.lagc.audit {r} 0 1"));
        }
    }
}


/// C07, last clause: honest publishes of two labels, then the server publishes version k+1 of label A WITHOUT retiring
/// version k (at several k: the newest, an interior one), optionally retiring it late; after each step the honest history
/// request for every window (Complete, MostRecent 1..total) — every window containing the unretired boundary must be
/// rejected by both verifiers, every other window accepted.  Oracle-only lines after the honest prefix.
fn unretired_case(rng: &mut Rng, cfg: &str, out: &mut Vec<String>) {
    let rt = rt();
    out.push(format!("reset {cfg}"));
    out.push(format!("ck {}", key_hex(&rt)));
    let a = vec![0xa7u8, rng.below(256) as u8];
    let b = vec![0xb7u8, rng.below(256) as u8];
    for u in [&a, &b] {
        for v in 1..=8u64 {
            for fresh in [true, false] {
                out.push(format!("vrf {} {} {} {}", hex_or_dash(u), if fresh { "F" } else { "S" }, v, show_label(&vrf_label(&rt, cfg, u, fresh, v))));
            }
        }
    }
    let (ha, hb) = (hex_or_dash(&a), hex_or_dash(&b));
    // honest: A gets versions 1, 2; B version 1 (epochs 1..3, so that versions and epochs differ)
    out.push(format!("dir.publish {ha} {} {hb} {}", hex_or_dash(&rng.bytes(3)), hex_or_dash(&rng.bytes(3))));
    out.push(format!("dir.publish {hb} {}", hex_or_dash(&rng.bytes(3))));
    out.push(format!("dir.publish {ha} {}", hex_or_dash(&rng.bytes(3))));
    let windows = |out: &mut Vec<String>, total: u64| {
        out.push(format!("o.mal.history {ha} complete"));
        for n in 1..=total + 1 {
            out.push(format!("o.mal.history {ha} recent:{n}"));
        }
        out.push(format!("o.mal.history {hb} complete"));
    };
    // version 3 of A published without retiring version 2
    out.push(format!("o.mal.publish {ha} {}", hex_or_dash(&rng.bytes(3))));
    windows(out, 3);
    // honest publishes on top: versions 4 and 5 of A are retired properly, B moves on — the windows [5], [5,4] and B's history
    // are clean and must verify; [5,4,3] and longer contain the unretired boundary
    out.push(format!("o.hon.publish {ha} {}", hex_or_dash(&rng.bytes(3))));
    out.push(format!("o.hon.publish {hb} {}", hex_or_dash(&rng.bytes(3))));
    out.push(format!("o.hon.publish {ha} {}", hex_or_dash(&rng.bytes(3))));
    windows(out, 5);
    // version 2 of A retired late: nothing changes for the verifiers (the stale leaf carries the wrong epoch)
    out.push(format!("o.mal.retire {ha} 2"));
    windows(out, 5);
    // a second dishonest step at the top, then an honest one
    out.push(format!("o.mal.publish {ha} {}", hex_or_dash(&rng.bytes(3))));
    windows(out, 6);
    out.push(format!("o.hon.publish {ha} {}", hex_or_dash(&rng.bytes(3))));
    windows(out, 7);
}
