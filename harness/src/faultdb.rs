//! `FaultDb`: a `Database` wrapper around the in-memory database that counts storage operations,
//! can fail a chosen one, and records the commit batch.
use akd::errors::StorageError;
use akd::storage::memory::AsyncInMemoryDatabase;
use akd::storage::types::{DbRecord, KeyData, ValueState, ValueStateRetrievalFlag};
use akd::storage::{Database, DbSetState, Storable, StorageUtil};
use akd::{AkdLabel, AkdValue};
use async_trait::async_trait;
use std::collections::HashMap;
use std::sync::atomic::{AtomicBool, AtomicI64, AtomicU64, Ordering};
use std::sync::{Arc, Mutex};

#[derive(Clone, Default)]
pub struct FaultDb {
    pub inner: AsyncInMemoryDatabase,
    /// number of database operations seen so far
    pub count: Arc<AtomicU64>,
    /// fail the operation with this index (-1 = none)
    pub fail_at: Arc<AtomicI64>,
    /// fail the next operation, whatever its index
    pub fail_next: Arc<AtomicBool>,
    /// kinds of the operations seen (for the evidence / the model program)
    pub trace: Arc<Mutex<Vec<String>>>,
    /// the last `TransactionCommit` batch handed to the database
    pub last_commit: Arc<Mutex<Option<Vec<DbRecord>>>>,
    /// a fault was really injected since the counters were reset
    pub fired: Arc<AtomicBool>,
    /// latency of every READ, in microseconds (0 = none): with parallel insertion it lets sub-tasks overlap, so that
    /// tasks which outlive a failed call are still at work when the caller rolls back
    pub read_delay_us: Arc<AtomicU64>,
}

impl FaultDb {
    pub fn new() -> Self {
        let d = FaultDb::default();
        d.fail_at.store(-1, Ordering::SeqCst);
        FaultDb { inner: AsyncInMemoryDatabase::new(), ..d }
    }

    fn tick(&self, kind: &str) -> Result<(), StorageError> {
        let n = self.count.fetch_add(1, Ordering::SeqCst) as i64;
        self.trace.lock().unwrap().push(kind.to_string());
        if self.fail_next.swap(false, Ordering::SeqCst) || self.fail_at.load(Ordering::SeqCst) == n {
            self.fired.store(true, Ordering::SeqCst);
            return Err(StorageError::Connection(format!("injected fault at storage operation {n} ({kind})")));
        }
        Ok(())
    }

    async fn read_delay(&self) {
        let d = self.read_delay_us.load(Ordering::SeqCst);
        if d > 0 {
            tokio::time::sleep(std::time::Duration::from_micros(d)).await;
        }
    }

    pub fn reset_counters(&self) {
        self.count.store(0, Ordering::SeqCst);
        self.fail_at.store(-1, Ordering::SeqCst);
        self.fail_next.store(false, Ordering::SeqCst);
        self.fired.store(false, Ordering::SeqCst);
        self.trace.lock().unwrap().clear();
    }

    /// a deep copy of the stored records
    pub async fn snapshot(&self) -> Vec<DbRecord> {
        let mut v = self.inner.batch_get_all_direct().await.unwrap_or_default();
        v.sort();
        v
    }

    pub async fn from_records(recs: &[DbRecord]) -> Self {
        let d = FaultDb::new();
        d.inner.batch_set(recs.to_vec(), DbSetState::General).await.unwrap();
        d
    }
}

#[async_trait]
impl Database for FaultDb {
    async fn set(&self, record: DbRecord) -> Result<(), StorageError> {
        self.tick("set")?;
        self.inner.set(record).await
    }

    async fn batch_set(&self, records: Vec<DbRecord>, state: DbSetState) -> Result<(), StorageError> {
        let commit = matches!(state, DbSetState::TransactionCommit);
        self.tick(if commit { "commit" } else { "batch_set" })?;
        if commit {
            *self.last_commit.lock().unwrap() = Some(records.clone());
        }
        self.inner.batch_set(records, state).await
    }

    async fn get<St: Storable>(&self, id: &St::StorageKey) -> Result<DbRecord, StorageError> {
        self.read_delay().await;
        self.tick("get")?;
        self.inner.get::<St>(id).await
    }

    async fn batch_get<St: Storable>(&self, ids: &[St::StorageKey]) -> Result<Vec<DbRecord>, StorageError> {
        self.read_delay().await;
        self.tick("batch_get")?;
        self.inner.batch_get::<St>(ids).await
    }

    async fn get_user_data(&self, username: &AkdLabel) -> Result<KeyData, StorageError> {
        self.read_delay().await;
        self.tick("get_user_data")?;
        self.inner.get_user_data(username).await
    }

    async fn get_user_state(&self, username: &AkdLabel, flag: ValueStateRetrievalFlag) -> Result<ValueState, StorageError> {
        self.read_delay().await;
        self.tick("get_user_state")?;
        self.inner.get_user_state(username, flag).await
    }

    async fn get_user_state_versions(
        &self,
        usernames: &[AkdLabel],
        flag: ValueStateRetrievalFlag,
    ) -> Result<HashMap<AkdLabel, (u64, AkdValue)>, StorageError> {
        self.read_delay().await;
        self.tick("get_user_state_versions")?;
        self.inner.get_user_state_versions(usernames, flag).await
    }
}

#[async_trait]
impl StorageUtil for FaultDb {
    async fn batch_get_type_direct<St: Storable>(&self) -> Result<Vec<DbRecord>, StorageError> {
        self.inner.batch_get_type_direct::<St>().await
    }
    async fn batch_get_all_direct(&self) -> Result<Vec<DbRecord>, StorageError> {
        self.inner.batch_get_all_direct().await
    }
}
