//! `l1.pb` (C19): encodings of real proofs produced over random histories, and corrupted encodings.
use crate::exec_l1::Inst;
use crate::gen_l1::{key_hex, user_pool, vrf_label};
use crate::rng::Rng;
use crate::util::*;
use akd::append_only_zks::AzksParallelismConfig;
use akd::proto::specs::types as pb;
use akd::{AkdLabel, AkdValue, HistoryParams};
use protobuf::Message;

fn varint(mut n: u64) -> Vec<u8> {
    let mut out = vec![];
    loop {
        if n < 0x80 {
            out.push(n as u8);
            return out;
        }
        out.push((n & 0x7f) as u8 | 0x80);
        n >>= 7;
    }
}

fn read_varint(b: &[u8]) -> Option<(u64, usize)> {
    let mut r = 0u64;
    for (i, x) in b.iter().enumerate().take(10) {
        r |= ((x & 0x7f) as u64) << (7 * i);
        if x & 0x80 == 0 {
            return Some((r, i + 1));
        }
    }
    None
}

/// top-level fields of an encoding as byte spans (tag start, end)
fn spans(b: &[u8]) -> Vec<(usize, usize)> {
    let mut out = vec![];
    let mut i = 0;
    while i < b.len() {
        let Some((tag, n)) = read_varint(&b[i..]) else { break };
        let start = i;
        i += n;
        match tag & 7 {
            0 => {
                let Some((_, m)) = read_varint(&b[i..]) else { break };
                i += m;
            }
            2 => {
                let Some((len, m)) = read_varint(&b[i..]) else { break };
                i += m + len as usize;
            }
            1 => i += 8,
            5 => i += 4,
            _ => break,
        }
        if i > b.len() {
            break;
        }
        out.push((start, i));
    }
    out
}

fn mutations(rng: &mut Rng, b: &[u8], thorough: bool) -> Vec<Vec<u8>> {
    let mut out: Vec<Vec<u8>> = vec![];
    // truncations
    let n_trunc = if thorough { b.len() } else { 24.min(b.len()) };
    for k in 0..n_trunc {
        let cut = if thorough { k } else { rng.below(b.len() as u64) as usize };
        out.push(b[..cut].to_vec());
    }
    // bit flips
    for _ in 0..(if thorough { 200 } else { 32 }) {
        let mut c = b.to_vec();
        if c.is_empty() {
            break;
        }
        let i = rng.below(c.len() as u64) as usize;
        c[i] ^= 1 << rng.below(8);
        out.push(c);
    }
    // field-level edits at the top level and one level down
    let sp = spans(b);
    for (k, (s, e)) in sp.iter().enumerate() {
        // delete
        let mut c = b[..*s].to_vec();
        c.extend_from_slice(&b[*e..]);
        out.push(c);
        // duplicate
        let mut c = b[..*e].to_vec();
        c.extend_from_slice(&b[*s..*e]);
        c.extend_from_slice(&b[*e..]);
        out.push(c);
        // move to the end
        let mut c = b[..*s].to_vec();
        c.extend_from_slice(&b[*e..]);
        c.extend_from_slice(&b[*s..*e]);
        out.push(c);
        // wrong wire type
        for x in [1u8, 2, 5] {
            let mut c = b.to_vec();
            c[*s] ^= x;
            out.push(c);
        }
        // unknown field injected before this one (varint, bytes, group)
        for unk in [vec![0x78, 0x05], vec![0x7a, 0x02, 0xaa, 0xbb], vec![0x7b, 0x78, 0x01, 0x7c]] {
            let mut c = b[..*s].to_vec();
            c.extend_from_slice(&unk);
            c.extend_from_slice(&b[*s..]);
            out.push(c);
        }
        if k > 6 && !thorough {
            break;
        }
    }
    // an over-long (11-byte) varint in place of the first tag, and a non-canonical length
    let mut c = vec![0x80u8; 10];
    c.push(0x01);
    c.extend_from_slice(b);
    out.push(c);
    if let Some((s, _)) = sp.first() {
        if b.len() > s + 2 && b[*s] & 7 == 2 {
            // re-encode the length of the first length-delimited field with a padding byte
            if let Some((len, m)) = read_varint(&b[s + 1..]) {
                if m == 1 {
                    let mut c = b[..s + 1].to_vec();
                    c.push((len as u8) | 0x80);
                    c.push(0x00);
                    c.extend_from_slice(&b[s + 2..]);
                    out.push(c);
                }
            }
        }
    }
    out
}

fn label_msg(val: &[u8], len: u64) -> Vec<u8> {
    let mut m = vec![0x0a];
    m.extend(varint(val.len() as u64));
    m.extend_from_slice(val);
    m.push(0x10);
    m.extend(varint(len));
    m
}

fn field_msg(num: u8, body: &[u8]) -> Vec<u8> {
    let mut m = vec![num << 3 | 2];
    m.extend(varint(body.len() as u64));
    m.extend_from_slice(body);
    m
}

/// crafted messages around every conversion check
fn crafted(out: &mut Vec<String>) {
    let push = |out: &mut Vec<String>, ty: &str, b: &[u8]| out.push(format!("pb.dec {ty} {}", hex_or_dash(b)));
    // labels
    push(out, "label", &[]);
    push(out, "label", &label_msg(&[], 0));
    push(out, "label", &label_msg(&[0xff; 32], 256));
    push(out, "label", &label_msg(&[0xff; 33], 256));
    push(out, "label", &label_msg(&[1, 0, 0], 24)); // non-minimal encoding of the value
    push(out, "label", &label_msg(&[1], 257));
    push(out, "label", &label_msg(&[1], u32::MAX as u64));
    push(out, "label", &label_msg(&[1], u32::MAX as u64 + 1));
    push(out, "label", &label_msg(&[1], u64::MAX));
    push(out, "label", &[0x10, 0x05]); // value missing
    push(out, "label", &[0x0a, 0x01, 0x07]); // length missing
    push(out, "label", &[0x10, 0x05, 0x10, 0x06, 0x0a, 0x01, 0x07, 0x0a, 0x01, 0x09]); // last wins
    push(out, "label", &[0x08, 0x05, 0x12, 0x01, 0x00]); // both fields with swapped wire types
    push(out, "label", &[0x00, 0x00]); // field number 0
    push(out, "label", &[0x0e, 0x00]); // wire type 6
    push(out, "label", &[0x0c]); // stray end-group
    let mut deep = vec![];
    for _ in 0..150 {
        deep.push(0x7b);
    }
    for _ in 0..150 {
        deep.push(0x7c);
    }
    deep.extend(label_msg(&[5], 3));
    push(out, "label", &deep);
    let mut unbalanced = vec![0x7b; 5];
    unbalanced.extend(label_msg(&[5], 3));
    push(out, "label", &unbalanced);
    // elements: digest sizes
    let l = label_msg(&[0xa0], 3);
    for n in [0usize, 31, 32, 33] {
        let mut e = field_msg(1, &l);
        e.extend(field_msg(2, &vec![7u8; n]));
        push(out, "element", &e);
    }
    push(out, "element", &field_msg(2, &[7u8; 32])); // label missing
    push(out, "element", &field_msg(1, &l)); // value missing
    // sibling proofs: direction masking, number of siblings
    let mut el = field_msg(1, &l);
    el.extend(field_msg(2, &[9u8; 32]));
    for dir in [0u64, 1, 2, 15, 16, 17, 18, 255, 256, 257, u32::MAX as u64] {
        let mut s = field_msg(1, &l);
        s.extend(field_msg(2, &el));
        s.push(0x18);
        s.extend(varint(dir));
        push(out, "sibling", &s);
    }
    for count in [0usize, 2, 3] {
        let mut s = field_msg(1, &l);
        for k in 0..count {
            let mut e2 = field_msg(1, &label_msg(&[k as u8 + 1], 8));
            e2.extend(field_msg(2, &[k as u8; 32]));
            s.extend(field_msg(2, &e2));
        }
        s.extend([0x18, 0x01]);
        push(out, "sibling", &s);
    }
    // non-membership: number of children
    let mut mp = field_msg(1, &l);
    mp.extend(field_msg(2, &[3u8; 32]));
    for count in [0usize, 1, 2, 3] {
        let mut n = field_msg(1, &l);
        n.extend(field_msg(2, &l));
        for _ in 0..count {
            n.extend(field_msg(3, &el));
        }
        n.extend(field_msg(4, &mp));
        push(out, "nonmembership", &n);
    }
    // append-only: packed and unpacked epochs, mixed
    let single: Vec<u8> = vec![];
    let mut a = field_msg(1, &single);
    a.extend([0x10, 0x03, 0x10, 0x04]);
    push(out, "appendonly", &a);
    let mut a = field_msg(1, &single);
    a.extend([0x12, 0x02, 0x03, 0x04]);
    push(out, "appendonly", &a);
    let mut a = field_msg(1, &single);
    a.extend([0x10, 0x01, 0x12, 0x02, 0x03, 0x04, 0x10, 0x09]);
    push(out, "appendonly", &a);
    let mut a = vec![0x12, 0x03, 0x03, 0x84]; // packed with a truncated varint
    a.push(0x80);
    push(out, "appendonly", &a);
    push(out, "history", &[]);
    push(out, "lookup", &[]);
    push(out, "update", &[]);
    // blob names
    for n in [
        "5/".to_string() + &"ab".repeat(32) + "/" + &"CD".repeat(32),
        "0/".to_string() + &"00".repeat(32) + "/" + &"11".repeat(32) + "/extra",
        "+7/".to_string() + &"00".repeat(32) + "/" + &"11".repeat(32),
        "18446744073709551615/".to_string() + &"00".repeat(32) + "/" + &"11".repeat(32),
        "18446744073709551616/".to_string() + &"00".repeat(32) + "/" + &"11".repeat(32),
        "-1/".to_string() + &"00".repeat(32) + "/" + &"11".repeat(32),
        "5/".to_string() + &"00".repeat(31) + "/" + &"11".repeat(32),
        "5/".to_string() + &"0g".repeat(32) + "/" + &"11".repeat(32),
        "5/abc".to_string(),
        "/".to_string() + &"00".repeat(32) + "/" + &"11".repeat(32),
        "007/".to_string() + &"00".repeat(32) + "/" + &"11".repeat(32),
        "".to_string(),
    ] {
        out.push(format!("pb.blobname {}", if n.is_empty() { "-".to_string() } else { n }));
    }
}

pub fn gen_pb(rng: &mut Rng, thorough: bool, out: &mut Vec<String>) {
    crafted(out);
    let rt = tokio::runtime::Builder::new_current_thread().enable_all().build().unwrap();
    // the smallest directories: one or two labels, one or two epochs (the root has an empty child)
    for cfg in ["wv1", "exp"] {
        for nusers in [1usize, 2] {
            out.push(format!("reset {cfg}"));
            out.push(format!("ck {}", key_hex(&rt)));
            let pool = user_pool(rng, nusers);
            for u in &pool {
                for v in 1..=4u64 {
                    for fresh in [true, false] {
                        out.push(format!("vrf {} {} {} {}", hex_or_dash(u), if fresh { "F" } else { "S" }, v, show_label(&vrf_label(&rt, cfg, u, fresh, v))));
                    }
                }
            }
            for ep in 1..=2u64 {
                // the second epoch publishes the EMPTY value for the first label (a legal value; equal to the tombstone)
                out.push(format!("dir.publish {}", pool.iter().enumerate().map(|(k, u)| format!("{} {}", hex_or_dash(u), if ep == 2 && k == 0 { "-".to_string() } else { hex_or_dash(&rng.bytes(3)) })).collect::<Vec<_>>().join(" ")));
                for u in &pool {
                    out.push(format!("o.pb.rt.lookup {}", hex_or_dash(u)));
                    out.push(format!("o.pb.rt.history {}", hex_or_dash(u)));
                }
                out.push(format!("o.pb.rt.audit 0 {ep}"));
            }
        }
    }
    let ncases = if thorough { 6 } else { 2 };
    for case in 0..ncases {
        let cfg = if case % 2 == 0 { "wv1" } else { "exp" };
        let inst = rt.block_on(Inst::new(cfg, "none", AzksParallelismConfig::disabled())).unwrap();
        out.push(format!("reset {cfg}"));
        out.push(format!("ck {}", key_hex(&rt)));
        let pool = user_pool(rng, 4);
        let epochs = if thorough { 6 } else { 4 };
        for u in &pool {
            for v in 1..=(epochs as u64 + 2) {
                for fresh in [true, false] {
                    out.push(format!("vrf {} {} {} {}", hex_or_dash(u), if fresh { "F" } else { "S" }, v, show_label(&vrf_label(&rt, cfg, u, fresh, v))));
                }
            }
        }
        let mut roots: Vec<[u8; 32]> = vec![rt.block_on(inst.epoch_hash()).unwrap().1];
        for _ in 0..epochs {
            let k = rng.range(1, pool.len() as u64) as usize;
            let mut idx: Vec<usize> = (0..pool.len()).collect();
            rng.shuffle(&mut idx);
            idx.truncate(k);
            let batch: Vec<(AkdLabel, AkdValue)> = idx.iter().map(|i| (AkdLabel(pool[*i].clone()), AkdValue(rng.bytes(3)))).collect();
            out.push(format!(
                "dir.publish {}",
                batch.iter().map(|(l, v)| format!("{} {}", hex_or_dash(&l.0), hex_or_dash(&v.0))).collect::<Vec<_>>().join(" ")
            ));
            let r = match &inst.dir {
                crate::exec_l1::AnyDir::W(d) => rt.block_on(d.publish(batch)),
                crate::exec_l1::AnyDir::E(d) => rt.block_on(d.publish(batch)),
            };
            if let Ok(eh) = r {
                if eh.0 as usize == roots.len() {
                    roots.push(eh.1);
                }
            }
            // after EVERY publish (so also on the smallest trees, where the root lacks a child and proofs carry the
            // configuration's empty label): honest proofs survive the encoding unchanged
            for u in &pool {
                out.push(format!("o.pb.rt.lookup {}", hex_or_dash(u)));
                out.push(format!("o.pb.rt.history {}", hex_or_dash(u)));
            }
            let cur = roots.len() as u64 - 1;
            if cur >= 1 {
                out.push(format!("o.pb.blob {cur}"));
                out.push(format!("o.pb.rt.audit 0 {cur}"));
                out.push(format!("o.pb.rt.audit {} {cur}", cur - 1));
            }
        }
        let cur = roots.len() as u64 - 1;
        // tombstoned values: an update proof of a tombstoned version carries a PRESENT but EMPTY value, which must survive
        // the encoding like any other value (it verifies when the verifier allows missing values)
        if cur >= 2 {
            for u in pool.iter().take(2) {
                out.push(format!("dir.tombstone {} {}", hex_or_dash(u), cur - 1));
                let _ = rt.block_on(inst.storage.tombstone_value_states(&AkdLabel(u.clone()), cur - 1));
                out.push(format!("o.pb.rt.history {}", hex_or_dash(u)));
                out.push(format!("o.pb.rt.lookup {}", hex_or_dash(u)));
            }
        }
        for u in &pool {
            let label = AkdLabel(u.clone());
            let hu = hex_or_dash(u);
            if let Some((p, _, _)) = rt.block_on(inst.lookup(&label)) {
                let b = pb::LookupProof::from(&p).write_to_bytes().unwrap();
                out.push(format!("pb.dec lookup {}", hex_or_dash(&b)));
                out.push(format!("o.pb.verify.lookup {hu} {}", hex_or_dash(&b)));
                for m in mutations(rng, &b, thorough) {
                    out.push(format!("pb.dec lookup {}", hex_or_dash(&m)));
                    out.push(format!("o.pb.verify.lookup {hu} {}", hex_or_dash(&m)));
                }
                // components
                let mb = pb::MembershipProof::from(&p.existence_proof).write_to_bytes().unwrap();
                out.push(format!("pb.dec membership {}", hex_or_dash(&mb)));
                for m in mutations(rng, &mb, false) {
                    out.push(format!("pb.dec membership {}", hex_or_dash(&m)));
                }
                let nb = pb::NonMembershipProof::from(&p.freshness_proof).write_to_bytes().unwrap();
                out.push(format!("pb.dec nonmembership {}", hex_or_dash(&nb)));
                for m in mutations(rng, &nb, false) {
                    out.push(format!("pb.dec nonmembership {}", hex_or_dash(&m)));
                }
                if let Some(sp) = p.existence_proof.sibling_proofs.first() {
                    let sb = pb::SiblingProof::from(sp).write_to_bytes().unwrap();
                    out.push(format!("pb.dec sibling {}", hex_or_dash(&sb)));
                    let eb = pb::AzksElement::from(&sp.siblings[0]).write_to_bytes().unwrap();
                    out.push(format!("pb.dec element {}", hex_or_dash(&eb)));
                    let lb = pb::NodeLabel::from(&sp.label).write_to_bytes().unwrap();
                    out.push(format!("pb.dec label {}", hex_or_dash(&lb)));
                    for m in mutations(rng, &sb, false) {
                        out.push(format!("pb.dec sibling {}", hex_or_dash(&m)));
                    }
                }
            }
            if let Some((p, _, _)) = rt.block_on(inst.history(&label, HistoryParams::Complete)) {
                let b = pb::HistoryProof::from(&p).write_to_bytes().unwrap();
                out.push(format!("pb.dec history {}", hex_or_dash(&b)));
                out.push(format!("o.pb.verify.history {hu} {}", hex_or_dash(&b)));
                for m in mutations(rng, &b, false) {
                    out.push(format!("pb.dec history {}", hex_or_dash(&m)));
                    out.push(format!("o.pb.verify.history {hu} {}", hex_or_dash(&m)));
                }
                for (k, up) in p.update_proofs.iter().enumerate() {
                    let ub = pb::UpdateProof::from(up).write_to_bytes().unwrap();
                    out.push(format!("pb.dec update {}", hex_or_dash(&ub)));
                    if k == 0 || up.value.0.is_empty() {
                        for m in mutations(rng, &ub, false) {
                            out.push(format!("pb.dec update {}", hex_or_dash(&m)));
                        }
                    }
                }
            }
        }
        if cur >= 1 {
            if let Some(ap) = rt.block_on(inst.audit(0, cur)) {
                let b = pb::AppendOnlyProof::from(&ap).write_to_bytes().unwrap();
                out.push(format!("pb.dec appendonly {}", hex_or_dash(&b)));
                out.push(format!("o.pb.verify.audit 0 {cur} {}", hex_or_dash(&b)));
                for m in mutations(rng, &b, false) {
                    out.push(format!("pb.dec appendonly {}", hex_or_dash(&m)));
                    out.push(format!("o.pb.verify.audit 0 {cur} {}", hex_or_dash(&m)));
                }
                if let Some(s) = ap.proofs.first() {
                    let sb = pb::SingleAppendOnlyProof::from(s).write_to_bytes().unwrap();
                    out.push(format!("pb.dec single {}", hex_or_dash(&sb)));
                    for m in mutations(rng, &sb, false) {
                        out.push(format!("pb.dec single {}", hex_or_dash(&m)));
                    }
                }
            }
            // blob name of a real transition
            out.push(format!("pb.blobname {}/{}/{}", cur, hex::encode(roots[cur as usize - 1]), hex::encode(roots[cur as usize])));
        }
        // random bytes
        for _ in 0..(if thorough { 400 } else { 60 }) {
            let n = rng.range(0, 60) as usize;
            let b = rng.bytes(n);
            let ty = *rng.pick(&["label", "element", "sibling", "membership", "nonmembership", "lookup", "update", "history", "single", "appendonly"]);
            out.push(format!("pb.dec {ty} {}", hex_or_dash(&b)));
        }
    }
}
