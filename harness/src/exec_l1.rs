//! Ops of the layers above L0 (filled in as the model grows).
use crate::exec::Exec;

#[derive(Default)]
pub struct L1State {}

pub fn step(_ex: &mut Exec, _toks: &[&str]) -> Option<String> {
    None
}
