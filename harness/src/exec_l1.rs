//! Ops of the layers above L0, executed on the real `akd` code: directory, tree, proofs,
//! verification, symbolic adversary.  Text forms mirror `lean/AkdModel/Show.lean`; digests are
//! printed as hex (the model prints terms, evaluated by `eval.rs`).
use crate::exec::{Exec, Exp, Wv1};
use crate::util::*;
use akd::append_only_zks::{AzksParallelismConfig, InsertMode, DEFAULT_AZKS_KEY};
use akd::configuration::Configuration;
use akd::directory::Directory;
use akd::ecvrf::{HardCodedAkdVRF, VRFKeyStorage};
use akd::storage::manager::StorageManager;
use akd::storage::memory::AsyncInMemoryDatabase;
use akd::storage::types::DbRecord;
use akd::storage::{Database, StorageUtil};
use akd::tree_node::{TreeNode, TreeNodeType};
use akd::verify::history::HistoryVerificationParams;
use akd::{
    AkdLabel, AkdValue, AppendOnlyProof, Azks, AzksElement, AzksValue, Direction, HistoryParams,
    HistoryProof, LookupProof, MembershipProof, NodeLabel, NonMembershipProof, SiblingProof,
    SingleAppendOnlyProof, UpdateProof, VerifyResult, VersionFreshness,
};
use std::collections::BTreeMap;

type Db = AsyncInMemoryDatabase;

pub enum AnyDir {
    W(Directory<Wv1, Db, HardCodedAkdVRF>),
    E(Directory<Exp, Db, HardCodedAkdVRF>),
}

pub struct Inst {
    pub cfg: String,
    pub db: Db,
    pub storage: StorageManager<Db>,
    pub dir: AnyDir,
    pub roots: BTreeMap<u64, [u8; 32]>,
    /// leaves inserted through `azks.insert` (label -> (value, epoch)), for the C05 oracle
    pub leaves: BTreeMap<NodeLabel, ([u8; 32], u64)>,
    pub pk: Vec<u8>,
    pub readonly: bool,
    pub par: AzksParallelismConfig,
}

pub enum AnyRo {
    W(akd::directory::ReadOnlyDirectory<Wv1, Db, HardCodedAkdVRF>),
    E(akd::directory::ReadOnlyDirectory<Exp, Db, HardCodedAkdVRF>),
}

pub struct Reader {
    pub dir: AnyRo,
}

pub struct L1State {
    pub rt: tokio::runtime::Runtime,
    pub inst: Option<Inst>,
    pub cache_mode: String,
    pub parallelism: AzksParallelismConfig,
    pub st: Option<crate::exec_l2::StState>,
    /// mirror of the pending transaction log of `st` (for the oracles)
    pub st_log: Vec<DbRecord>,
    pub fx: Option<crate::exec_l3::FxState>,
    pub fx_roots: Vec<[u8; 32]>,
    /// C14: probability (per mille) of dropping and re-creating the directory object before an op
    pub perm_roots: Vec<[u8; 32]>,
    /// lagging read-only instances (C13): own cached storage manager over the shared database
    pub readers: BTreeMap<u64, Reader>,
    pub thorough: bool,
    pub sched_traces: Vec<String>,
    /// dishonest tree (C07, last clause): (label, version) pairs whose predecessor was NOT retired in the epoch of this version
    pub unretired: Vec<(Vec<u8>, u64)>,
    /// the database as it was after each successful publish of a small directory (epoch -> records): material of other
    /// epochs' trees for the lookup adversary (`old.*` edits)
    pub snaps: BTreeMap<u64, Vec<DbRecord>>,
    pub restart_permille: u64,
    /// C14: serve read operations through `ReadOnlyDirectory`
    pub readonly: bool,
    pub rng: crate::rng::Rng,
}

impl Default for L1State {
    fn default() -> Self {
        L1State {
            rt: tokio::runtime::Builder::new_multi_thread()
                .worker_threads(2)
                .enable_all()
                .build()
                .unwrap(),
            inst: None,
            cache_mode: "none".into(),
            parallelism: AzksParallelismConfig::disabled(),
            st: None,
            st_log: vec![],
            fx: None,
            fx_roots: vec![],
            perm_roots: vec![],
            readers: BTreeMap::new(),
            thorough: false,
            sched_traces: vec![],
            unretired: vec![],
            snaps: BTreeMap::new(),
            restart_permille: 0,
            readonly: false,
            rng: crate::rng::Rng::new(7),
        }
    }
}

macro_rules! with_cfg {
    ($cfg:expr, $tc:ident => $body:expr) => {
        match $cfg {
            "wv1" => {
                type $tc = Wv1;
                $body
            }
            _ => {
                type $tc = Exp;
                $body
            }
        }
    };
}

pub fn hex32(d: &[u8]) -> String {
    hex_or_dash(d)
}

fn show_dir(d: Direction) -> &'static str {
    match d {
        Direction::Left => "L",
        Direction::Right => "R",
    }
}

fn show_sibling(s: &SiblingProof) -> String {
    format!(
        "{},{},{},{}",
        show_label(&s.label),
        show_label(&s.siblings[0].label),
        hex32(&s.siblings[0].value.0),
        show_dir(s.direction)
    )
}

pub fn show_membership(p: &MembershipProof) -> String {
    format!(
        "M[{}|{}|{}]",
        show_label(&p.label),
        hex32(&p.hash_val.0),
        p.sibling_proofs.iter().map(show_sibling).collect::<Vec<_>>().join(";")
    )
}

pub fn show_nonmembership(p: &NonMembershipProof) -> String {
    format!(
        "N[{}|{}|{},{}|{},{}|{}]",
        show_label(&p.label),
        show_label(&p.longest_prefix),
        show_label(&p.longest_prefix_children[0].label),
        hex32(&p.longest_prefix_children[0].value.0),
        show_label(&p.longest_prefix_children[1].label),
        hex32(&p.longest_prefix_children[1].value.0),
        show_membership(&p.longest_prefix_membership_proof)
    )
}

fn show_element(e: &AzksElement) -> String {
    format!("{}={}", show_label(&e.label), hex32(&e.value.0))
}

fn show_single(p: &SingleAppendOnlyProof) -> String {
    let mut i: Vec<String> = p.inserted.iter().map(show_element).collect();
    let mut u: Vec<String> = p.unchanged_nodes.iter().map(show_element).collect();
    i.sort();
    u.sort();
    format!("I:{} U:{}", i.join(","), u.join(","))
}

pub fn show_append_only(p: &AppendOnlyProof) -> String {
    format!(
        "AP[{}|{}]",
        p.proofs.iter().map(show_single).collect::<Vec<_>>().join(" / "),
        show_nats(&p.epochs)
    )
}

fn show_type(t: TreeNodeType) -> &'static str {
    match t {
        TreeNodeType::Leaf => "leaf",
        TreeNodeType::Root => "root",
        TreeNodeType::Interior => "int",
    }
}

fn opt_label(l: &Option<NodeLabel>) -> String {
    match l {
        Some(l) => show_label(l),
        None => "-".into(),
    }
}

fn show_tree_node(n: &TreeNode) -> String {
    format!(
        "{} {} le={} md={} l={} r={} h={}",
        show_label(&n.label),
        show_type(n.node_type),
        n.last_epoch,
        n.min_descendant_epoch,
        opt_label(&n.left_child),
        opt_label(&n.right_child),
        hex32(&n.hash.0)
    )
}

pub fn show_result(r: &VerifyResult) -> String {
    format!("({},{},{})", r.epoch, r.version, hex_or_dash(&r.value.0))
}

impl Inst {
    pub async fn new(cfg: &str, cache_mode: &str, par: AzksParallelismConfig) -> Option<Inst> {
        let db = Db::new();
        Self::open(cfg, db, cache_mode, par).await
    }

    pub fn make_storage(db: &Db, cache_mode: &str) -> StorageManager<Db> {
        use std::time::Duration;
        match cache_mode {
            "default" => StorageManager::new(db.clone(), None, None, None),
            "1ms" => StorageManager::new(db.clone(), Some(Duration::from_millis(2)), None, Some(Duration::from_millis(2))),
            "tiny" => StorageManager::new(db.clone(), Some(Duration::from_millis(50)), Some(300), Some(Duration::from_millis(2))),
            _ => StorageManager::new_no_cache(db.clone()),
        }
    }

    /// (re)open a directory object over an existing database
    pub async fn open(cfg: &str, db: Db, cache_mode: &str, par: AzksParallelismConfig) -> Option<Inst> {
        let storage = Self::make_storage(&db, cache_mode);
        let vrf = HardCodedAkdVRF {};
        let dir = match cfg {
            "wv1" => AnyDir::W(Directory::<Wv1, _, _>::new(storage.clone(), vrf.clone(), par).await.ok()?),
            "exp" => AnyDir::E(Directory::<Exp, _, _>::new(storage.clone(), vrf.clone(), par).await.ok()?),
            _ => return None,
        };
        let pk = vrf.get_vrf_public_key().await.ok()?.as_bytes().to_vec();
        let mut inst = Inst {
            cfg: cfg.to_string(),
            db,
            storage,
            dir,
            roots: BTreeMap::new(),
            leaves: BTreeMap::new(),
            pk,
            readonly: false,
            par,
        };
        if let Some((e, h)) = inst.epoch_hash().await {
            inst.roots.insert(e, h);
        }
        Some(inst)
    }

    pub async fn epoch_hash(&self) -> Option<(u64, [u8; 32])> {
        let r = match &self.dir {
            AnyDir::W(d) => d.get_epoch_hash().await,
            AnyDir::E(d) => d.get_epoch_hash().await,
        };
        r.ok().map(|eh| (eh.0, eh.1))
    }

    pub async fn azks(&self) -> Option<Azks> {
        match self.storage.get::<Azks>(&DEFAULT_AZKS_KEY).await {
            Ok(DbRecord::Azks(a)) => Some(a),
            _ => None,
        }
    }

    pub async fn root_value(&self) -> Option<[u8; 32]> {
        let a = self.azks().await?;
        let recs = self.db.batch_get_all_direct().await.ok()?;
        for r in recs {
            if let DbRecord::TreeNode(t) = r {
                if t.label == NodeLabel::root() {
                    let n = akd::tree_node::verif_determine_node_to_get(&t, a.latest_epoch).ok()?;
                    return Some(n.hash.0);
                }
            }
        }
        None
    }

    pub async fn lookup(&self, u: &AkdLabel) -> Option<(LookupProof, u64, [u8; 32])> {
        if self.readonly {
            let vrf = HardCodedAkdVRF {};
            let r = with_cfg!(self.cfg.as_str(), TC => {
                let d = akd::directory::ReadOnlyDirectory::<TC, _, _>::new(self.storage.clone(), vrf, self.par).await.ok()?;
                d.lookup(u.clone()).await
            });
            return r.ok().map(|(p, eh)| (p, eh.0, eh.1));
        }
        let r = match &self.dir {
            AnyDir::W(d) => d.lookup(u.clone()).await,
            AnyDir::E(d) => d.lookup(u.clone()).await,
        };
        r.ok().map(|(p, eh)| (p, eh.0, eh.1))
    }

    pub async fn batch_lookup(&self, us: &[AkdLabel]) -> Option<(Vec<LookupProof>, u64, [u8; 32])> {
        if self.readonly {
            let vrf = HardCodedAkdVRF {};
            let r = with_cfg!(self.cfg.as_str(), TC => {
                let d = akd::directory::ReadOnlyDirectory::<TC, _, _>::new(self.storage.clone(), vrf, self.par).await.ok()?;
                d.batch_lookup(us).await
            });
            return r.ok().map(|(p, eh)| (p, eh.0, eh.1));
        }
        let r = match &self.dir {
            AnyDir::W(d) => d.batch_lookup(us).await,
            AnyDir::E(d) => d.batch_lookup(us).await,
        };
        r.ok().map(|(p, eh)| (p, eh.0, eh.1))
    }

    pub async fn history(&self, u: &AkdLabel, p: HistoryParams) -> Option<(HistoryProof, u64, [u8; 32])> {
        if self.readonly {
            let vrf = HardCodedAkdVRF {};
            let r = with_cfg!(self.cfg.as_str(), TC => {
                let d = akd::directory::ReadOnlyDirectory::<TC, _, _>::new(self.storage.clone(), vrf, self.par).await.ok()?;
                d.key_history(u, p).await
            });
            return r.ok().map(|(p, eh)| (p, eh.0, eh.1));
        }
        let r = match &self.dir {
            AnyDir::W(d) => d.key_history(u, p).await,
            AnyDir::E(d) => d.key_history(u, p).await,
        };
        r.ok().map(|(p, eh)| (p, eh.0, eh.1))
    }

    pub async fn audit(&self, s: u64, e: u64) -> Option<AppendOnlyProof> {
        if self.readonly {
            let vrf = HardCodedAkdVRF {};
            let r = with_cfg!(self.cfg.as_str(), TC => {
                let d = akd::directory::ReadOnlyDirectory::<TC, _, _>::new(self.storage.clone(), vrf, self.par).await.ok()?;
                d.audit(s, e).await
            });
            return r.ok();
        }
        let r = match &self.dir {
            AnyDir::W(d) => d.audit(s, e).await,
            AnyDir::E(d) => d.audit(s, e).await,
        };
        r.ok()
    }

    pub fn verify_lookup(&self, root: [u8; 32], ep: u64, u: &AkdLabel, p: LookupProof) -> Result<VerifyResult, String> {
        with_cfg!(self.cfg.as_str(), TC => akd::verify::lookup_verify::<TC>(&self.pk, root, ep, u.clone(), p).map_err(|e| e.to_string()))
    }

    pub fn verify_history(
        &self,
        root: [u8; 32],
        ep: u64,
        u: &AkdLabel,
        p: HistoryProof,
        params: HistoryVerificationParams,
    ) -> Result<Vec<VerifyResult>, String> {
        with_cfg!(self.cfg.as_str(), TC => akd::verify::key_history_verify::<TC>(&self.pk, root, ep, u.clone(), p, params).map_err(|e| e.to_string()))
    }

    pub async fn verify_audit(&self, hashes: Vec<[u8; 32]>, p: AppendOnlyProof) -> Result<(), String> {
        with_cfg!(self.cfg.as_str(), TC => akd::auditor::audit_verify::<TC>(hashes, p).await.map_err(|e| e.to_string()))
    }

    pub fn verify_mem(&self, root: [u8; 32], p: &MembershipProof) -> bool {
        with_cfg!(self.cfg.as_str(), TC => akd::verify::base::verify_membership_for_tests_only::<TC>(root, p).is_ok())
    }

    pub fn verify_nonmem(&self, root: [u8; 32], p: &NonMembershipProof) -> bool {
        with_cfg!(self.cfg.as_str(), TC => akd::verify::base::verify_nonmembership_for_tests_only::<TC>(root, p).is_ok())
    }

    pub async fn gen_mem(&self, l: NodeLabel) -> Option<MembershipProof> {
        let a = self.azks().await?;
        with_cfg!(self.cfg.as_str(), TC => a.get_membership_proof::<TC, _>(&self.storage, l).await.ok())
    }

    pub async fn gen_nonmem(&self, l: NodeLabel) -> Option<NonMembershipProof> {
        let a = self.azks().await?;
        with_cfg!(self.cfg.as_str(), TC => a.get_non_membership_proof::<TC, _>(&self.storage, l).await.ok())
    }

    pub fn empty_element(&self) -> AzksElement {
        with_cfg!(self.cfg.as_str(), TC => AzksElement { label: TC::empty_label(), value: TC::empty_node_hash() })
    }

    pub async fn dump(&self) -> String {
        let recs = self.db.batch_get_all_direct().await.unwrap_or_default();
        let mut nodes = vec![];
        let mut states = vec![];
        let mut azks = "azks(-)".to_string();
        for r in recs {
            match r {
                DbRecord::Azks(a) => azks = format!("azks({},{})", a.latest_epoch, a.num_nodes),
                DbRecord::TreeNode(t) => {
                    let prev = match &t.previous_node {
                        Some(p) => format!("{{{}}}", show_tree_node(p)),
                        None => "-".into(),
                    };
                    nodes.push(format!("{{{}}} prev={}", show_tree_node(&t.latest_node), prev));
                }
                DbRecord::ValueState(v) => states.push(format!(
                    "{}@{} v{} {} {}",
                    hex_or_dash(&v.username.0),
                    v.epoch,
                    v.version,
                    show_label(&v.label),
                    hex_or_dash(&v.value.0)
                )),
            }
        }
        nodes.sort();
        states.sort();
        format!("{} ## {} ## {}", azks, nodes.join(" ;; "), states.join(" ;; "))
    }
}

pub fn vrf_ok(inst: &Inst, rt: &tokio::runtime::Runtime, bytes: &[u8], u: &AkdLabel, fresh: VersionFreshness, ver: u64) -> &'static str {
    let vrf = HardCodedAkdVRF {};
    let honest = with_cfg!(inst.cfg.as_str(), TC => rt.block_on(vrf.get_label_proof::<TC>(u, fresh, ver)));
    match honest {
        Ok(p) if p.to_bytes().as_slice() == bytes => "vrf:ok",
        _ => "vrf:BAD",
    }
}

fn show_lookup(inst: &Inst, rt: &tokio::runtime::Runtime, u: &AkdLabel, p: &LookupProof) -> String {
    let mv = if p.version == 0 { 0 } else { 1u64 << (63 - p.version.leading_zeros()) };
    format!(
        "LK[{}|{}|{}|{}|{}|{}|{}|{}|{}|{}]",
        p.epoch,
        hex_or_dash(&p.value.0),
        p.version,
        vrf_ok(inst, rt, &p.existence_vrf_proof, u, VersionFreshness::Fresh, p.version),
        show_membership(&p.existence_proof),
        vrf_ok(inst, rt, &p.marker_vrf_proof, u, VersionFreshness::Fresh, mv),
        show_membership(&p.marker_proof),
        vrf_ok(inst, rt, &p.freshness_vrf_proof, u, VersionFreshness::Stale, p.version),
        show_nonmembership(&p.freshness_proof),
        hex32(&p.commitment_nonce)
    )
}

fn show_update(inst: &Inst, rt: &tokio::runtime::Runtime, u: &AkdLabel, p: &UpdateProof) -> String {
    let pv = match &p.previous_version_vrf_proof {
        Some(b) => vrf_ok(inst, rt, b, u, VersionFreshness::Stale, p.version.wrapping_sub(1)).to_string(),
        None => "-".into(),
    };
    let pp = match &p.previous_version_proof {
        Some(m) => show_membership(m),
        None => "-".into(),
    };
    format!(
        "UP[{}|{}|{}|{}|{}|{}|{}|{}]",
        p.epoch,
        hex_or_dash(&p.value.0),
        p.version,
        vrf_ok(inst, rt, &p.existence_vrf_proof, u, VersionFreshness::Fresh, p.version),
        show_membership(&p.existence_proof),
        pv,
        pp,
        hex32(&p.commitment_nonce)
    )
}

fn show_history(inst: &Inst, rt: &tokio::runtime::Runtime, u: &AkdLabel, ep: u64, p: &HistoryProof) -> String {
    // the marker versions the positions stand for (same function the verifier uses)
    let vs: Vec<u64> = p.update_proofs.iter().map(|x| x.version).collect();
    let (past, future) = match (vs.iter().min(), vs.iter().max()) {
        (Some(&s), Some(&e)) if s >= 1 && e <= ep => akd_core::utils::get_marker_versions(s, e, ep),
        _ => (vec![], vec![]),
    };
    let pv: Vec<String> = p
        .past_marker_vrf_proofs
        .iter()
        .enumerate()
        .map(|(i, b)| vrf_ok(inst, rt, b, u, VersionFreshness::Fresh, *past.get(i).unwrap_or(&0)).to_string())
        .collect();
    let fv: Vec<String> = p
        .future_marker_vrf_proofs
        .iter()
        .enumerate()
        .map(|(i, b)| vrf_ok(inst, rt, b, u, VersionFreshness::Fresh, *future.get(i).unwrap_or(&0)).to_string())
        .collect();
    format!(
        "HP[{}|{}|{}|{}|{}]",
        p.update_proofs.iter().map(|x| show_update(inst, rt, u, x)).collect::<Vec<_>>().join(" "),
        pv.join(","),
        p.existence_of_past_marker_proofs.iter().map(show_membership).collect::<Vec<_>>().join(" "),
        fv.join(","),
        p.non_existence_of_future_marker_proofs.iter().map(show_nonmembership).collect::<Vec<_>>().join(" ")
    )
}

pub fn parse_params(s: &str) -> Option<HistoryParams> {
    if s == "complete" {
        return Some(HistoryParams::Complete);
    }
    let (a, b) = s.split_once(':')?;
    if a == "recent" {
        return Some(HistoryParams::MostRecent(b.parse().ok()?));
    }
    None
}

// ---- the symbolic adversary (mirror of lean/AkdModel/Adv.lean) ----

fn modify_at<T, F: FnOnce(&mut T)>(xs: &mut [T], i: usize, f: F) {
    if let Some(x) = xs.get_mut(i) {
        f(x)
    }
}

pub fn apply_mem_edit(root_value: [u8; 32], p: &mut MembershipProof, tok: &str) -> Option<()> {
    let parts: Vec<&str> = tok.split(':').collect();
    match parts.as_slice() {
        ["label", l] => p.label = parse_label(l)?,
        ["hashroot"] => p.hash_val = AzksValue(root_value),
        ["hashsib", i] => {
            let i: usize = i.parse().ok()?;
            if let Some(s) = p.sibling_proofs.get(i) {
                p.hash_val = s.siblings[0].value;
            }
        }
        ["hashzero"] => p.hash_val = AzksValue([0u8; 32]),
        ["droptop", k] => {
            let k: usize = k.parse().ok()?;
            let k = k.min(p.sibling_proofs.len());
            p.sibling_proofs.drain(..k);
        }
        ["dropbottom", k] => {
            let k: usize = k.parse().ok()?;
            let n = p.sibling_proofs.len().saturating_sub(k);
            p.sibling_proofs.truncate(n);
        }
        ["flip", i] => {
            let i: usize = i.parse().ok()?;
            modify_at(&mut p.sibling_proofs, i, |s| s.direction = s.direction.other());
        }
        ["siblabel", i, l] => {
            let i: usize = i.parse().ok()?;
            let l = parse_label(l)?;
            modify_at(&mut p.sibling_proofs, i, |s| s.siblings[0].label = l);
        }
        ["parentlabel", i, l] => {
            let i: usize = i.parse().ok()?;
            let l = parse_label(l)?;
            modify_at(&mut p.sibling_proofs, i, |s| s.label = l);
        }
        ["swapsib", i, j] => {
            let i: usize = i.parse().ok()?;
            let j: usize = j.parse().ok()?;
            if i < p.sibling_proofs.len() && j < p.sibling_proofs.len() {
                let a = p.sibling_proofs[i].siblings[0];
                let b = p.sibling_proofs[j].siblings[0];
                p.sibling_proofs[i].siblings[0] = b;
                p.sibling_proofs[j].siblings[0] = a;
            }
        }
        _ => return None,
    }
    Some(())
}

pub fn apply_nonmem_edit(inst: &Inst, root_value: [u8; 32], p: &mut NonMembershipProof, tok: &str) -> Option<()> {
    let parts: Vec<&str> = tok.split(':').collect();
    match parts.as_slice() {
        ["label", l] => p.label = parse_label(l)?,
        ["lp", l] => p.longest_prefix = parse_label(l)?,
        ["swapchildren"] => p.longest_prefix_children.swap(0, 1),
        ["childlabel", i, l] => {
            let i: usize = i.parse().ok()?;
            let l = parse_label(l)?;
            let i = if i == 0 { 0 } else { 1 };
            p.longest_prefix_children[i].label = l;
        }
        ["childempty", i] => {
            let i: usize = i.parse().ok()?;
            let i = if i == 0 { 0 } else { 1 };
            p.longest_prefix_children[i] = inst.empty_element();
        }
        ["mp", rest @ ..] => {
            apply_mem_edit(root_value, &mut p.longest_prefix_membership_proof, &rest.join(":"))?;
        }
        _ => return None,
    }
    Some(())
}

// ---- directory-level adversary (mirror of lean/AkdModel/AdvDir.lean) ----

async fn vrf_bytes(cfg: &str, u: &AkdLabel, fresh: VersionFreshness, ver: u64) -> Option<Vec<u8>> {
    let vrf = HardCodedAkdVRF {};
    with_cfg!(cfg, TC => vrf.get_label_proof::<TC>(u, fresh, ver).await.ok().map(|p| p.to_bytes().to_vec()))
}

async fn vrf_node_label(cfg: &str, u: &AkdLabel, fresh: VersionFreshness, ver: u64) -> Option<NodeLabel> {
    let vrf = HardCodedAkdVRF {};
    with_cfg!(cfg, TC => vrf.get_node_label::<TC>(u, fresh, ver).await.ok())
}

async fn nonce_for(cfg: &str, label: &NodeLabel, ver: u64, value: &AkdValue) -> Option<Vec<u8>> {
    let raw = HardCodedAkdVRF {}.retrieve().await.ok()?;
    with_cfg!(cfg, TC => {
        let key = TC::hash(&raw);
        Some(TC::get_commitment_nonce(&key, label, ver, value).to_vec())
    })
}

fn rng_bool(rng: &mut crate::rng::Rng) -> bool {
    rng.chance(1, 2)
}

fn marker_version(v: u64) -> u64 {
    if v == 0 { 0 } else { 1u64 << (63 - v.leading_zeros()) }
}

/// the lookup proof a server would produce for the stored state of version `v`
async fn lookup_for(inst: &Inst, u: &AkdLabel, v: u64) -> Option<LookupProof> {
    use akd::storage::types::ValueStateRetrievalFlag;
    let st = inst.storage.get_user_state(u, ValueStateRetrievalFlag::SpecificVersion(v)).await.ok()?;
    let cfg = inst.cfg.as_str();
    let mv = marker_version(v);
    let le = vrf_node_label(cfg, u, VersionFreshness::Fresh, v).await?;
    let lm = vrf_node_label(cfg, u, VersionFreshness::Fresh, mv).await?;
    let ln = vrf_node_label(cfg, u, VersionFreshness::Stale, v).await?;
    Some(LookupProof {
        epoch: st.epoch,
        value: st.value.clone(),
        version: v,
        existence_vrf_proof: vrf_bytes(cfg, u, VersionFreshness::Fresh, v).await?,
        existence_proof: inst.gen_mem(le).await?,
        marker_vrf_proof: vrf_bytes(cfg, u, VersionFreshness::Fresh, mv).await?,
        marker_proof: inst.gen_mem(lm).await?,
        freshness_vrf_proof: vrf_bytes(cfg, u, VersionFreshness::Stale, v).await?,
        freshness_proof: inst.gen_nonmem(ln).await?,
        commitment_nonce: nonce_for(cfg, &le, v, &st.value).await?,
    })
}

async fn anchored_at(inst: &Inst, label: NodeLabel, k: usize) -> Option<NonMembershipProof> {
    let mp = inst.gen_mem(label).await?;
    let sp = mp.sibling_proofs.get(k)?;
    let mut np = inst.gen_nonmem(sp.label).await?;
    np.label = label;
    Some(np)
}

async fn apply_lookup_edit(inst: &Inst, snaps: &BTreeMap<u64, Vec<DbRecord>>, u: &AkdLabel, p: &mut LookupProof, tok: &str) -> Result<(), Option<()>> {
    // Err(Some(())) = the edit cannot be constructed here ("err"); Err(None) = malformed token (bad-op)
    let parts: Vec<&str> = tok.split(':').collect();
    let rv = inst.root_value().await.ok_or(Some(()))?;
    match parts.as_slice() {
        ["version", v] => {
            let v: u64 = v.parse().map_err(|_| None)?;
            *p = lookup_for(inst, u, v).await.ok_or(Some(()))?;
        }
        ["fresh.anchor", k] => {
            let k: usize = k.parse().map_err(|_| None)?;
            p.freshness_proof = anchored_at(inst, p.freshness_proof.label, k).await.ok_or(Some(()))?;
        }
        ["value", v] => p.value = AkdValue(parse_hex(v).ok_or(None)?),
        ["epoch", e] => p.epoch = e.parse().map_err(|_| None)?,
        ["vfield", v] => p.version = v.parse().map_err(|_| None)?,
        ["nonce.zero"] => p.commitment_nonce = vec![0u8; 32],
        ["marker.rootproof"] => p.marker_proof = MembershipProof { label: p.marker_proof.label, hash_val: AzksValue(rv), sibling_proofs: vec![] },
        ["exist.rootproof"] => p.existence_proof = MembershipProof { label: p.existence_proof.label, hash_val: AzksValue(rv), sibling_proofs: vec![] },
        ["exvrf.flip", i] | ["exvrf.zero", i] | ["exvrf.inc", i] | ["frvrf.flip", i] | ["mkvrf.flip", i] => {
            let i: usize = i.parse().map_err(|_| None)?;
            let target = match parts[0] {
                "frvrf.flip" => &mut p.freshness_vrf_proof,
                "mkvrf.flip" => &mut p.marker_vrf_proof,
                _ => &mut p.existence_vrf_proof,
            };
            if i >= target.len() {
                return Err(None);
            }
            match parts[0] {
                "exvrf.zero" => target[i] = if target[i] == 0 { 0xff } else { 0 },
                "exvrf.inc" => target[i] = target[i].wrapping_add(1),
                _ => target[i] ^= 1 << (i % 8),
            }
        }
        ["exvrf.trunc"] => {
            p.existence_vrf_proof.pop();
        }
        ["exvrf.splus"] => {
            // s := s + l (the group order), still below 2^256: a non-canonical encoding of the same scalar
            let ell: [u8; 32] = [
                0xed, 0xd3, 0xf5, 0x5c, 0x1a, 0x63, 0x12, 0x58, 0xd6, 0x9c, 0xf7, 0xa2, 0xde, 0xf9, 0xde, 0x14, 0, 0, 0, 0, 0, 0, 0, 0, 0, 0, 0, 0, 0,
                0, 0, 0x10,
            ];
            if p.existence_vrf_proof.len() == 80 {
                let mut carry = 0u16;
                for k in 0..32 {
                    let v = p.existence_vrf_proof[48 + k] as u16 + ell[k] as u16 + carry;
                    p.existence_vrf_proof[48 + k] = v as u8;
                    carry = v >> 8;
                }
            }
        }
        ["exvrf.other", u2, f, v] => {
            let u2 = AkdLabel(parse_hex(u2).ok_or(None)?);
            let fr = match *f {
                "F" => VersionFreshness::Fresh,
                "S" => VersionFreshness::Stale,
                _ => return Err(None),
            };
            let v: u64 = v.parse().map_err(|_| None)?;
            p.existence_vrf_proof = vrf_bytes(&inst.cfg, &u2, fr, v).await.ok_or(Some(()))?;
        }
        ["old.full", e] | ["old.exist", e] | ["old.marker", e] | ["old.fresh", e] => {
            // the honest lookup proof the directory served at epoch `e`: a directory re-opened on the records of that epoch
            let e: u64 = e.parse().map_err(|_| None)?;
            let recs = snaps.get(&e).ok_or(Some(()))?;
            let db = Db::new();
            db.batch_set(recs.clone(), akd::storage::DbSetState::General).await.map_err(|_| Some(()))?;
            let old = Inst::open(&inst.cfg, db, "none", AzksParallelismConfig::disabled()).await.ok_or(Some(()))?;
            let (q, _, _) = old.lookup(u).await.ok_or(Some(()))?;
            match parts[0] {
                "old.full" => *p = q,
                "old.exist" => {
                    p.existence_proof = q.existence_proof;
                    p.existence_vrf_proof = q.existence_vrf_proof;
                }
                "old.marker" => {
                    p.marker_proof = q.marker_proof;
                    p.marker_vrf_proof = q.marker_vrf_proof;
                }
                _ => {
                    p.freshness_proof = q.freshness_proof;
                    p.freshness_vrf_proof = q.freshness_vrf_proof;
                }
            }
        }
        ["fresh.len", n] => {
            let n: u32 = n.parse().map_err(|_| None)?;
            let l = p.freshness_proof.label;
            p.freshness_proof = inst.gen_nonmem(NodeLabel { label_val: l.label_val, label_len: n }).await.ok_or(Some(()))?;
        }
        ["exist.len", n] => p.existence_proof.label.label_len = n.parse().map_err(|_| None)?,
        ["marker.len", n] => p.marker_proof.label.label_len = n.parse().map_err(|_| None)?,
        ["swap.exist", u2] | ["swap.marker", u2] | ["swap.fresh", u2] => {
            let u2 = AkdLabel(parse_hex(u2).ok_or(None)?);
            let (q, _, _) = inst.lookup(&u2).await.ok_or(Some(()))?;
            match parts[0] {
                "swap.exist" => {
                    p.existence_proof = q.existence_proof;
                    p.existence_vrf_proof = q.existence_vrf_proof;
                }
                "swap.marker" => {
                    p.marker_proof = q.marker_proof;
                    p.marker_vrf_proof = q.marker_vrf_proof;
                }
                _ => {
                    p.freshness_proof = q.freshness_proof;
                    p.freshness_vrf_proof = q.freshness_vrf_proof;
                }
            }
        }
        _ => return Err(None),
    }
    Ok(())
}

/// marker proofs for the version range of `ups`, generated honestly
async fn regen_markers(inst: &Inst, u: &AkdLabel, ups: Vec<UpdateProof>) -> Option<HistoryProof> {
    let (cur, _) = inst.epoch_hash().await?;
    let cfg = inst.cfg.as_str();
    let mut hp = HistoryProof {
        update_proofs: ups,
        past_marker_vrf_proofs: vec![],
        existence_of_past_marker_proofs: vec![],
        future_marker_vrf_proofs: vec![],
        non_existence_of_future_marker_proofs: vec![],
    };
    let vs: Vec<u64> = hp.update_proofs.iter().map(|x| x.version).collect();
    if vs.is_empty() {
        return Some(hp);
    }
    let (s, e) = (*vs.iter().min()?, *vs.iter().max()?);
    let (past, future) = akd_core::utils::get_marker_versions(s, e, cur);
    for v in past {
        let l = vrf_node_label(cfg, u, VersionFreshness::Fresh, v).await?;
        hp.past_marker_vrf_proofs.push(vrf_bytes(cfg, u, VersionFreshness::Fresh, v).await?);
        hp.existence_of_past_marker_proofs.push(inst.gen_mem(l).await?);
    }
    for v in future {
        let l = vrf_node_label(cfg, u, VersionFreshness::Fresh, v).await?;
        hp.future_marker_vrf_proofs.push(vrf_bytes(cfg, u, VersionFreshness::Fresh, v).await?);
        hp.non_existence_of_future_marker_proofs.push(inst.gen_nonmem(l).await?);
    }
    Some(hp)
}

fn drop_at<T>(v: &mut Vec<T>, i: usize) {
    if i < v.len() {
        v.remove(i);
    }
}

async fn apply_hist_edit(inst: &Inst, u: &AkdLabel, p: &mut HistoryProof, tok: &str) -> Result<(), Option<()>> {
    let parts: Vec<&str> = tok.split(':').collect();
    let num = |s: &str| -> Result<usize, Option<()>> { s.parse().map_err(|_| None) };
    let rv = inst.root_value().await.ok_or(Some(()))?;
    match parts.as_slice() {
        ["drop.newest", k] => {
            let k = num(k)?.min(p.update_proofs.len());
            let ups = p.update_proofs[k..].to_vec();
            *p = regen_markers(inst, u, ups).await.ok_or(Some(()))?;
        }
        ["drop.oldest", k] => {
            let n = p.update_proofs.len().saturating_sub(num(k)?);
            let ups = p.update_proofs[..n].to_vec();
            *p = regen_markers(inst, u, ups).await.ok_or(Some(()))?;
        }
        ["gap", i] => drop_at(&mut p.update_proofs, num(i)?),
        ["dup", i] => {
            let i = num(i)?;
            if let Some(x) = p.update_proofs.get(i).cloned() {
                p.update_proofs.insert(i + 1, x);
            }
        }
        ["swapupd", i, j] => {
            let (i, j) = (num(i)?, num(j)?);
            if i < p.update_proofs.len() && j < p.update_proofs.len() {
                p.update_proofs.swap(i, j);
            }
        }
        ["sel", is] | ["pastsel", is] | ["futuresel", is] => {
            let idx: Vec<usize> = is.split(',').filter(|t| !t.is_empty()).map(num).collect::<Result<Vec<_>, _>>()?;
            match parts[0] {
                "sel" => p.update_proofs = idx.iter().filter_map(|i| p.update_proofs.get(*i).cloned()).collect(),
                "pastsel" => {
                    p.existence_of_past_marker_proofs = idx.iter().filter_map(|i| p.existence_of_past_marker_proofs.get(*i).cloned()).collect();
                    p.past_marker_vrf_proofs = idx.iter().filter_map(|i| p.past_marker_vrf_proofs.get(*i).cloned()).collect();
                }
                _ => {
                    p.non_existence_of_future_marker_proofs = idx.iter().filter_map(|i| p.non_existence_of_future_marker_proofs.get(*i).cloned()).collect();
                    p.future_marker_vrf_proofs = idx.iter().filter_map(|i| p.future_marker_vrf_proofs.get(*i).cloned()).collect();
                }
            }
        }
        ["copy", i, j] => {
            let (i, j) = (num(i)?, num(j)?);
            if let Some(b) = p.update_proofs.get(j).cloned() {
                if let Some(x) = p.update_proofs.get_mut(i) {
                    *x = b;
                }
            }
        }
        ["value", i, v] => {
            let v = parse_hex(v).ok_or(None)?;
            if let Some(x) = p.update_proofs.get_mut(num(i)?) {
                x.value = AkdValue(v);
            }
        }
        ["epoch", i, e] => {
            let e: u64 = e.parse().map_err(|_| None)?;
            if let Some(x) = p.update_proofs.get_mut(num(i)?) {
                x.epoch = e;
            }
        }
        ["tomb", i] => {
            if let Some(x) = p.update_proofs.get_mut(num(i)?) {
                x.value = AkdValue(vec![]);
            }
        }
        ["noprev", i] => {
            if let Some(x) = p.update_proofs.get_mut(num(i)?) {
                x.previous_version_proof = None;
                x.previous_version_vrf_proof = None;
            }
        }
        ["past.drop", i] => {
            let i = num(i)?;
            drop_at(&mut p.existence_of_past_marker_proofs, i);
            drop_at(&mut p.past_marker_vrf_proofs, i);
        }
        ["future.drop", i] => {
            let i = num(i)?;
            drop_at(&mut p.non_existence_of_future_marker_proofs, i);
            drop_at(&mut p.future_marker_vrf_proofs, i);
        }
        ["future.anchor", i, k] => {
            let (i, k) = (num(i)?, num(k)?);
            if let Some(np) = p.non_existence_of_future_marker_proofs.get(i).cloned() {
                let forged = anchored_at(inst, np.label, k).await.ok_or(Some(()))?;
                p.non_existence_of_future_marker_proofs[i] = forged;
            }
        }
        ["future.len", i, n] => {
            let (i, n) = (num(i)?, num(n)? as u32);
            if let Some(np) = p.non_existence_of_future_marker_proofs.get(i).cloned() {
                let forged = inst.gen_nonmem(NodeLabel { label_val: np.label.label_val, label_len: n }).await.ok_or(Some(()))?;
                p.non_existence_of_future_marker_proofs[i] = forged;
            }
        }
        ["past.len", i, n] => {
            let n = num(n)? as u32;
            if let Some(m) = p.existence_of_past_marker_proofs.get_mut(num(i)?) {
                m.label.label_len = n;
            }
        }
        ["prev.len", i, n] => {
            let n = num(n)? as u32;
            if let Some(x) = p.update_proofs.get_mut(num(i)?) {
                if let Some(m) = x.previous_version_proof.as_mut() {
                    m.label.label_len = n;
                }
            }
        }
        ["past.rootproof", i] => {
            if let Some(m) = p.existence_of_past_marker_proofs.get_mut(num(i)?) {
                *m = MembershipProof { label: m.label, hash_val: AzksValue(rv), sibling_proofs: vec![] };
            }
        }
        ["exist.rootproof", i] => {
            if let Some(x) = p.update_proofs.get_mut(num(i)?) {
                x.existence_proof = MembershipProof { label: x.existence_proof.label, hash_val: AzksValue(rv), sibling_proofs: vec![] };
            }
        }
        _ => return Err(None),
    }
    Ok(())
}

pub fn apply_audit_edit(p: &mut SingleAppendOnlyProof, end_rebuilt: &mut bool, plus: &mut u64, tok: &str) -> Option<()> {
    let parts: Vec<&str> = tok.split(':').collect();
    let val32 = |h: &str| -> Option<AzksValue> {
        let b = parse_hex(h)?;
        if b.len() != 32 {
            return None;
        }
        let mut a = [0u8; 32];
        a.copy_from_slice(&b);
        Some(AzksValue(a))
    };
    match parts.as_slice() {
        ["ins.add", l, v] => p.inserted.push(AzksElement { label: parse_label(l)?, value: val32(v)? }),
        ["ins.drop", j] => {
            let j: usize = j.parse().ok()?;
            if j < p.inserted.len() {
                p.inserted.remove(j);
            }
        }
        ["unch.drop", j] => {
            let j: usize = j.parse().ok()?;
            if j < p.unchanged_nodes.len() {
                p.unchanged_nodes.remove(j);
            }
        }
        ["ins.dup", j] => {
            let j: usize = j.parse().ok()?;
            if let Some(x) = p.inserted.get(j).cloned() {
                p.inserted.push(x);
            }
        }
        ["unch.dup", j] => {
            let j: usize = j.parse().ok()?;
            if let Some(x) = p.unchanged_nodes.get(j).cloned() {
                p.unchanged_nodes.push(x);
            }
        }
        ["unch.toins", j] => {
            let j: usize = j.parse().ok()?;
            if j < p.unchanged_nodes.len() {
                let x = p.unchanged_nodes.remove(j);
                p.inserted.push(x);
            }
        }
        ["ins.tounch", j] => {
            let j: usize = j.parse().ok()?;
            if j < p.inserted.len() {
                let x = p.inserted.remove(j);
                p.unchanged_nodes.push(x);
            }
        }
        ["ins.relabel", j, l] => {
            let j: usize = j.parse().ok()?;
            let l = parse_label(l)?;
            if let Some(x) = p.inserted.get_mut(j) {
                x.label = l;
            }
        }
        ["unch.relabel", j, l] => {
            let j: usize = j.parse().ok()?;
            let l = parse_label(l)?;
            if let Some(x) = p.unchanged_nodes.get_mut(j) {
                x.label = l;
            }
        }
        ["ins.ext", j, v] => {
            let j: usize = j.parse().ok()?;
            let v = val32(v)?;
            if let Some(u) = p.unchanged_nodes.get(j) {
                p.inserted.push(AzksElement { label: extend256(&u.label), value: v });
            }
        }
        ["ins.copylabel", i, j] => {
            let i: usize = i.parse().ok()?;
            let j: usize = j.parse().ok()?;
            if let Some(u) = p.unchanged_nodes.get(j).cloned() {
                if let Some(x) = p.inserted.get_mut(i) {
                    x.label = u.label;
                }
            }
        }
        ["ins.addprefix", j, n, v] => {
            let j: usize = j.parse().ok()?;
            let n: u32 = n.parse().ok()?;
            let v = val32(v)?;
            if let Some(u) = p.unchanged_nodes.get(j) {
                p.inserted.push(AzksElement { label: u.label.get_prefix(n), value: v });
            }
        }
        ["end", "rebuilt"] => *end_rebuilt = true,
        ["epoch", d] => *plus += d.parse::<u64>().ok()?,
        _ => return None,
    }
    Some(())
}

/// `l` followed by a one bit and zeros, 256 bits long (mirror of `Adv.extend256`)
pub fn extend256(l: &NodeLabel) -> NodeLabel {
    if l.label_len >= 256 {
        return *l;
    }
    let n = l.get_prefix(l.label_len);
    let mut v = n.label_val;
    let i = l.label_len as usize;
    v[i / 8] |= 1 << (7 - (i % 8));
    NodeLabel::new(v, 256)
}

/// the auditor's rebuild with the public API: root hash and the leaf-type nodes that survive in the rebuilt tree
pub async fn rebuild(cfg: &str, nodes: Vec<AzksElement>, latest_epoch: Option<u64>) -> Option<([u8; 32], Vec<AzksElement>)> {
    let db = AsyncInMemoryDatabase::new();
    let mgr = StorageManager::new_no_cache(db.clone());
    with_cfg!(cfg, TC => {
        let mut azks = Azks::new::<TC, _>(&mgr).await.ok()?;
        if let Some(e) = latest_epoch {
            azks.latest_epoch = e;
        }
        azks.batch_insert_nodes::<TC, _>(&mgr, nodes, InsertMode::Auditor, AzksParallelismConfig::disabled()).await.ok()?;
        let h = azks.get_root_hash::<TC, _>(&mgr).await.ok()?;
        // walk from the root: only reachable leaf-type nodes are committed
        let recs = db.batch_get_all_direct().await.ok()?;
        let mut map = std::collections::HashMap::new();
        for r in recs {
            if let DbRecord::TreeNode(t) = r {
                map.insert(t.label, t.latest_node);
            }
        }
        let mut out = vec![];
        let mut stack = vec![NodeLabel::root()];
        while let Some(l) = stack.pop() {
            if let Some(n) = map.get(&l) {
                if n.node_type == TreeNodeType::Leaf {
                    out.push(AzksElement { label: n.label, value: n.hash });
                }
                if let Some(c) = n.left_child {
                    stack.push(c);
                }
                if let Some(c) = n.right_child {
                    stack.push(c);
                }
            }
        }
        Some((h, out))
    })
}

/// every node of the real tree as of `epoch`: label -> (value a parent would hash, is_leaf)
pub async fn real_nodes(inst: &Inst, epoch: u64) -> std::collections::HashMap<NodeLabel, ([u8; 32], bool)> {
    let mut out = std::collections::HashMap::new();
    let recs = inst.db.batch_get_all_direct().await.unwrap_or_default();
    let mut map = std::collections::HashMap::new();
    for r in recs {
        if let DbRecord::TreeNode(t) = r {
            if let Ok(n) = akd::tree_node::verif_determine_node_to_get(&t, epoch) {
                if n.last_epoch <= epoch {
                    map.insert(t.label, n);
                }
            }
        }
    }
    // reachable from the root as of `epoch`
    let mut stack = vec![NodeLabel::root()];
    while let Some(l) = stack.pop() {
        if let Some(n) = map.get(&l) {
            let is_leaf = n.node_type == TreeNodeType::Leaf;
            let v = if is_leaf {
                with_cfg!(inst.cfg.as_str(), TC => TC::hash_leaf_with_commitment(n.hash, n.last_epoch).0)
            } else {
                n.hash.0
            };
            out.insert(l, (v, is_leaf));
            if let Some(c) = n.left_child {
                stack.push(c);
            }
            if let Some(c) = n.right_child {
                stack.push(c);
            }
        }
    }
    out
}

pub fn step(ex: &mut Exec, toks: &[&str]) -> Option<String> {
    let op = toks[0];
    // split borrows: take the state out while we work
    let mut st = ex.l1.take().unwrap_or_default();
    let r = std::panic::catch_unwind(std::panic::AssertUnwindSafe(|| step_inner(ex, &mut st, op, toks)));
    ex.l1 = Some(st);
    match r {
        Ok(r) => r,
        Err(_) => {
            ex.stats.bump(op, "panic");
            Some("panic".into())
        }
    }
}

fn step_inner(ex: &mut Exec, st: &mut L1State, op: &str, toks: &[&str]) -> Option<String> {
    if st.restart_permille > 0 && (op.starts_with("dir.") || op.starts_with("spec.") || op.starts_with("azks.")) && st.rng.below(1000) < st.restart_permille {
        // drop the directory object (and its storage manager / cache) and re-create it over the same database
        if let Some(old) = st.inst.take() {
            let mut inst = st.rt.block_on(Inst::open(&old.cfg, old.db.clone(), &st.cache_mode, st.parallelism))?;
            inst.roots = old.roots;
            inst.leaves = old.leaves;
            inst.readonly = st.readonly;
            st.inst = Some(inst);
            ex.stats.bump("restart", "done");
        }
    }
    match op {
        "reset" if toks.len() == 2 => {
            st.fx = None;
            st.readers.clear();
            st.unretired.clear();
            st.snaps.clear();
            let mut inst = st.rt.block_on(Inst::new(toks[1], &st.cache_mode, st.parallelism))?;
            inst.readonly = st.readonly;
            st.inst = Some(inst);
            ex.stats.bump(op, toks[1]);
            Some("ok".into())
        }
        "ck" if toks.len() == 2 => {
            let k = parse_hex(toks[1])?;
            let real = st.rt.block_on(HardCodedAkdVRF {}.retrieve()).ok()?;
            Some(if k == real { "ok".into() } else { "ck-mismatch".into() })
        }
        "vrf" if toks.len() == 5 => {
            // an input for the model's oracle table; re-derived here so a wrong table is noticed
            let cfgname: String = match (&st.inst, &st.fx) {
                (Some(i), _) => i.cfg.clone(),
                (None, Some(f)) => f.cfg.clone(),
                _ => return None,
            };
            let u = AkdLabel(parse_hex(toks[1])?);
            let fresh = match toks[2] {
                "F" => VersionFreshness::Fresh,
                "S" => VersionFreshness::Stale,
                _ => return None,
            };
            let v: u64 = toks[3].parse().ok()?;
            let l = parse_label(toks[4])?;
            let vrf = HardCodedAkdVRF {};
            let real = with_cfg!(cfgname.as_str(), TC => st.rt.block_on(vrf.get_node_label::<TC>(&u, fresh, v))).ok()?;
            Some(if real == l { "ok".into() } else { "vrf-mismatch".into() })
        }
        "dir.publish" => {
            let inst = st.inst.as_mut()?;
            let mut ups = vec![];
            let mut i = 1;
            while i + 1 < toks.len() {
                ups.push((AkdLabel(parse_hex(toks[i])?), AkdValue(parse_hex(toks[i + 1])?)));
                i += 2;
            }
            if i != toks.len() {
                return None;
            }
            let r = match &inst.dir {
                AnyDir::W(d) => st.rt.block_on(d.publish(ups)),
                AnyDir::E(d) => st.rt.block_on(d.publish(ups)),
            };
            match r {
                Ok(eh) => {
                    inst.roots.entry(eh.0).or_insert(eh.1);
                    if !st.snaps.contains_key(&eh.0) {
                        let recs = st.rt.block_on(inst.db.batch_get_all_direct()).unwrap_or_default();
                        if recs.len() <= 800 {
                            st.snaps.insert(eh.0, recs);
                        }
                    }
                    ex.stats.bump(op, "ok");
                    Some(format!("ok {} {}", eh.0, hex32(&eh.1)))
                }
                Err(_) => {
                    ex.stats.bump(op, "err");
                    Some("err".into())
                }
            }
        }
        "dir.epochhash" => {
            let inst = st.inst.as_ref()?;
            match st.rt.block_on(inst.epoch_hash()) {
                Some((e, h)) => Some(format!("{} {}", e, hex32(&h))),
                None => Some("err".into()),
            }
        }
        "dir.lookup" if toks.len() == 2 => {
            let inst = st.inst.as_ref()?;
            let u = AkdLabel(parse_hex(toks[1])?);
            match st.rt.block_on(inst.lookup(&u)) {
                Some((p, e, h)) => {
                    ex.stats.bump(op, "ok");
                    Some(format!("{} {} {}", e, hex32(&h), show_lookup(inst, &st.rt, &u, &p)))
                }
                None => {
                    ex.stats.bump(op, "err");
                    Some("err".into())
                }
            }
        }
        "dir.batchlookup" if toks.len() >= 1 => {
            let inst = st.inst.as_ref()?;
            let us: Vec<AkdLabel> = toks[1..].iter().map(|t| parse_hex(t).map(AkdLabel)).collect::<Option<Vec<_>>>()?;
            match st.rt.block_on(inst.batch_lookup(&us)) {
                Some((ps, e, h)) => {
                    ex.stats.bump(op, "ok");
                    if ps.len() != us.len() {
                        ex.fail_tag("C02", "batch-lookup-count", format!("{:?}: {} proofs for {} labels", toks, ps.len(), us.len()));
                    }
                    Some(format!("{} {} {}", e, hex32(&h), us.iter().zip(ps.iter()).map(|(u, p)| show_lookup(inst, &st.rt, u, p)).collect::<Vec<_>>().join(" ")).trim_end().to_string())
                }
                None => {
                    ex.stats.bump(op, "err");
                    Some("err".into())
                }
            }
        }
        // oracle line: every proof of the batch verifies against the returned epoch hash, to the specification's answer
        "spec.batchlookup" if toks.len() >= 1 => {
            let inst = st.inst.as_ref()?;
            let us: Vec<AkdLabel> = toks[1..].iter().map(|t| parse_hex(t).map(AkdLabel)).collect::<Option<Vec<_>>>()?;
            match st.rt.block_on(inst.batch_lookup(&us)) {
                Some((ps, e, h)) => Some(format!(
                    "ok {}",
                    us.iter().zip(ps.into_iter()).map(|(u, p)| match inst.verify_lookup(h, e, u, p) { Ok(r) => show_result(&r), Err(_) => "rej".to_string() }).collect::<Vec<_>>().join(" ")
                )),
                None => Some("none".into()),
            }
        }
        "dir.history" if toks.len() == 3 => {
            let inst = st.inst.as_ref()?;
            let u = AkdLabel(parse_hex(toks[1])?);
            let p = parse_params(toks[2])?;
            match st.rt.block_on(inst.history(&u, p)) {
                Some((hp, e, h)) => {
                    ex.stats.bump(op, "ok");
                    Some(format!("{} {} {}", e, hex32(&h), show_history(inst, &st.rt, &u, e, &hp)))
                }
                None => {
                    ex.stats.bump(op, "err");
                    Some("err".into())
                }
            }
        }
        "dir.audit" if toks.len() == 3 => {
            let inst = st.inst.as_ref()?;
            let (s, e): (u64, u64) = (toks[1].parse().ok()?, toks[2].parse().ok()?);
            match st.rt.block_on(inst.audit(s, e)) {
                Some(p) => {
                    ex.stats.bump(op, "ok");
                    Some(show_append_only(&p))
                }
                None => {
                    ex.stats.bump(op, "err");
                    Some("err".into())
                }
            }
        }
        "dir.tombstone" if toks.len() == 3 => {
            let inst = st.inst.as_ref()?;
            let u = AkdLabel(parse_hex(toks[1])?);
            let e: u64 = toks[2].parse().ok()?;
            match st.rt.block_on(inst.storage.tombstone_value_states(&u, e)) {
                Ok(()) => Some("ok".into()),
                Err(_) => Some("err".into()),
            }
        }
        "dir.dump" => {
            let inst = st.inst.as_ref()?;
            Some(st.rt.block_on(inst.dump()))
        }
        "dir.verify.lookup" if toks.len() == 2 => {
            let inst = st.inst.as_ref()?;
            let u = AkdLabel(parse_hex(toks[1])?);
            match st.rt.block_on(inst.lookup(&u)) {
                Some((p, e, h)) => match inst.verify_lookup(h, e, &u, p) {
                    Ok(r) => Some(format!("ok {}", show_result(&r))),
                    Err(_) => Some("rej".into()),
                },
                None => Some("err".into()),
            }
        }
        "dir.verify.history" | "spec.history.tomb" if toks.len() == 4 => {
            let inst = st.inst.as_ref()?;
            let u = AkdLabel(parse_hex(toks[1])?);
            let hp = parse_params(toks[2])?;
            let params = match toks[3] {
                "allow" => HistoryVerificationParams::AllowMissingValues { history_params: hp },
                "default" => HistoryVerificationParams::Default { history_params: hp },
                _ => return None,
            };
            match st.rt.block_on(inst.history(&u, hp)) {
                Some((p, e, h)) => match inst.verify_history(h, e, &u, p, params) {
                    Ok(rs) => Some(format!("ok {}", rs.iter().map(show_result).collect::<Vec<_>>().join(" "))),
                    Err(_) => Some("rej".into()),
                },
                None => Some("err".into()),
            }
        }
        "dir.verify.audit" if toks.len() == 3 => {
            let inst = st.inst.as_ref()?;
            let (s, e): (u64, u64) = (toks[1].parse().ok()?, toks[2].parse().ok()?);
            let cur = st.rt.block_on(inst.epoch_hash()).map(|x| x.0)?;
            let valid = s < e && e <= cur;
            match st.rt.block_on(inst.audit(s, e)) {
                Some(p) => {
                    let hashes: Vec<[u8; 32]> = (s..=e).filter_map(|i| inst.roots.get(&i).cloned()).collect();
                    let complete = hashes.len() as u64 == e - s + 1;
                    if !valid {
                        ex.fail_tag("C04", "invalid-range-served", format!("audit({s},{e}) was served although the current epoch is {cur}"));
                    }
                    match st.rt.block_on(inst.verify_audit(hashes, p)) {
                        Ok(()) => {
                            ex.stats.bump(op, "ok");
                            Some("ok ".into())
                        }
                        Err(err) => {
                            if valid && complete {
                                ex.fail_tag("C04", "audit-rejected", format!("audit proof for ({s},{e}) at epoch {cur} does not verify against the published root hashes: {err}"));
                            }
                            ex.stats.bump(op, "rej");
                            Some("rej".into())
                        }
                    }
                }
                None => {
                    if valid {
                        ex.fail_tag("C04", "audit-refused", format!("audit({s},{e}) refused at epoch {cur}"));
                    }
                    ex.stats.bump(op, "refused");
                    Some("err".into())
                }
            }
        }
        // oracle-only (C07, last clause): a DISHONEST server publishes a new version of a label WITHOUT retiring the previous one
        // (`o.mal.publish <label> <value>`: only the fresh leaf of version v+1 is inserted), or retires an old version late
        // (`o.mal.retire <label> <version>`: only the stale leaf, in a later epoch).  Everything else is as `publish` does it.
        "o.mal.publish" | "o.mal.retire" if toks.len() == 3 => {
            use akd::storage::types::{ValueState, ValueStateRetrievalFlag};
            let inst = st.inst.as_mut()?;
            let u = AkdLabel(parse_hex(toks[1])?);
            let cfg = inst.cfg.clone();
            let mut azks = st.rt.block_on(inst.azks())?;
            let next_epoch = azks.latest_epoch + 1;
            let latest = st.rt.block_on(inst.storage.get_user_state(&u, ValueStateRetrievalFlag::MaxEpoch)).ok()?;
            let (els, state): (Vec<AzksElement>, Option<ValueState>) = if op == "o.mal.publish" {
                let value = AkdValue(parse_hex(toks[2])?);
                let ver = latest.version + 1;
                let label = st.rt.block_on(vrf_node_label(&cfg, &u, VersionFreshness::Fresh, ver))?;
                let raw = st.rt.block_on(HardCodedAkdVRF {}.retrieve()).ok()?;
                let av = with_cfg!(cfg.as_str(), TC => {
                    let key = TC::hash(&raw);
                    TC::compute_fresh_azks_value(&key, &label, ver, &value)
                });
                st.unretired.push((u.0.clone(), ver));
                (vec![AzksElement { label, value: av }], Some(ValueState { value, version: ver, label, epoch: next_epoch, username: u.clone() }))
            } else {
                let ver: u64 = toks[2].parse().ok()?;
                let label = st.rt.block_on(vrf_node_label(&cfg, &u, VersionFreshness::Stale, ver))?;
                let av = with_cfg!(cfg.as_str(), TC => TC::stale_azks_value());
                (vec![AzksElement { label, value: av }], None)
            };
            let par = st.parallelism;
            let r = with_cfg!(cfg.as_str(), TC => st.rt.block_on(azks.batch_insert_nodes::<TC, _>(&inst.storage, els, InsertMode::Directory, par)));
            if r.is_err() {
                return Some("err".into());
            }
            let mut recs = vec![DbRecord::Azks(azks.clone())];
            if let Some(s) = state {
                recs.push(DbRecord::ValueState(s));
            }
            st.rt.block_on(inst.storage.batch_set(recs)).ok()?;
            let (e, h) = st.rt.block_on(inst.epoch_hash())?;
            inst.roots.insert(e, h);
            Some(format!("ok {e}"))
        }
        // an HONEST publish on top of the dishonest tree (through the real Directory; not compared with the model, whose state
        // does not contain the dishonest steps)
        "o.hon.publish" if toks.len() == 3 => {
            let inst = st.inst.as_mut()?;
            let batch = vec![(AkdLabel(parse_hex(toks[1])?), AkdValue(parse_hex(toks[2])?))];
            let r = match &inst.dir {
                AnyDir::W(d) => st.rt.block_on(d.publish(batch)),
                AnyDir::E(d) => st.rt.block_on(d.publish(batch)),
            };
            match r {
                Ok(eh) => {
                    inst.roots.insert(eh.0, eh.1);
                    Some(format!("ok {}", eh.0))
                }
                Err(_) => Some("err".into()),
            }
        }
        // the honest history request on the dishonest tree: whatever window contains a version whose predecessor was not retired
        // in time must be REJECTED by both verifiers
        "o.mal.history" if toks.len() == 3 => {
            let inst = st.inst.as_ref()?;
            let u = AkdLabel(parse_hex(toks[1])?);
            let hp = parse_params(toks[2])?;
            let Some((p, e, h)) = st.rt.block_on(inst.history(&u, hp)) else { return Some("err".into()) };
            let versions: Vec<u64> = p.update_proofs.iter().map(|x| x.version).collect();
            let touches = st.unretired.iter().any(|(l, r)| *l == u.0 && versions.contains(r));
            let mut out = vec![];
            for (name, params) in [("default", HistoryVerificationParams::Default { history_params: hp }), ("allow", HistoryVerificationParams::AllowMissingValues { history_params: hp })] {
                let acc = inst.verify_history(h, e, &u, p.clone(), params).is_ok();
                out.push(format!("{name}:{}", if acc { "acc" } else { "rej" }));
                if acc && touches {
                    ex.fail_tag("C07", "unretired-version-accepted", format!("{:?} ({name}): the history {:?} was accepted although the tree did not retire the predecessor of a version in it in the epoch of its replacement (unretired: {:?})", toks, versions, st.unretired.iter().filter(|(l, _)| *l == u.0).map(|x| x.1).collect::<Vec<_>>()));
                }
                if !acc && !touches {
                    ex.fail_tag("C03", "honest-window-rejected", format!("{:?} ({name}): the history {:?} touches no late-retired version and was rejected", toks, versions));
                }
            }
            ex.stats.bump(op, if touches { "touches" } else { "clean" });
            Some(out.join(" "))
        }
        // oracle-only (C14): `o.par.sweep <cfg> <cases> <seed>` — structured random (existing tree, batch of the next epoch) pairs
        // inserted sequentially and with insertion parallelism Static(2|4|16|64): root hash and node count must be identical.
        // The batches are built so that existing nodes are pushed below new interior nodes with few new leaves on one side
        // and many on the other (where a parallel path treats sub-trees differently from the sequential one).
        "o.par.sweep" if toks.len() == 4 => {
            let cfg = toks[1];
            let n: usize = toks[2].parse().ok()?;
            let seed: u64 = toks[3].parse().ok()?;
            if st.parallelism != AzksParallelismConfig::disabled() {
                return Some("skipped".into()); // the sweep does its own configurations; once per matrix is enough
            }
            let mut rng = crate::rng::Rng::new(seed ^ 0x9e37_79b9_7f4a_7c15);
            let mut bad: Option<(String, Vec<String>)> = None;
            let mut shapes = 0usize;
            for _case in 0..n {
                // labels: common prefix p (0..20 bits), then a biased branching bit, then random bits
                let plen = rng.below(21) as usize;
                let p: Vec<bool> = (0..plen).map(|_| rng.chance(1, 2)).collect();
                let mk = |rng: &mut crate::rng::Rng, first: bool, second: Option<bool>| -> NodeLabel {
                    let mut bits = p.clone();
                    bits.push(first);
                    if let Some(b) = second {
                        bits.push(b);
                    }
                    while bits.len() < 256 {
                        bits.push(rng.chance(1, 2));
                    }
                    crate::util::label_of_bits(&bits)
                };
                let side = rng.chance(1, 2);
                let k1 = 1 + rng.below(4) as usize;
                let mut old: Vec<NodeLabel> = (0..k1).map(|_| { let b = rng_bool(&mut rng); mk(&mut rng, side, Some(b)) }).collect();
                if rng.chance(1, 3) {
                    old.push(mk(&mut rng, !side, None));
                }
                let k2 = 8 + rng.below(14) as usize;
                let few = 1 + rng.below(2) as usize;
                let mut newl: Vec<NodeLabel> = vec![];
                for j in 0..k2 {
                    // `few` new leaves join the existing ones on their side, the others go to the other side
                    let b = rng_bool(&mut rng);
                    newl.push(if j < few { mk(&mut rng, side, Some(b)) } else { mk(&mut rng, !side, None) });
                }
                old.sort();
                old.dedup();
                newl.sort();
                newl.dedup();
                newl.retain(|l| !old.contains(l));
                rng.shuffle(&mut newl);
                shapes += 1;
                let val = |i: usize| AzksValue([(i % 251) as u8 + 1; 32]);
                let e1: Vec<AzksElement> = old.iter().enumerate().map(|(i, l)| AzksElement { label: *l, value: val(i) }).collect();
                let e2: Vec<AzksElement> = newl.iter().enumerate().map(|(i, l)| AzksElement { label: *l, value: val(i + 100) }).collect();
                let run = |par: AzksParallelismConfig| -> Option<([u8; 32], u64)> {
                    with_cfg!(cfg, TC => st.rt.block_on(async {
                        let db = akd::storage::memory::AsyncInMemoryDatabase::new();
                        let mgr = StorageManager::new_no_cache(db);
                        let mut azks = akd::append_only_zks::Azks::new::<TC, _>(&mgr).await.ok()?;
                        azks.batch_insert_nodes::<TC, _>(&mgr, e1.clone(), InsertMode::Directory, par).await.ok()?;
                        azks.batch_insert_nodes::<TC, _>(&mgr, e2.clone(), InsertMode::Directory, par).await.ok()?;
                        let h = azks.get_root_hash::<TC, _>(&mgr).await.ok()?;
                        Some((h, azks.num_nodes))
                    }))
                };
                let seq = run(AzksParallelismConfig::disabled());
                for lv in [2u32, 4, 16, 64] {
                    let par = AzksParallelismConfig { insertion: akd::append_only_zks::AzksParallelismOption::Static(lv), preload: akd::append_only_zks::AzksParallelismOption::Static(lv) };
                    let got = run(par);
                    if got != seq && bad.is_none() {
                        let show = |v: &Vec<AzksElement>| v.iter().map(|e| format!("{} {}", show_label(&e.label), hex::encode(e.value.0))).collect::<Vec<_>>().join(" ");
                        bad = Some((
                            format!("insertion parallelism Static({lv}) gives {:?}, sequential insertion {:?} (existing tree of {} leaves, batch of {})", got.map(|x| (hex::encode(x.0), x.1)), seq.map(|x| (hex::encode(x.0), x.1)), e1.len(), e2.len()),
                            vec![format!("reset {cfg}"), format!("azks.insert dir {}", show(&e1)), format!("azks.insert dir {}", show(&e2)), "azks.root".into()],
                        ));
                    }
                }
            }
            match bad {
                Some((w, replay)) => {
                    ex.fail_tag_replay("C14", "parallel-insertion-differs", format!("{:?}: {}", toks, w), replay);
                    Some("FAIL".into())
                }
                None => {
                    ex.stats.bump(op, "ok");
                    Some(format!("ok {shapes}"))
                }
            }
        }
        "azks.insert" if toks.len() >= 2 => {
            let inst = st.inst.as_mut()?;
            let mode = match toks[1] {
                "dir" => InsertMode::Directory,
                "aud" => InsertMode::Auditor,
                _ => return None,
            };
            let mut els = vec![];
            let mut i = 2;
            while i + 1 < toks.len() {
                let l = parse_label(toks[i])?;
                let v = parse_hex(toks[i + 1])?;
                if v.len() != 32 {
                    return None;
                }
                let mut a = [0u8; 32];
                a.copy_from_slice(&v);
                els.push(AzksElement { label: l, value: AzksValue(a) });
                i += 2;
            }
            if i != toks.len() {
                return None;
            }
            let mut azks = st.rt.block_on(inst.azks())?;
            let par = st.parallelism;
            let r = with_cfg!(inst.cfg.as_str(), TC => st.rt.block_on(azks.batch_insert_nodes::<TC, _>(&inst.storage, els.clone(), mode, par)));
            match r {
                Ok(()) => {
                    st.rt.block_on(inst.storage.set(DbRecord::Azks(azks.clone()))).ok()?;
                    for e in &els {
                        inst.leaves.entry(e.label).or_insert((e.value.0, azks.latest_epoch));
                    }
                    ex.stats.bump(op, "ok");
                    Some(format!("ok {} {}", azks.latest_epoch, azks.num_nodes))
                }
                Err(_) => {
                    ex.stats.bump(op, "err");
                    Some("err".into())
                }
            }
        }
        "lag.new" | "o.lagc.new" if toks.len() == 2 => {
            let inst = st.inst.as_ref()?;
            let k: u64 = toks[1].parse().ok()?;
            // item lifetime 2 ms: node records expire between operations, the epoch record never does
            // (`o.lagc.*`: a reader whose cached records live for an hour — what it answers depends on what it happens to
            // hold, so these lines are judged by the C13 oracle alone: error, or a published pair with a verifying proof)
            let life = if op == "lag.new" { std::time::Duration::from_millis(2) } else { std::time::Duration::from_secs(3600) };
            let mgr = StorageManager::new(inst.db.clone(), Some(life), None, Some(life));
            let vrf = HardCodedAkdVRF {};
            let dir = match inst.cfg.as_str() {
                "wv1" => AnyRo::W(st.rt.block_on(akd::directory::ReadOnlyDirectory::<Wv1, _, _>::new(mgr, vrf, st.parallelism)).ok()?),
                _ => AnyRo::E(st.rt.block_on(akd::directory::ReadOnlyDirectory::<Exp, _, _>::new(mgr, vrf, st.parallelism)).ok()?),
            };
            let eh = match &dir {
                AnyRo::W(d) => st.rt.block_on(d.get_epoch_hash()),
                AnyRo::E(d) => st.rt.block_on(d.get_epoch_hash()),
            };
            st.readers.insert(k, Reader { dir });
            Some(match eh {
                Ok(eh) => format!("{} {}", eh.0, hex32(&eh.1)),
                Err(_) => "err".into(),
            })
        }
        "lag.epochhash" | "lag.lookup" | "lag.history" | "lag.audit" | "o.lagc.epochhash" | "o.lagc.lookup" | "o.lagc.history" | "o.lagc.audit"
            if toks.len() >= 2 =>
        {
            let inst = st.inst.as_ref()?;
            let k: u64 = toks[1].parse().ok()?;
            let reader = st.readers.get(&k)?;
            std::thread::sleep(std::time::Duration::from_millis(5));
            let op: &str = match op {
                "o.lagc.epochhash" => "lag.epochhash",
                "o.lagc.lookup" => "lag.lookup",
                "o.lagc.history" => "lag.history",
                "o.lagc.audit" => "lag.audit",
                o => o,
            };
            // oracle (C13): an answer names an (epoch, root hash) pair the directory really published …
            let check_pair = |ex: &mut Exec, e: u64, h: &[u8; 32]| {
                if inst.roots.get(&e) != Some(h) {
                    ex.fail_tag("C13", "unpublished-epoch-hash", format!("{:?} answered with epoch {} and root hash {}, which the directory never published for that epoch (it published {:?})", toks, e, hex::encode(h), inst.roots.get(&e).map(hex::encode)));
                }
            };
            match op {
                "lag.epochhash" => {
                    let r = match &reader.dir {
                        AnyRo::W(d) => st.rt.block_on(d.get_epoch_hash()),
                        AnyRo::E(d) => st.rt.block_on(d.get_epoch_hash()),
                    };
                    Some(match r {
                        Ok(eh) => {
                            check_pair(ex, eh.0, &eh.1);
                            format!("{} {}", eh.0, hex32(&eh.1))
                        }
                        Err(_) => "err".into(),
                    })
                }
                "lag.lookup" if toks.len() == 3 => {
                    let u = AkdLabel(parse_hex(toks[2])?);
                    let r = match &reader.dir {
                        AnyRo::W(d) => st.rt.block_on(d.lookup(u.clone())),
                        AnyRo::E(d) => st.rt.block_on(d.lookup(u.clone())),
                    };
                    Some(match r {
                        Err(_) => "err".into(),
                        Ok((p, eh)) => {
                            check_pair(ex, eh.0, &eh.1);
                            match inst.verify_lookup(eh.1, eh.0, &u, p) {
                                Ok(res) => format!("{} {} ok {}", eh.0, hex32(&eh.1), show_result(&res)),
                                Err(e) => {
                                    // … and the proof verifies against that pair
                                    ex.fail_tag("C13", "answer-does-not-verify", format!("{:?}: the lookup proof returned with epoch {} does not verify against the returned root hash: {e}", toks, eh.0));
                                    format!("{} {} rej", eh.0, hex32(&eh.1))
                                }
                            }
                        }
                    })
                }
                "lag.history" if toks.len() == 4 => {
                    let u = AkdLabel(parse_hex(toks[2])?);
                    let hp = parse_params(toks[3])?;
                    let r = match &reader.dir {
                        AnyRo::W(d) => st.rt.block_on(d.key_history(&u, hp)),
                        AnyRo::E(d) => st.rt.block_on(d.key_history(&u, hp)),
                    };
                    Some(match r {
                        Err(_) => "err".into(),
                        Ok((p, eh)) => {
                            check_pair(ex, eh.0, &eh.1);
                            match inst.verify_history(eh.1, eh.0, &u, p, HistoryVerificationParams::Default { history_params: hp }) {
                                Ok(rs) => format!("{} {} ok {}", eh.0, hex32(&eh.1), rs.iter().map(show_result).collect::<Vec<_>>().join(" ")),
                                Err(e) => {
                                    ex.fail_tag("C13", "answer-does-not-verify", format!("{:?}: the history proof returned with epoch {} does not verify against the returned root hash: {e}", toks, eh.0));
                                    format!("{} {} rej", eh.0, hex32(&eh.1))
                                }
                            }
                        }
                    })
                }
                "lag.audit" if toks.len() == 4 => {
                    let (s, e): (u64, u64) = (toks[2].parse().ok()?, toks[3].parse().ok()?);
                    let r = match &reader.dir {
                        AnyRo::W(d) => st.rt.block_on(d.audit(s, e)),
                        AnyRo::E(d) => st.rt.block_on(d.audit(s, e)),
                    };
                    Some(match r {
                        Err(_) => "err".into(),
                        Ok(p) => {
                            let hashes: Vec<[u8; 32]> = (s..=e).filter_map(|i| inst.roots.get(&i).cloned()).collect();
                            match st.rt.block_on(inst.verify_audit(hashes, p)) {
                                Ok(()) => "ok ".into(),
                                Err(err) => {
                                    ex.fail_tag("C13", "answer-does-not-verify", format!("{:?}: the audit proof does not verify against the published root hashes: {err}", toks));
                                    "rej".into()
                                }
                            }
                        }
                    })
                }
                _ => None,
            }
        }
        "vrfin" if toks.len() == 5 => {
            let u = AkdLabel(parse_hex(toks[2])?);
            let fresh = match toks[3] {
                "F" => VersionFreshness::Fresh,
                "S" => VersionFreshness::Stale,
                _ => return None,
            };
            let v: u64 = toks[4].parse().ok()?;
            let h = match toks[1] {
                "wv1" => Wv1::get_hash_from_label_input(&u, fresh, v),
                "exp" => Exp::get_hash_from_label_input(&u, fresh, v),
                _ => return None,
            };
            Some(hex_or_dash(&h))
        }
        // oracle-only (C18): the VRF input of (label, freshness, version) for EVERY label length up to `max`: altering the version
        // (lowest byte, a middle byte, highest byte), the freshness, the last label byte or the label length changes the input
        "o.vrfin.sweep" if toks.len() == 3 => {
            let cfg = toks[1];
            let max: usize = toks[2].parse().ok()?;
            let mut bad: Option<String> = None;
            let mut n = 0usize;
            for len in 0..=max {
                let l: Vec<u8> = (0..len).map(|i| (i * 7 + len) as u8).collect();
                let u = AkdLabel(l.clone());
                for v in [1u64, 0x0102_0304_0506_0708] {
                    for fresh in [VersionFreshness::Fresh, VersionFreshness::Stale] {
                        let other = match fresh { VersionFreshness::Fresh => VersionFreshness::Stale, _ => VersionFreshness::Fresh };
                        let h = |u: &AkdLabel, f: VersionFreshness, v: u64| -> Vec<u8> {
                            match cfg {
                                "wv1" => Wv1::get_hash_from_label_input(u, f, v),
                                _ => Exp::get_hash_from_label_input(u, f, v),
                            }
                        };
                        let base = h(&u, fresh, v);
                        let mut alts: Vec<(String, Vec<u8>)> = vec![
                            ("version low byte".into(), h(&u, fresh, v ^ 1)),
                            ("version low byte +1".into(), h(&u, fresh, v.wrapping_add(1))),
                            ("version middle byte".into(), h(&u, fresh, v ^ (1 << 24))),
                            ("version high byte".into(), h(&u, fresh, v ^ (1 << 63))),
                            ("freshness".into(), h(&u, other, v)),
                        ];
                        if len > 0 {
                            let mut l2 = l.clone();
                            l2[len - 1] ^= 0x80;
                            alts.push(("last label byte".into(), h(&AkdLabel(l2), fresh, v)));
                            let mut l3 = l.clone();
                            l3[0] ^= 1;
                            alts.push(("first label byte".into(), h(&AkdLabel(l3), fresh, v)));
                        }
                        let mut l4 = l.clone();
                        l4.push(0);
                        alts.push(("label extended by a zero byte".into(), h(&AkdLabel(l4), fresh, v)));
                        for (what, a) in alts {
                            n += 1;
                            if a == base && bad.is_none() {
                                bad = Some(format!("label of {len} bytes, version {v}: altering the {what} leaves the VRF input unchanged"));
                            }
                        }
                    }
                }
            }
            match bad {
                Some(w) => {
                    ex.fail_tag("C18", "vrf-input-collision", format!("{:?}: {}", toks, w));
                    Some("FAIL".into())
                }
                None => {
                    ex.stats.bump(op, "ok");
                    Some(format!("ok {n}"))
                }
            }
        }
        // oracle-only (C18): the batch derivation used by publish (`get_node_labels`, parallel when the feature is on) on the
        // multi-thread runtime: every returned node label is the one `get_node_label` derives for the input it is paired with
        "o.vrf.batch" if toks.len() == 4 => {
            use akd::ecvrf::VRFKeyStorage;
            let cfg = toks[1];
            let n: usize = toks[2].parse().ok()?;
            let seed: u64 = toks[3].parse().ok()?;
            let mut rng = crate::rng::Rng::new(seed ^ 0x7b1d_33c9_a2e4_1f05);
            let mut inputs: Vec<(AkdLabel, VersionFreshness, u64, AkdValue)> = vec![];
            for i in 0..n {
                let len = 1 + rng.below(if i % 7 == 0 { 300 } else { 12 }) as usize;
                let u = AkdLabel(rng.bytes(len));
                let v = 1 + rng.below(40);
                inputs.push((u.clone(), VersionFreshness::Fresh, v, AkdValue(rng.bytes(3))));
                if v > 1 {
                    inputs.push((u, VersionFreshness::Stale, v - 1, AkdValue(vec![])));
                }
            }
            let bad: Option<String> = with_cfg!(cfg, TC => st.rt.block_on(async {
                let vrf = HardCodedAkdVRF {};
                for round in 0..3 {
                    let got = match vrf.get_node_labels::<TC>(&inputs).await {
                        Ok(g) => g,
                        Err(e) => return Some(format!("round {round}: get_node_labels failed: {e}")),
                    };
                    if got.len() != inputs.len() {
                        return Some(format!("round {round}: {} inputs, {} labels", inputs.len(), got.len()));
                    }
                    for ((u, f, v, val), nl) in got.iter() {
                        let want = vrf.get_node_label::<TC>(u, *f, *v).await.ok()?;
                        if *nl != want {
                            return Some(format!("round {round}: for ({}, {:?}, version {v}) the batch returned node label {}, get_node_label gives {}", hex::encode(&u.0), f, show_label(nl), show_label(&want)));
                        }
                        if !inputs.iter().any(|(a, b, c, d)| a == u && b == f && c == v && d == val) {
                            return Some(format!("round {round}: the batch returned an input that was not in it: ({}, {:?}, {v})", hex::encode(&u.0), f));
                        }
                    }
                }
                None
            }));
            match bad {
                Some(w) => {
                    ex.fail_tag("C18", "batch-label-not-bound", format!("{:?}: {}", toks, w));
                    Some("FAIL".into())
                }
                None => {
                    ex.stats.bump(op, "ok");
                    Some(format!("ok {}", inputs.len()))
                }
            }
        }
        // oracle-only (C18): determinism, agreement of the three ways to derive a node label, verification of the
        // honest proof, rejection of every single-field alteration, key separation
        "o.vrf.check" if toks.len() == 5 => {
            let cfg = toks[1];
            let u = AkdLabel(parse_hex(toks[2])?);
            let fresh = match toks[3] {
                "F" => VersionFreshness::Fresh,
                "S" => VersionFreshness::Stale,
                _ => return None,
            };
            let v: u64 = toks[4].parse().ok()?;
            let r = with_cfg!(cfg, TC => st.rt.block_on(crate::vrfcheck::check::<TC>(&u, fresh, v)));
            match r {
                Ok(n) => {
                    ex.stats.bump(op, "ok");
                    Some(format!("ok {n}"))
                }
                Err((tag, what)) => {
                    ex.fail_tag("C18", &tag, format!("{:?}: {}", toks, what));
                    Some("FAIL".into())
                }
            }
        }
        "perm.group" => {
            st.perm_roots.clear();
            Some("ok".into())
        }
        "perm.end" => {
            // oracle (C14): the same leaf set, in any order and any split within one epoch, gives one tree
            let mut distinct = st.perm_roots.clone();
            distinct.sort();
            distinct.dedup();
            if distinct.len() > 1 {
                ex.fail_tag("C14", "order-dependent-tree", format!("the same leaf set produced {} different root hashes depending on insertion order / sub-batching", distinct.len()));
            }
            Some("ok".into())
        }
        "azks.setepoch" if toks.len() == 2 => {
            let inst = st.inst.as_ref()?;
            let e: u64 = toks[1].parse().ok()?;
            let mut azks = st.rt.block_on(inst.azks())?;
            azks.latest_epoch = e;
            st.rt.block_on(inst.storage.set(DbRecord::Azks(azks))).ok()?;
            Some("ok".into())
        }
        "azks.root" => {
            let inst = st.inst.as_ref()?;
            match st.rt.block_on(inst.epoch_hash()) {
                Some((_, h)) => {
                    st.perm_roots.push(h);
                    Some(hex32(&h))
                }
                None => Some("err".into()),
            }
        }
        "azks.mem" if toks.len() == 2 => {
            let inst = st.inst.as_ref()?;
            let l = parse_label(toks[1])?;
            match st.rt.block_on(inst.gen_mem(l)) {
                Some(p) => Some(show_membership(&p)),
                None => Some("err".into()),
            }
        }
        "azks.nonmem" if toks.len() == 2 => {
            let inst = st.inst.as_ref()?;
            let l = parse_label(toks[1])?;
            match st.rt.block_on(inst.gen_nonmem(l)) {
                Some(p) => Some(show_nonmembership(&p)),
                None => Some("err".into()),
            }
        }
        "adv.mem" if toks.len() >= 2 => {
            let inst = st.inst.as_ref()?;
            let x = parse_label(toks[1])?;
            let (_, root) = st.rt.block_on(inst.epoch_hash())?;
            let rv = st.rt.block_on(inst.root_value())?;
            let mut p = match st.rt.block_on(inst.gen_mem(x)) {
                Some(p) => p,
                None => return Some("err".into()),
            };
            for e in &toks[2..] {
                apply_mem_edit(rv, &mut p, e)?;
            }
            let acc = inst.verify_mem(root, &p);
            // oracle (C05): an accepted membership proof for a 256-bit label speaks about a real leaf
            // with its true digest
            // completeness half: the unedited proof for a member verifies
            if !acc && toks.len() == 2 && inst.leaves.contains_key(&x) {
                ex.fail_tag("C05", "mem-complete", format!("honest membership proof rejected for member {}", toks[1]));
            }
            if acc && p.label.label_len == 256 {
                let truth = inst.leaves.get(&p.label).map(|(v, e)| {
                    with_cfg!(inst.cfg.as_str(), TC => TC::hash_leaf_with_commitment(AzksValue(*v), *e).0)
                });
                if truth != Some(p.hash_val.0) {
                    ex.fail("C05", format!("membership proof accepted for a false statement: {} {:?}", show_membership(&p), &toks[1..]));
                }
            }
            ex.stats.bump(op, if acc { "acc" } else { "rej" });
            Some(if acc { "acc".into() } else { "rej".into() })
        }
        "adv.nonmem" if toks.len() >= 2 => {
            let inst = st.inst.as_ref()?;
            let x = parse_label(toks[1])?;
            let (_, root) = st.rt.block_on(inst.epoch_hash())?;
            let rv = st.rt.block_on(inst.root_value())?;
            let mut p = match st.rt.block_on(inst.gen_nonmem(x)) {
                Some(p) => p,
                None => return Some("err".into()),
            };
            for e in &toks[2..] {
                apply_nonmem_edit(inst, rv, &mut p, e)?;
            }
            let acc = inst.verify_nonmem(root, &p);
            if acc && inst.leaves.contains_key(&p.label) {
                ex.fail("C05", format!("non-membership proof accepted for a MEMBER: {:?}", &toks[1..]));
            }
            // completeness half: the unedited proof for a non-member must verify
            if !acc && toks.len() == 2 && x.label_len == 256 && !inst.leaves.contains_key(&x) {
                let tag = if inst.leaves.is_empty() { "nonmem-complete-empty-tree" } else { "nonmem-complete" };
                ex.fail_tag("C05", tag, format!("honest non-membership proof rejected for non-member {}", toks[1]));
            }
            ex.stats.bump(op, if acc { "acc" } else { "rej" });
            Some(if acc { "acc".into() } else { "rej".into() })
        }
        "adv.lookup" if toks.len() >= 2 => {
            let inst = st.inst.as_ref()?;
            let u = AkdLabel(parse_hex(toks[1])?);
            let Some((mut p, ep, root)) = st.rt.block_on(inst.lookup(&u)) else { return Some("err".into()) };
            let truth = inst.verify_lookup(root, ep, &u, p.clone()).ok();
            for e in &toks[2..] {
                match st.rt.block_on(apply_lookup_edit(inst, &st.snaps, &u, &mut p, e)) {
                    Ok(()) => {}
                    Err(Some(())) => return Some("err".into()),
                    Err(None) => return None,
                }
            }
            let r = std::panic::catch_unwind(std::panic::AssertUnwindSafe(|| inst.verify_lookup(root, ep, &u, p)));
            Some(match r {
                Err(_) => {
                    ex.stats.bump(op, "panic");
                    "panic".into()
                }
                Ok(Err(_)) => {
                    ex.stats.bump(op, "rej");
                    "rej".into()
                }
                Ok(Ok(res)) => {
                    // oracle (C06): an accepted lookup proof reports the latest version, its value and epoch
                    if truth.as_ref() != Some(&res) {
                        ex.fail_tag("C06", "lookup-accepts-non-latest", format!("lookup proof for {} accepted with {} — the label's latest state is {}; edits {:?}", toks[1], show_result(&res), truth.as_ref().map(show_result).unwrap_or("none".into()), &toks[2..]));
                    }
                    ex.stats.bump(op, "acc");
                    format!("ok {}", show_result(&res))
                }
            })
        }
        "adv.history" | "adv.invent" if toks.len() >= 4 => {
            let inst = st.inst.as_ref()?;
            let u = AkdLabel(parse_hex(toks[1])?);
            let (hp, mode_tok, edits, invent_epoch): (HistoryParams, &str, &[&str], Option<u64>) = if op == "adv.history" {
                (parse_params(toks[2])?, toks[3], &toks[4..], None)
            } else {
                if toks.len() != 5 {
                    return None;
                }
                (parse_params(toks[3])?, toks[4], &[], Some(toks[2].parse().ok()?))
            };
            let allow = match mode_tok {
                "allow" => true,
                "default" => false,
                _ => return None,
            };
            let vparams = if allow {
                HistoryVerificationParams::AllowMissingValues { history_params: hp }
            } else {
                HistoryVerificationParams::Default { history_params: hp }
            };
            let (ep, root) = st.rt.block_on(inst.epoch_hash())?;
            // the truth: the verified result of the honest, unedited proof
            let honest = st.rt.block_on(inst.history(&u, hp));
            let truth: Option<Vec<VerifyResult>> = honest.clone().and_then(|(p, e, h)| inst.verify_history(h, e, &u, p, HistoryVerificationParams::Default { history_params: hp }).ok());
            let mut p = if let Some(e) = invent_epoch {
                let l = st.rt.block_on(vrf_node_label(&inst.cfg, &u, VersionFreshness::Fresh, 1))?;
                let rv = st.rt.block_on(inst.root_value())?;
                let up = UpdateProof {
                    epoch: e,
                    value: AkdValue(vec![]),
                    version: 1,
                    existence_vrf_proof: st.rt.block_on(vrf_bytes(&inst.cfg, &u, VersionFreshness::Fresh, 1))?,
                    existence_proof: MembershipProof { label: l, hash_val: AzksValue(rv), sibling_proofs: vec![] },
                    previous_version_vrf_proof: None,
                    previous_version_proof: None,
                    commitment_nonce: vec![0u8; 32],
                };
                match st.rt.block_on(regen_markers(inst, &u, vec![up])) {
                    Some(p) => p,
                    None => return Some("err".into()),
                }
            } else {
                match honest {
                    Some((p, _, _)) => p,
                    None => return Some("err".into()),
                }
            };
            for e in edits {
                match st.rt.block_on(apply_hist_edit(inst, &u, &mut p, e)) {
                    Ok(()) => {}
                    Err(Some(())) => return Some("err".into()),
                    Err(None) => return None,
                }
            }
            let r = std::panic::catch_unwind(std::panic::AssertUnwindSafe(|| inst.verify_history(root, ep, &u, p, vparams)));
            Some(match r {
                Err(_) => {
                    ex.stats.bump(op, "panic");
                    "panic".into()
                }
                Ok(Err(_)) => {
                    ex.stats.bump(op, "rej");
                    "rej".into()
                }
                Ok(Ok(rs)) => {
                    // oracle (C07): the accepted result equals the true version list for the parameter; a value may
                    // be empty in its place only when the verifier allowed missing values
                    let t = truth.clone().unwrap_or_default();
                    let mut bad: Option<(&str, String)> = None;
                    if t.len() != rs.len() {
                        bad = Some(("history-wrong-length", format!("{} entries accepted, the true list has {}", rs.len(), t.len())));
                    } else {
                        for (a, b) in rs.iter().zip(t.iter()) {
                            if a.version != b.version {
                                bad = Some(("history-wrong-version", format!("version {} where the true list has {}", a.version, b.version)));
                            } else if a.value != b.value && !(allow && a.value.0.is_empty()) {
                                bad = Some(("history-wrong-value", format!("wrong value for version {}", a.version)));
                            } else if a.epoch != b.epoch {
                                let f1 = allow && a.version == 1 && a.value.0.is_empty();
                                bad = Some((if f1 { "F1-tombstoned-v1-epoch" } else { "history-wrong-epoch" }, format!("version {} dated {} instead of {}", a.version, a.epoch, b.epoch)));
                            }
                        }
                    }
                    if let Some((tag, what)) = bad {
                        ex.fail_tag("C07", tag, format!("history proof for {} ({}, {}) accepted: {}; edits {:?}", toks[1], toks[2], mode_tok, what, edits));
                    }
                    ex.stats.bump(op, "acc");
                    format!("ok {}", rs.iter().map(show_result).collect::<Vec<_>>().join(" "))
                }
            })
        }
        // a MULTI-step audit (s0 .. s0+k) whose step `i` is edited (mirror of the driver's `adv.auditn`), through the real audit_verify
        "adv.auditn" if toks.len() >= 4 => {
            let inst = st.inst.as_ref()?;
            let s0: u64 = toks[1].parse().ok()?;
            let k: u64 = toks[2].parse().ok()?;
            let i: usize = toks[3].parse().ok()?;
            let Some(mut ap) = st.rt.block_on(inst.audit(s0, s0 + k)) else { return Some("err".into()) };
            if i >= ap.proofs.len() {
                return Some("err".into());
            }
            let mut proof = ap.proofs[i].clone();
            proof.inserted.sort_by_key(|e| show_label(&e.label));
            proof.unchanged_nodes.sort_by_key(|e| show_label(&e.label));
            let mut end_rebuilt = false;
            let mut plus = 0u64;
            for e in &toks[4..] {
                apply_audit_edit(&mut proof, &mut end_rebuilt, &mut plus, e)?;
            }
            let end_epoch = s0 + i as u64 + 1;
            let cfg = inst.cfg.clone();
            let mut hashes: Vec<[u8; 32]> = vec![];
            for j in 0..=k {
                hashes.push(*inst.roots.get(&(s0 + j))?);
            }
            let rebuilt_nodes = |proof: &SingleAppendOnlyProof| -> Vec<AzksElement> {
                let mut nodes = proof.unchanged_nodes.clone();
                nodes.extend(proof.inserted.iter().map(|x| AzksElement {
                    label: x.label,
                    value: with_cfg!(cfg.as_str(), TC => AzksValue(TC::hash_leaf_with_commitment(x.value, end_epoch).0)),
                }));
                nodes
            };
            if end_rebuilt {
                match st.rt.block_on(rebuild(&cfg, rebuilt_nodes(&proof), Some(end_epoch - 1))) {
                    Some((h, _)) => hashes[i + 1] = h,
                    None => return Some("err".into()),
                }
            }
            ap.proofs[i] = proof.clone();
            let acc = st.rt.block_on(inst.verify_audit(hashes, ap)).is_ok();
            if acc && end_rebuilt {
                // oracle (C09): every leaf committed by the hash BEFORE the edited step must still be committed after it
                let survivors = st.rt.block_on(rebuild(&cfg, rebuilt_nodes(&proof), Some(end_epoch - 1))).map(|x| x.1).unwrap_or_default();
                let real = st.rt.block_on(real_nodes(inst, s0 + i as u64));
                let mut lost = vec![];
                for (l, (_, is_leaf)) in real.iter() {
                    if !*is_leaf {
                        continue;
                    }
                    let covered = survivors.iter().any(|s| s.label.is_prefix_of(l) && s.label.label_len <= l.label_len && real.get(&s.label).map(|r| r.0 == s.value.0).unwrap_or(false));
                    if !covered {
                        lost.push(show_label(l));
                    }
                }
                if !lost.is_empty() {
                    ex.fail_tag("C09", "audit-accepts-removal", format!("audit of the epochs {s0}..{} accepted although in step {} -> {} {} leaf/leaves committed by the earlier hash are no longer committed by the later one (e.g. {}); edits {:?}", s0 + k, s0 + i as u64, end_epoch, lost.len(), lost[0], &toks[4..]));
                }
            }
            ex.stats.bump(op, if acc { "acc" } else { "rej" });
            Some(if acc { "acc".into() } else { "rej".into() })
        }
        "adv.audit" if toks.len() >= 2 => {
            let inst = st.inst.as_ref()?;
            let ep: u64 = toks[1].parse().ok()?;
            let Some(ap) = st.rt.block_on(inst.audit(ep, ep + 1)) else { return Some("err".into()) };
            let mut proof = ap.proofs.into_iter().next()?;
            proof.inserted.sort_by_key(|e| show_label(&e.label));
            proof.unchanged_nodes.sort_by_key(|e| show_label(&e.label));
            let mut end_rebuilt = false;
            let mut plus = 0u64;
            for e in &toks[2..] {
                apply_audit_edit(&mut proof, &mut end_rebuilt, &mut plus, e)?;
            }
            let start = *inst.roots.get(&ep)?;
            let end_epoch = ep + 1 + plus;
            let cfg = inst.cfg.clone();
            let end = if end_rebuilt {
                let mut nodes = proof.unchanged_nodes.clone();
                nodes.extend(proof.inserted.iter().map(|x| AzksElement {
                    label: x.label,
                    value: with_cfg!(cfg.as_str(), TC => AzksValue(TC::hash_leaf_with_commitment(x.value, end_epoch).0)),
                }));
                match st.rt.block_on(rebuild(&cfg, nodes, Some(end_epoch - 1))) {
                    Some((h, _)) => h,
                    None => return Some("err".into()),
                }
            } else {
                *inst.roots.get(&(ep + 1))?
            };
            let acc = with_cfg!(cfg.as_str(), TC => st.rt.block_on(akd::auditor::verify_consecutive_append_only::<TC>(&proof, start, end, end_epoch)).is_ok());
            if acc && end_rebuilt {
                // oracle (C09): every leaf committed by the start hash must still be committed by the end hash,
                // i.e. lie below a surviving element of the rebuilt tree that is a REAL node of the earlier tree
                let mut nodes = proof.unchanged_nodes.clone();
                nodes.extend(proof.inserted.iter().map(|x| AzksElement {
                    label: x.label,
                    value: with_cfg!(cfg.as_str(), TC => AzksValue(TC::hash_leaf_with_commitment(x.value, end_epoch).0)),
                }));
                let survivors = st.rt.block_on(rebuild(&cfg, nodes, Some(end_epoch - 1))).map(|x| x.1).unwrap_or_default();
                let real = st.rt.block_on(real_nodes(inst, ep));
                let mut lost = vec![];
                for (l, (v, is_leaf)) in real.iter() {
                    if !*is_leaf {
                        continue;
                    }
                    let covered = survivors.iter().any(|s| {
                        s.label.is_prefix_of(l) && s.label.label_len <= l.label_len && real.get(&s.label).map(|r| r.0 == s.value.0).unwrap_or(false)
                    });
                    let _ = v;
                    if !covered {
                        lost.push(show_label(l));
                    }
                }
                if !lost.is_empty() {
                    ex.fail_tag("C09", "audit-accepts-removal", format!("audit proof accepted for epoch {ep}->{} although {} leaf/leaves committed by the start hash are no longer committed by the end hash (e.g. {}); edits {:?}", ep + 1, lost.len(), lost[0], &toks[2..]));
                }
            }
            ex.stats.bump(op, if acc { "acc" } else { "rej" });
            Some(if acc { "acc".into() } else { "rej".into() })
        }
        // oracle ops: the implementation's answer here, the specification's on the model side
        "spec.root" => {
            let inst = st.inst.as_ref()?;
            match st.rt.block_on(inst.epoch_hash()) {
                Some((e, h)) => Some(format!("{} {}", e, hex32(&h))),
                None => Some("err".into()),
            }
        }
        "spec.lookup" if toks.len() == 2 => {
            let inst = st.inst.as_ref()?;
            let u = AkdLabel(parse_hex(toks[1])?);
            match st.rt.block_on(inst.lookup(&u)) {
                Some((p, e, h)) => match inst.verify_lookup(h, e, &u, p) {
                    Ok(r) => Some(format!("ok {}", show_result(&r))),
                    Err(_) => Some("rej".into()),
                },
                None => Some("none".into()),
            }
        }
        "spec.history" if toks.len() == 3 => {
            let inst = st.inst.as_ref()?;
            let u = AkdLabel(parse_hex(toks[1])?);
            let hp = parse_params(toks[2])?;
            match st.rt.block_on(inst.history(&u, hp)) {
                Some((p, e, h)) => match inst.verify_history(h, e, &u, p, HistoryVerificationParams::Default { history_params: hp }) {
                    Ok(rs) => Some(format!("ok {}", rs.iter().map(show_result).collect::<Vec<_>>().join(" "))),
                    Err(_) => Some("rej".into()),
                },
                None => Some("none".into()),
            }
        }
        _ => crate::exec_l2::step(ex, st, op, toks),
    }
}
