//! Executes an ops file against the real implementation, one observation line per op.
//! Each op runs under `catch_unwind`; a panic is the observation `panic`.
use crate::util::*;
use akd::append_only_zks::verif_hooks as hooks;
use akd::configuration::Configuration;
use akd::{AzksElement, AzksValue, NodeLabel, PrefixOrdering};
use std::collections::BTreeMap;

pub type Wv1 = akd::WhatsAppV1Configuration;
pub type Exp = akd::ExperimentalConfiguration<akd::ExampleLabel>;

#[derive(Default)]
pub struct Stats {
    pub ops: BTreeMap<String, u64>,
    pub classes: BTreeMap<String, u64>,
}

impl Stats {
    pub fn bump(&mut self, op: &str, class: &str) {
        *self.ops.entry(op.to_string()).or_insert(0) += 1;
        *self
            .classes
            .entry(format!("{op}:{class}"))
            .or_insert(0) += 1;
    }
}

pub struct Exec {
    pub stats: Stats,
    /// oracle failures: (property, ops line number, description, tag)
    pub oracle_failures: Vec<(String, usize, String, String)>,
    /// for failures found inside a sweep: the ops that replay the failing case on their own (by index into `oracle_failures`)
    pub failure_replays: std::collections::BTreeMap<usize, Vec<String>>,
    pub line_no: usize,
    pub l1: Option<crate::exec_l1::L1State>,
}

fn elems(ls: &[NodeLabel]) -> Vec<AzksElement> {
    ls.iter()
        .enumerate()
        .map(|(i, l)| {
            let mut v = [0u8; 32];
            v[..8].copy_from_slice(&(i as u64).to_be_bytes());
            AzksElement {
                label: *l,
                value: AzksValue(v),
            }
        })
        .collect()
}

fn show_set(xs: &[AzksElement]) -> String {
    xs.iter()
        .map(|e| show_label(&e.label))
        .collect::<Vec<_>>()
        .join(",")
}

fn sorted_labels(xs: &[AzksElement]) -> Vec<String> {
    let mut v: Vec<String> = xs.iter().map(|e| show_label(&e.label)).collect();
    v.sort();
    v
}

fn is_prefix_bits(a: &[bool], b: &[bool]) -> bool {
    a.len() <= b.len() && a.iter().zip(b.iter()).all(|(x, y)| x == y)
}

fn common_prefix(a: &[bool], b: &[bool]) -> Vec<bool> {
    a.iter()
        .zip(b.iter())
        .take_while(|(x, y)| x == y)
        .map(|(x, _)| *x)
        .collect()
}

fn normalised(l: &NodeLabel) -> bool {
    l.label_len > 256 || label_of_bits(&bits_of(l)) == *l
}

fn show_ord(o: PrefixOrdering) -> &'static str {
    match o {
        PrefixOrdering::WithZero => "0",
        PrefixOrdering::WithOne => "1",
        PrefixOrdering::Invalid => "x",
    }
}

fn spec_ord(a: &NodeLabel, b: &NodeLabel) -> &'static str {
    let (ba, bb) = (bits_of(a), bits_of(b));
    if ba.len() < bb.len() && is_prefix_bits(&ba, &bb) {
        if bb[ba.len()] {
            "1"
        } else {
            "0"
        }
    } else {
        "x"
    }
}

pub fn empty_label(cfg: &str) -> Option<NodeLabel> {
    match cfg {
        "wv1" => Some(Wv1::empty_label()),
        "exp" => Some(Exp::empty_label()),
        _ => None,
    }
}

fn lcp_cfg(cfg: &str, a: &NodeLabel, b: NodeLabel) -> Option<NodeLabel> {
    match cfg {
        "wv1" => Some(a.get_longest_common_prefix::<Wv1>(b)),
        "exp" => Some(a.get_longest_common_prefix::<Exp>(b)),
        _ => None,
    }
}

impl Exec {
    pub fn new() -> Self {
        Exec {
            stats: Stats::default(),
            oracle_failures: vec![],
            failure_replays: Default::default(),
            line_no: 0,
            l1: None,
        }
    }

    pub fn fail(&mut self, prop: &str, what: String) {
        self.fail_tag(prop, "", what)
    }

    /// `tag` names the failure class precisely; KNOWN_FINDINGS.json matches on it
    pub fn fail_tag(&mut self, prop: &str, tag: &str, what: String) {
        self.oracle_failures
            .push((prop.to_string(), self.line_no, what, tag.to_string()));
    }

    pub fn fail_tag_replay(&mut self, prop: &str, tag: &str, what: String, replay: Vec<String>) {
        self.failure_replays.insert(self.oracle_failures.len(), replay);
        self.fail_tag(prop, tag, what);
    }

    /// Runs one op; `None` = not an op this executor knows (`bad-op`).
    pub fn step(&mut self, line: &str) -> String {
        self.line_no += 1;
        let toks: Vec<&str> = line.split_whitespace().collect();
        if toks.is_empty() {
            return "bad-op".into();
        }
        let this = std::panic::AssertUnwindSafe(&mut *self);
        let toks2 = toks.clone();
        let res = std::panic::catch_unwind(move || {
            let this = this;
            this.0.step_inner(&toks2)
        });
        match res {
            Ok(Some(s)) => s,
            Ok(None) => "bad-op".into(),
            Err(_) => {
                self.stats.bump(toks[0], "panic");
                "panic".into()
            }
        }
    }

    fn step_inner(&mut self, toks: &[&str]) -> Option<String> {
        let op = toks[0];
        match op {
            "lbl.isprefix" if toks.len() == 3 => {
                let (a, b) = (parse_label(toks[1])?, parse_label(toks[2])?);
                let r = a.is_prefix_of(&b);
                if a.label_len <= 256 && b.label_len <= 256 {
                    let spec = is_prefix_bits(&bits_of(&a), &bits_of(&b));
                    if spec != r {
                        self.fail("C17", format!("is_prefix_of({toks:?}) = {r}, bit strings say {spec}"));
                    }
                }
                self.stats.bump(op, if r { "true" } else { "false" });
                Some(r.to_string())
            }
            "lbl.lcp" if toks.len() == 4 => {
                let (a, b) = (parse_label(toks[2])?, parse_label(toks[3])?);
                let e = empty_label(toks[1])?;
                let r = lcp_cfg(toks[1], &a, b)?;
                if a != e && b != e && a.label_len <= 256 && b.label_len <= 256 {
                    let spec = common_prefix(&bits_of(&a), &bits_of(&b));
                    if bits_of(&r) != spec || r.label_len as usize != spec.len() || !(normalised(&r) || spec.len() == 256) {
                        self.fail("C17", format!("lcp({toks:?}) = {}, bit strings say {} bits", show_label(&r), spec.len()));
                    }
                    self.stats.bump(op, &format!("len{}", spec.len() / 32 * 32));
                } else {
                    self.stats.bump(op, "empty-or-long");
                }
                Some(show_label(&r))
            }
            "lbl.prefix" if toks.len() == 3 => {
                let a = parse_label(toks[1])?;
                let n: u32 = toks[2].parse().ok()?;
                let r = a.get_prefix(n);
                if n < 256 {
                    let full = NodeLabel::new(a.label_val, 256);
                    let want = label_of_bits(&bits_of(&full)[..n as usize]);
                    if r != want {
                        self.fail("C17", format!("get_prefix({toks:?}) = {}, bit strings say {}", show_label(&r), show_label(&want)));
                    }
                } else if r != a {
                    self.fail("C17", format!("get_prefix({toks:?}) with n>=256 is not the identity"));
                }
                self.stats.bump(op, if n % 8 == 0 { "byte-aligned" } else { "unaligned" });
                Some(show_label(&r))
            }
            "lbl.ord" if toks.len() == 3 => {
                let (a, b) = (parse_label(toks[1])?, parse_label(toks[2])?);
                let r = show_ord(a.get_prefix_ordering(b));
                if a.label_len <= 256 && b.label_len <= 256 {
                    let spec = spec_ord(&a, &b);
                    if spec != r {
                        self.fail("C17", format!("get_prefix_ordering({toks:?}) = {r}, bit strings say {spec}"));
                    }
                }
                self.stats.bump(op, r);
                Some(r.to_string())
            }
            "lbl.cmp" if toks.len() == 3 => {
                let (a, b) = (parse_label(toks[1])?, parse_label(toks[2])?);
                let r = match a.cmp(&b) {
                    std::cmp::Ordering::Less => "lt",
                    std::cmp::Ordering::Equal => "eq",
                    std::cmp::Ordering::Greater => "gt",
                };
                let fa = (a.label_len, bits_of(&NodeLabel::new(a.label_val, 256)));
                let fb = (b.label_len, bits_of(&NodeLabel::new(b.label_val, 256)));
                let spec = match fa.cmp(&fb) {
                    std::cmp::Ordering::Less => "lt",
                    std::cmp::Ordering::Equal => "eq",
                    std::cmp::Ordering::Greater => "gt",
                };
                if spec != r {
                    self.fail("C17", format!("cmp({toks:?}) = {r}, (len, bits) order says {spec}"));
                }
                self.stats.bump(op, r);
                Some(r.to_string())
            }
            "set.partition" if toks.len() >= 3 => {
                let un = match toks[1] { "auto" => false, "un" => true, _ => return None };
                let p = parse_label(toks[2])?;
                let ls: Option<Vec<NodeLabel>> = toks[3..].iter().map(|t| parse_label(t)).collect();
                let ls = ls?;
                let (bs, l, r) = hooks::partition(elems(&ls), un, p);
                // oracle: under the documented precondition the sorted and the
                // unsorted representation give the same left/right sets, and they
                // are the sets the bit strings dictate
                let pre = ls.iter().all(|x| x.label_len <= 256 && is_prefix_bits(&bits_of(&p), &bits_of(x))) && p.label_len <= 256;
                if pre {
                    let (_, l2, r2) = hooks::partition(elems(&ls), !un || !bs, p);
                    let spec_l: Vec<NodeLabel> = ls.iter().filter(|x| spec_ord(&p, x) == "0").cloned().collect();
                    let spec_r: Vec<NodeLabel> = ls.iter().filter(|x| spec_ord(&p, x) == "1").cloned().collect();
                    if sorted_labels(&l) != sorted_labels(&elems(&spec_l)) || sorted_labels(&r) != sorted_labels(&elems(&spec_r)) {
                        self.fail("C17", format!("partition({toks:?}) differs from the bit-string partition"));
                    }
                    if bs && (sorted_labels(&l) != sorted_labels(&l2) || sorted_labels(&r) != sorted_labels(&r2)) {
                        self.fail("C17", format!("partition({toks:?}): sorted and unsorted representations disagree"));
                    }
                }
                self.stats.bump(op, &format!("{}{}", if bs { "bs" } else { "un" }, if pre { "" } else { "-noprecond" }));
                Some(format!("{} L:{} R:{}", if bs { "bs" } else { "un" }, show_set(&l), show_set(&r)))
            }
            "set.lcp" if toks.len() >= 3 => {
                let un = match toks[1] { "auto" => false, "un" => true, _ => return None };
                let cfg = toks[2];
                let e = empty_label(cfg)?;
                let ls: Option<Vec<NodeLabel>> = toks[3..].iter().map(|t| parse_label(t)).collect();
                let ls = ls?;
                let run = |un: bool| match cfg {
                    "wv1" => hooks::longest_common_prefix::<Wv1>(elems(&ls), un),
                    _ => hooks::longest_common_prefix::<Exp>(elems(&ls), un),
                };
                let (bs, r) = run(un);
                let pre = !ls.is_empty() && ls.iter().all(|x| x.label_len <= 256 && *x != e && x.label_len > 0);
                if pre {
                    let mut spec = bits_of(&ls[0]);
                    for x in &ls[1..] {
                        spec = common_prefix(&spec, &bits_of(x));
                    }
                    // an lcp of length 0 short-circuits later folds to the empty label (by design of the code);
                    // the bit-string meaning is still "length 0"
                    if r.label_len as usize != spec.len() || (r != e && bits_of(&r) != spec) {
                        self.fail("C17", format!("set lcp({toks:?}) = {}, bit strings say {} bits", show_label(&r), spec.len()));
                    }
                    if bs {
                        let (_, r2) = run(true);
                        if r2.label_len != r.label_len || bits_of(&r2) != bits_of(&r) {
                            self.fail("C17", format!("set lcp({toks:?}): sorted {} vs unsorted {}", show_label(&r), show_label(&r2)));
                        }
                    }
                }
                self.stats.bump(op, if bs { "bs" } else { "un" });
                Some(format!("{} {}", if bs { "bs" } else { "un" }, show_label(&r)))
            }
            "set.contains" if toks.len() >= 3 => {
                let un = match toks[1] { "auto" => false, "un" => true, _ => return None };
                let p = parse_label(toks[2])?;
                let ls: Option<Vec<NodeLabel>> = toks[3..].iter().map(|t| parse_label(t)).collect();
                let ls = ls?;
                let (bs, r) = hooks::contains_prefix(elems(&ls), un, p);
                let pre = p.label_len <= 256 && normalised(&p) && ls.iter().all(|x| x.label_len <= 256 && p.label_len <= x.label_len);
                if pre {
                    let spec = ls.iter().any(|x| is_prefix_bits(&bits_of(&p), &bits_of(x)));
                    if spec != r {
                        self.fail("C17", format!("contains_prefix({toks:?}) = {r}, bit strings say {spec}"));
                    }
                }
                self.stats.bump(op, &format!("{}-{}", if bs { "bs" } else { "un" }, r));
                Some(format!("{} {}", if bs { "bs" } else { "un" }, r))
            }
            "mk" if toks.len() == 4 => {
                let s: u64 = toks[1].parse().ok()?;
                let e: u64 = toks[2].parse().ok()?;
                let ep: u64 = toks[3].parse().ok()?;
                let (p, f) = akd_core::utils::get_marker_versions(s, e, ep);
                self.stats.bump(op, &format!("p{}f{}", p.len().min(9), f.len().min(9)));
                Some(format!("{} {}", show_nats(&p), show_nats(&f)))
            }
            _ => crate::exec_l1::step(self, toks),
        }
    }
}
