//! Text forms of the line protocol (DESIGN appendix B).
use akd::NodeLabel;

pub fn hex_or_dash(b: &[u8]) -> String {
    if b.is_empty() {
        "-".to_string()
    } else {
        hex::encode(b)
    }
}

pub fn parse_hex(s: &str) -> Option<Vec<u8>> {
    if s == "-" {
        Some(vec![])
    } else {
        hex::decode(s).ok()
    }
}

pub fn show_label(l: &NodeLabel) -> String {
    format!("{}/{}", hex::encode(l.label_val), l.label_len)
}

pub fn parse_label(s: &str) -> Option<NodeLabel> {
    let (h, l) = s.split_once('/')?;
    let bytes = hex::decode(h).ok()?;
    if bytes.len() != 32 {
        return None;
    }
    let mut v = [0u8; 32];
    v.copy_from_slice(&bytes);
    Some(NodeLabel::new(v, l.parse::<u32>().ok()?))
}

/// label from a bit string (`0`/`1` chars), zero padded
pub fn label_of_bits(bits: &[bool]) -> NodeLabel {
    let mut v = [0u8; 32];
    for (i, b) in bits.iter().enumerate() {
        if *b {
            v[i / 8] |= 1 << (7 - (i % 8));
        }
    }
    NodeLabel::new(v, bits.len() as u32)
}

/// the first `label_len` bits (capped at 256) of a label
pub fn bits_of(l: &NodeLabel) -> Vec<bool> {
    let n = std::cmp::min(l.label_len, 256) as usize;
    (0..n)
        .map(|i| (l.label_val[i / 8] >> (7 - (i % 8))) & 1 == 1)
        .collect()
}

pub fn show_nats(xs: &[u64]) -> String {
    format!(
        "[{}]",
        xs.iter().map(|x| x.to_string()).collect::<Vec<_>>().join(",")
    )
}
