//! `sch.enum`: all interleavings (bounded preemptions) of concurrent publishes on clones of one
//! directory, at storage-operation granularity, with the serialisability oracle of C12.
use crate::exec::{Exec, Exp, Wv1};
use crate::exec_l1::L1State;
use crate::sched::*;
use crate::util::*;
use akd::append_only_zks::AzksParallelismConfig;
use akd::directory::Directory;
use akd::ecvrf::HardCodedAkdVRF;
use akd::storage::manager::StorageManager;
use akd::storage::memory::AsyncInMemoryDatabase;
use akd::storage::types::DbRecord;
use akd::storage::{Database, DbSetState};
use akd::{AkdLabel, AkdValue};
use std::sync::atomic::Ordering;
use std::sync::Arc;
use std::time::Duration;

type Batch = Vec<(AkdLabel, AkdValue)>;

fn make_mgr<D: Database + 'static>(db: D, cache: &str) -> StorageManager<D> {
    match cache {
        "default" => StorageManager::new(db, None, None, None),
        "1ms" => StorageManager::new(db, Some(Duration::from_millis(2)), None, Some(Duration::from_millis(2))),
        _ => StorageManager::new_no_cache(db),
    }
}

pub struct RunResult {
    pub outcomes: Vec<Result<(u64, [u8; 32]), String>>,
    pub trace: Vec<(usize, String, String)>,
    pub choices: Vec<Choice>,
    pub final_eh: Option<(u64, [u8; 32])>,
    pub final_db: Vec<DbRecord>,
    pub txn_left_open: bool,
    pub fault_fired: bool,
}

macro_rules! with_cfg {
    ($cfg:expr, $tc:ident => $body:expr) => {
        match $cfg {
            "wv1" => {
                type $tc = Wv1;
                $body
            }
            _ => {
                type $tc = Exp;
                $body
            }
        }
    };
}


/// joins a scheduled task; a task that does not return within 20 s after the schedule has run out is reported as such
/// (a call that never returns is a violation of C12 / C13, not something to wait for)
async fn join_or_stuck<T>(h: tokio::task::JoinHandle<T>, stuck: T, panicked: impl FnOnce(String) -> T) -> T {
    let abort = h.abort_handle();
    match tokio::time::timeout(Duration::from_secs(20), h).await {
        Ok(Ok(r)) => r,
        Ok(Err(e)) => panicked(e.to_string()),
        Err(_) => {
            abort.abort();
            stuck
        }
    }
}

fn run_once<TC: akd::configuration::Configuration>(base: &[DbRecord], batches: &[Batch], cache: &str, prefs: &[usize], fault: Option<(usize, usize)>) -> RunResult {
    let rt = tokio::runtime::Builder::new_current_thread().enable_all().build().unwrap();
    rt.block_on(async {
        let db = SchedDb::from_records(base).await;
        let mgr = make_mgr(db.clone(), cache);
        let dir = Directory::<TC, _, _>::new(mgr.clone(), HardCodedAkdVRF {}, AzksParallelismConfig::disabled()).await.unwrap();
        let _ = dir.get_epoch_hash().await;
        if let Some((t, n)) = fault {
            db.ctl.fail_index.store(n, Ordering::SeqCst);
            db.ctl.fail_task.store(t + 1, Ordering::SeqCst);
        }
        db.ctl.enabled.store(true, Ordering::SeqCst);
        let mut handles = vec![];
        for (i, b) in batches.iter().enumerate() {
            let d = dir.clone();
            let b = b.clone();
            handles.push(tokio::spawn(TID.scope(i, async move { d.publish(b).await.map(|e| (e.0, e.1)).map_err(|e| e.to_string()) })));
        }
        let hs: Arc<Vec<tokio::task::JoinHandle<_>>> = Arc::new(handles);
        let hs2 = hs.clone();
        let choices = drive(&db.ctl, batches.len(), prefs, &move |i| hs2[i].is_finished()).await;
        db.ctl.enabled.store(false, Ordering::SeqCst);
        db.ctl.fail_task.store(0, Ordering::SeqCst);
        let fault_fired = db.ctl.fail_fired.load(Ordering::SeqCst);
        let mut outcomes = vec![];
        let hs = Arc::try_unwrap(hs).ok().unwrap();
        for h in hs {
            outcomes.push(join_or_stuck(h, Err("STUCK: the call never returned".to_string()), |e| Err(format!("task panicked: {e}"))).await);
        }
        let final_eh = dir.get_epoch_hash().await.ok().map(|e| (e.0, e.1));
        let trace = db.ctl.trace.lock().unwrap().clone();
        RunResult { outcomes, trace, choices, final_eh, final_db: db.snapshot().await, txn_left_open: mgr.is_transaction_active(), fault_fired }
    })
}

/// the reference: the batches applied one after another on a fresh directory over the same base
fn run_sequential<TC: akd::configuration::Configuration>(base: &[DbRecord], batches: &[Batch]) -> (Vec<Option<(u64, [u8; 32])>>, Vec<DbRecord>) {
    let rt = tokio::runtime::Builder::new_current_thread().enable_all().build().unwrap();
    rt.block_on(async {
        let db = AsyncInMemoryDatabase::new();
        db.batch_set(base.to_vec(), DbSetState::General).await.unwrap();
        let dir = Directory::<TC, _, _>::new(StorageManager::new_no_cache(db.clone()), HardCodedAkdVRF {}, AzksParallelismConfig::disabled()).await.unwrap();
        let mut out = vec![];
        for b in batches {
            out.push(dir.publish(b.clone()).await.ok().map(|e| (e.0, e.1)));
        }
        let mut recs = akd::storage::StorageUtil::batch_get_all_direct(&db).await.unwrap();
        recs.sort();
        (out, recs)
    })
}

fn canon(v: &[DbRecord]) -> Vec<String> {
    let mut out: Vec<String> = v
        .iter()
        .map(|r| match r {
            DbRecord::TreeNode(t) => {
                let mut t = t.clone();
                t.latest_node.parent = akd::NodeLabel::root();
                if let Some(p) = t.previous_node.as_mut() {
                    p.parent = akd::NodeLabel::root();
                }
                format!("{:?}", t)
            }
            other => format!("{:?}", other),
        })
        .collect();
    out.sort();
    out
}

fn show_sched(choices: &[Choice]) -> String {
    choices.iter().map(|c| c.chosen.to_string()).collect::<Vec<_>>().join("")
}

/// the serialisability oracle; returns (tag, description) of the first violation
fn judge<TC: akd::configuration::Configuration>(base: &[DbRecord], base_epoch: u64, batches: &[Batch], r: &RunResult) -> Option<(String, String)> {
    if let Some(i) = r.outcomes.iter().position(|o| matches!(o, Err(e) if e.starts_with("STUCK"))) {
        return Some(("call-never-returned".into(), format!("the publish of task {i} never returned (deadlock or lost wake-up)")));
    }
    if r.txn_left_open {
        return Some(("transaction-left-open".into(), "a transaction is still open after all calls returned".into()));
    }
    // calls that changed the directory, with the epoch each was given
    let mut changed: Vec<(u64, usize, [u8; 32])> = vec![];
    for (i, o) in r.outcomes.iter().enumerate() {
        if let Ok((e, h)) = o {
            if *e > base_epoch {
                changed.push((*e, i, *h));
            }
        }
    }
    changed.sort();
    for (k, (e, i, _)) in changed.iter().enumerate() {
        if *e != base_epoch + 1 + k as u64 {
            return Some((
                "epochs-not-distinct-consecutive".into(),
                format!(
                    "the calls that changed the directory received epochs {:?} (task {} got {}), base epoch {}",
                    changed.iter().map(|c| c.0).collect::<Vec<_>>(),
                    i,
                    e,
                    base_epoch
                ),
            ));
        }
    }
    // final state = the successful batches applied one after another in epoch order
    let order: Vec<Batch> = changed.iter().map(|(_, i, _)| batches[*i].clone()).collect();
    let (seq, seq_db) = run_sequential::<TC>(base, &order);
    for (k, (e, i, h)) in changed.iter().enumerate() {
        if seq[k] != Some((*e, *h)) {
            return Some((
                "returned-pair-not-serial".into(),
                format!("task {} returned (epoch {}, root {}), the serial execution in epoch order gives {:?}", i, e, hex::encode(h), seq[k].map(|x| (x.0, hex::encode(x.1)))),
            ));
        }
    }
    let want_final = seq.last().cloned().flatten();
    if !changed.is_empty() && r.final_eh != want_final {
        return Some(("final-state-not-serial".into(), format!("final epoch hash {:?}, serial execution ends in {:?}", r.final_eh.map(|x| (x.0, hex::encode(x.1))), want_final.map(|x| (x.0, hex::encode(x.1))))));
    }
    if canon(&r.final_db) != canon(&seq_db) {
        return Some(("final-db-not-serial".into(), format!("the database after the concurrent run ({} records) differs from the serial execution of the successful batches ({} records)", r.final_db.len(), seq_db.len())));
    }
    None
}

#[derive(Clone, Debug)]
pub enum ReadOp {
    EpochHash,
    Lookup(AkdLabel),
    BatchLookup(Vec<AkdLabel>),
    History(AkdLabel, akd::HistoryParams),
    Audit(u64, u64),
}

pub struct ReadRun {
    pub publish: Result<(u64, [u8; 32]), String>,
    /// per reader: Err, or (epoch, root, verified?) — `None` root list means unverifiable here
    pub reads: Vec<Result<(u64, [u8; 32], bool), String>>,
    pub choices: Vec<Choice>,
    pub trace: Vec<(usize, String, String)>,
}

/// one publish (task 0, writer instance) interleaved with read requests (tasks 1.., a separate read-only
/// instance with its own storage manager over the same database)
fn run_reads<TC: akd::configuration::Configuration>(base: &[DbRecord], batch: &Batch, reads: &[ReadOp], reader_cache: &str, roots: &[[u8; 32]], prefs: &[usize]) -> ReadRun {
    use akd::ecvrf::VRFKeyStorage;
    let rt = tokio::runtime::Builder::new_current_thread().enable_all().build().unwrap();
    rt.block_on(async {
        let db = SchedDb::from_records(base).await;
        // `same:<mode>`: the readers share the writer's storage manager (and its cache), and reads have latency
        let shared = reader_cache.strip_prefix("same:");
        let wmgr = make_mgr(db.clone(), shared.unwrap_or("none"));
        let writer = Directory::<TC, _, _>::new(wmgr.clone(), HardCodedAkdVRF {}, AzksParallelismConfig::disabled()).await.unwrap();
        let rmgr = if shared.is_some() { wmgr.clone() } else { make_mgr(db.clone(), reader_cache) };
        let reader = akd::directory::ReadOnlyDirectory::<TC, _, _>::new(rmgr, HardCodedAkdVRF {}, AzksParallelismConfig::disabled()).await.unwrap();
        db.ctl.split_reads.store(shared.is_some(), Ordering::SeqCst);
        let pk = HardCodedAkdVRF {}.get_vrf_public_key().await.unwrap();
        db.ctl.enabled.store(true, Ordering::SeqCst);
        let b = batch.clone();
        let w = writer.clone();
        let hp = tokio::spawn(TID.scope(0, async move { w.publish(b).await.map(|e| (e.0, e.1)).map_err(|e| e.to_string()) }));
        let mut hr = vec![];
        for (i, op) in reads.iter().enumerate() {
            let r = reader.clone();
            let op = op.clone();
            let pk = pk.clone();
            let roots = roots.to_vec();
            hr.push(tokio::spawn(TID.scope(i + 1, async move {
                match op {
                    ReadOp::EpochHash => r.get_epoch_hash().await.map(|e| (e.0, e.1, true)).map_err(|e| e.to_string()),
                    ReadOp::Lookup(u) => match r.lookup(u.clone()).await {
                        Ok((p, eh)) => Ok((eh.0, eh.1, akd::verify::lookup_verify::<TC>(pk.as_bytes(), eh.1, eh.0, u, p).is_ok())),
                        Err(e) => Err(e.to_string()),
                    },
                    ReadOp::BatchLookup(us) => match r.batch_lookup(&us).await {
                        Ok((ps, eh)) => Ok((eh.0, eh.1, ps.len() == us.len() && us.iter().zip(ps.into_iter()).all(|(u, p)| akd::verify::lookup_verify::<TC>(pk.as_bytes(), eh.1, eh.0, u.clone(), p).is_ok()))),
                        Err(e) => Err(e.to_string()),
                    },
                    ReadOp::History(u, params) => match r.key_history(&u, params).await {
                        Ok((p, eh)) => Ok((eh.0, eh.1, akd::verify::key_history_verify::<TC>(pk.as_bytes(), eh.1, eh.0, u, p, akd::verify::history::HistoryVerificationParams::Default { history_params: params }).is_ok())),
                        Err(e) => Err(e.to_string()),
                    },
                    ReadOp::Audit(s, e) => match r.audit(s, e).await {
                        Ok(p) => {
                            let hashes: Vec<[u8; 32]> = (s..=e).filter_map(|i| roots.get(i as usize).cloned()).collect();
                            let ok = hashes.len() as u64 == e - s + 1 && akd::auditor::audit_verify::<TC>(hashes, p).await.is_ok();
                            Ok((e, roots.get(e as usize).cloned().unwrap_or([0; 32]), ok))
                        }
                        Err(e) => Err(e.to_string()),
                    },
                }
            })));
        }
        // with the 2 ms item lifetime: a task that lets every cached item (except the epoch record) EXPIRE at two moments the
        // schedule chooses — the `evict` step of CacheFill.lean — e.g. between a write through the cache and the arrival of
        // a read that was issued before it
        let expirer = shared == Some("1ms");
        let hx = if expirer {
            let dbx = db.clone();
            Some(tokio::spawn(TID.scope(reads.len() + 1, async move {
                for _ in 0..2 {
                    dbx.pause().await;
                    std::thread::sleep(Duration::from_micros(2600));
                }
            })))
        } else {
            None
        };
        let hp = Arc::new(hp);
        let hr = Arc::new(hr);
        let hx = Arc::new(hx);
        let (hp2, hr2, hx2) = (hp.clone(), hr.clone(), hx.clone());
        let n = reads.len() + 1 + if expirer { 1 } else { 0 };
        let nr = reads.len();
        let choices = drive(&db.ctl, n, prefs, &move |i| {
            if i == 0 {
                hp2.is_finished()
            } else if i <= nr {
                hr2[i - 1].is_finished()
            } else {
                hx2.as_ref().as_ref().map(|h| h.is_finished()).unwrap_or(true)
            }
        })
        .await;
        db.ctl.enabled.store(false, Ordering::SeqCst);
        let publish = join_or_stuck(Arc::try_unwrap(hp).ok().unwrap(), Err("STUCK: the call never returned".to_string()), |e| Err(format!("panicked: {e}"))).await;
        let mut out = vec![];
        for h in Arc::try_unwrap(hr).ok().unwrap() {
            out.push(join_or_stuck(h, Err("STUCK: the call never returned".to_string()), |e| Err(format!("panicked: {e}"))).await);
        }
        // afterwards, with everything quiet: what does the (shared) instance answer now?
        if shared.is_some() {
            let after = reader.get_epoch_hash().await.map(|e| (e.0, e.1, true)).map_err(|e| e.to_string());
            out.push(after);
            for op in reads.iter() {
                if let ReadOp::Lookup(u) = op {
                    out.push(match reader.lookup(u.clone()).await {
                        Ok((p, eh)) => Ok((eh.0, eh.1, akd::verify::lookup_verify::<TC>(pk.as_bytes(), eh.1, eh.0, u.clone(), p).is_ok())),
                        Err(e) => Err(e.to_string()),
                    });
                }
            }
        }
        let trace = db.ctl.trace.lock().unwrap().clone();
        ReadRun { publish, reads: out, choices, trace }
    })
}

pub struct PollRun {
    pub publishes: Vec<Result<(u64, [u8; 32]), String>>,
    /// per reader task, per request: (epoch signalled by the poller before the request started, outcome)
    pub reads: Vec<Vec<(u64, Result<(u64, [u8; 32], bool), String>)>>,
    /// requests on the same instance after everything has become quiet
    pub after: Vec<(u64, Result<(u64, [u8; 32], bool), String>)>,
    pub signals: Vec<u64>,
    pub choices: Vec<Choice>,
    pub trace: Vec<(usize, String, String)>,
}

async fn do_read<TC: akd::configuration::Configuration>(
    r: &akd::directory::ReadOnlyDirectory<TC, SchedDb, HardCodedAkdVRF>,
    op: &ReadOp,
    pk: &akd::ecvrf::VRFPublicKey,
) -> Result<(u64, [u8; 32], bool), String> {
    match op {
        ReadOp::EpochHash => r.get_epoch_hash().await.map(|e| (e.0, e.1, true)).map_err(|e| e.to_string()),
        ReadOp::Lookup(u) => match r.lookup(u.clone()).await {
            Ok((p, eh)) => Ok((eh.0, eh.1, akd::verify::lookup_verify::<TC>(pk.as_bytes(), eh.1, eh.0, u.clone(), p).is_ok())),
            Err(e) => Err(e.to_string()),
        },
        ReadOp::BatchLookup(us) => match r.batch_lookup(us).await {
            Ok((ps, eh)) => Ok((eh.0, eh.1, ps.len() == us.len() && us.iter().zip(ps.into_iter()).all(|(u, p)| akd::verify::lookup_verify::<TC>(pk.as_bytes(), eh.1, eh.0, u.clone(), p).is_ok()))),
            Err(e) => Err(e.to_string()),
        },
        ReadOp::History(u, params) => match r.key_history(u, *params).await {
            Ok((p, eh)) => Ok((eh.0, eh.1, akd::verify::key_history_verify::<TC>(pk.as_bytes(), eh.1, eh.0, u.clone(), p, akd::verify::history::HistoryVerificationParams::Default { history_params: *params }).is_ok())),
            Err(e) => Err(e.to_string()),
        },
        ReadOp::Audit(_, _) => Err("audit is not part of the poller scenario".into()),
    }
}

/// a writer instance (task 0) publishes `batches` one after another; requests (tasks 1..) are served by a SECOND,
/// read-only instance with its own cached storage manager on which the change poller runs (last task, a daemon).
/// Every request notes the newest epoch the poller had signalled when it started.
fn run_poll<TC: akd::configuration::Configuration>(base: &[DbRecord], batches: &[Batch], reads: &[ReadOp], reader_cache: &str, prefs: &[usize]) -> PollRun {
    run_poll_or_flush::<TC>(base, batches, reads, reader_cache, prefs, false)
}

/// `flusher`: instead of the poller, the last task calls `StorageManager::flush_cache` on the readers' storage
/// manager twice, at moments the schedule chooses (a plain cache flush takes no lock)
fn run_poll_or_flush<TC: akd::configuration::Configuration>(base: &[DbRecord], batches: &[Batch], reads: &[ReadOp], reader_cache: &str, prefs: &[usize], flusher: bool) -> PollRun {
    use akd::ecvrf::VRFKeyStorage;
    use std::sync::atomic::AtomicU64;
    let rt = tokio::runtime::Builder::new_current_thread().enable_all().start_paused(true).build().unwrap();
    rt.block_on(async {
        let db = SchedDb::from_records(base).await;
        let latency = reader_cache.strip_prefix("lat:");
        let wmgr = make_mgr(db.clone(), "none");
        let writer = Directory::<TC, _, _>::new(wmgr, HardCodedAkdVRF {}, AzksParallelismConfig::disabled()).await.unwrap();
        let rmgr = make_mgr(db.clone(), latency.unwrap_or(reader_cache));
        let rmgr2 = rmgr.clone();
        let reader = akd::directory::ReadOnlyDirectory::<TC, _, _>::new(rmgr, HardCodedAkdVRF {}, AzksParallelismConfig::disabled()).await.unwrap();
        let pk = HardCodedAkdVRF {}.get_vrf_public_key().await.unwrap();
        // warm the reader's cache with the current epoch
        for op in reads.iter() {
            let _ = do_read::<TC>(&reader, op, &pk).await;
        }
        db.ctl.split_reads.store(latency.is_some(), Ordering::SeqCst);
        let period = Duration::from_millis(50);
        let daemon = reads.len() + 1;
        let sig = Arc::new(AtomicU64::new(0));
        let signals = Arc::new(std::sync::Mutex::new(Vec::<u64>::new()));
        let (tx, mut rx) = tokio::sync::mpsc::channel::<()>(4);
        db.ctl.enabled.store(true, Ordering::SeqCst);
        // the poller
        let rp = reader.clone();
        let dbf = db.clone();
        let hpoll = tokio::spawn(TID.scope(daemon, async move {
            if flusher {
                let _keep = tx;
                for _ in 0..2 {
                    dbf.pause().await;
                    rmgr2.flush_cache().await;
                }
            } else {
                let _ = rp.poll_for_azks_changes(period, Some(tx)).await;
            }
        }));
        let hpoll = Arc::new(hpoll);
        let hpoll2 = hpoll.clone();
        // forwards each notification: the epoch signalled is the one the poller last read from storage
        let (ctl2, sig2, signals2) = (db.ctl.clone(), sig.clone(), signals.clone());
        let hfwd = tokio::spawn(async move {
            while rx.recv().await.is_some() {
                let tr = ctl2.trace.lock().unwrap();
                let e = tr.iter().rev().find(|(t, k, _)| *t == daemon && k == "get_azks").and_then(|(_, _, d)| d.strip_prefix('e').and_then(|x| x.parse::<u64>().ok())).unwrap_or(0);
                drop(tr);
                sig2.fetch_max(e, Ordering::SeqCst);
                signals2.lock().unwrap().push(e);
            }
        });
        let bs = batches.to_vec();
        let w = writer.clone();
        let hp = tokio::spawn(TID.scope(0, async move {
            let mut out = vec![];
            for b in bs {
                out.push(w.publish(b).await.map(|e| (e.0, e.1)).map_err(|e| e.to_string()));
            }
            out
        }));
        let mut hr = vec![];
        for (i, op) in reads.iter().enumerate() {
            let r = reader.clone();
            let op = op.clone();
            let pk = pk.clone();
            let sig = sig.clone();
            let dbp = db.clone();
            hr.push(tokio::spawn(TID.scope(i + 1, async move {
                let mut out = vec![];
                for _ in 0..3 {
                    // the schedule decides when the request is issued
                    dbp.pause().await;
                    let s0 = sig.load(Ordering::SeqCst);
                    out.push((s0, do_read::<TC>(&r, &op, &pk).await));
                    // not a scheduling point: marks in the trace where the request returned
                    dbp.ctl.trace.lock().unwrap().push((i + 1, "done".to_string(), String::new()));
                }
                out
            })));
        }
        let hp = Arc::new(hp);
        let hr = Arc::new(hr);
        let (hp2, hr2) = (hp.clone(), hr.clone());
        let n = reads.len() + 2;
        let choices = if flusher {
            drive(&db.ctl, n, prefs, &move |i| if i == 0 { hp2.is_finished() } else if i == daemon { hpoll2.is_finished() } else { hr2[i - 1].is_finished() }).await
        } else {
            drop(hpoll2);
            drive_daemon(&db.ctl, n, daemon, period, 8, prefs, &move |i| if i == 0 { hp2.is_finished() } else if i == daemon { false } else { hr2[i - 1].is_finished() }).await
        };
        db.ctl.enabled.store(false, Ordering::SeqCst);
        // release whatever the poller is waiting for and stop it
        for (_, (_, nfy)) in std::mem::take(&mut *db.ctl.waiting.lock().unwrap()) {
            nfy.notify_one();
        }
        tokio::task::yield_now().await;
        hpoll.abort();
        for _ in 0..5 {
            tokio::task::yield_now().await;
        }
        for _ in 0..20 {
            tokio::task::yield_now().await;
        }
        hfwd.abort();
        let publishes = join_or_stuck(Arc::try_unwrap(hp).ok().unwrap(), vec![Err("STUCK: the call never returned".to_string())], |e| vec![Err(format!("panicked: {e}"))]).await;
        let mut out = vec![];
        for h in Arc::try_unwrap(hr).ok().unwrap() {
            out.push(join_or_stuck(h, vec![(0, Err("STUCK: the call never returned".to_string()))], |e| vec![(0, Err(format!("panicked: {e}")))]).await);
        }
        // afterwards, on the same instance
        let mut after = vec![];
        let s0 = sig.load(Ordering::SeqCst);
        after.push((s0, do_read::<TC>(&reader, &ReadOp::EpochHash, &pk).await));
        for op in reads.iter() {
            after.push((s0, do_read::<TC>(&reader, op, &pk).await));
        }
        let trace = db.ctl.trace.lock().unwrap().clone();
        let signals = signals.lock().unwrap().clone();
        PollRun { publishes, reads: out, after, signals, choices, trace }
    })
}

/// the C13 oracle for one run of the poller scenario
fn judge_poll(r: &PollRun, roots: &[[u8; 32]], base_epoch: u64, reads: &[ReadOp], daemon: usize) -> Vec<(String, String)> {
    let mut out = vec![];
    let mut published: Vec<(u64, [u8; 32])> = roots.iter().enumerate().map(|(e, h)| (e as u64, *h)).collect();
    for p in r.publishes.iter().flatten() {
        published.push(*p);
    }
    let mut all: Vec<(String, &(u64, Result<(u64, [u8; 32], bool), String>))> = vec![];
    for (k, v) in r.reads.iter().enumerate() {
        for x in v.iter() {
            all.push((format!("{:?} (request of task {})", reads[k], k + 1), x));
        }
    }
    for x in r.after.iter() {
        all.push(("a request AFTER the run, on the same instance".to_string(), x));
    }
    for (which, (_, rd)) in all.iter() {
        if matches!(rd, Err(e) if e.starts_with("STUCK")) {
            out.push(("poll-call-never-returned".to_string(), format!("schedule {}: {} never returned (deadlock or lost wake-up)", show_sched(&r.choices), which)));
        }
    }
    if r.publishes.iter().any(|p| matches!(p, Err(e) if e.starts_with("STUCK"))) {
        out.push(("poll-call-never-returned".to_string(), format!("schedule {}: the publish never returned (deadlock or lost wake-up)", show_sched(&r.choices))));
    }
    for (which, (s0, rd)) in all {
        if let Ok((e, h, verified)) = rd {
            let bad = if !published.contains(&(*e, *h)) {
                Some(("unpublished-epoch-hash", format!("answered with epoch {} and root {}, never published for that epoch", e, hex::encode(h))))
            } else if !verified {
                Some(("answer-does-not-verify", format!("the proof returned with epoch {} does not verify against the returned root hash", e)))
            } else if *e < base_epoch {
                Some(("epoch-went-back", format!("answered from epoch {} although {} was already published", e, base_epoch)))
            } else if *e < *s0 {
                // C13, last clause: once change polling has signalled a new epoch, later requests on that
                // instance are answered from an epoch at least that new
                Some(("older-than-signalled", format!("the request started after the poller had signalled epoch {} and was answered from epoch {}", s0, e)))
            } else {
                None
            };
            if let Some((tag, what)) = bad {
                let calls: Vec<String> = r.trace.iter().map(|(t, k, d)| if d.is_empty() { format!("{t}:{k}") } else { format!("{t}:{k}:{d}") }).collect();
                out.push((format!("poll-{tag}"), format!("schedule {} (poller = task {}), {}: {}; signals {:?}; storage calls in order: {}", show_sched(&r.choices), daemon, which, what, r.signals, calls.join(" "))));
            }
        }
    }
    out
}

fn parse_read_op(t: &[&str]) -> Option<ReadOp> {
    match t {
        ["epochhash"] => Some(ReadOp::EpochHash),
        ["lookup", u] => Some(ReadOp::Lookup(AkdLabel(parse_hex(u)?))),
        ["batchlookup", us @ ..] if !us.is_empty() => Some(ReadOp::BatchLookup(us.iter().map(|u| parse_hex(u).map(AkdLabel)).collect::<Option<Vec<_>>>()?)),
        ["history", u, p] => Some(ReadOp::History(AkdLabel(parse_hex(u)?), crate::exec_l1::parse_params(p)?)),
        ["audit", s, e] => Some(ReadOp::Audit(s.parse().ok()?, e.parse().ok()?)),
        _ => None,
    }
}

pub fn step(ex: &mut Exec, st: &mut L1State, op: &str, toks: &[&str]) -> Option<String> {
    match op {
        "sch.read" if toks.len() >= 4 => {
            // sch.read <max preemptions> <reader cache> <read op> [| <read op>]* || <publish batch>
            let fx = st.fx.as_ref()?;
            let bound: usize = toks[1].parse().ok()?;
            let rcache = toks[2].to_string();
            let sep = toks.iter().position(|t| *t == "||")?;
            let mut reads = vec![];
            for part in toks[3..sep].split(|t| *t == "|") {
                reads.push(parse_read_op(part)?);
            }
            let mut batch: Batch = vec![];
            let mut i = sep + 1;
            while i + 1 < toks.len() {
                batch.push((AkdLabel(parse_hex(toks[i])?), AkdValue(parse_hex(toks[i + 1])?)));
                i += 2;
            }
            let cfg = fx.cfg.clone();
            let base = fx.records.clone();
            let base_epoch = st.fx_roots.len() as u64 - 1;
            let roots = st.fx_roots.clone();
            let max_runs = if st.thorough { 6_000 } else { 1_500 };
            let (runs, violations) = with_cfg!(cfg.as_str(), TC => {
                let mut stack: Vec<Vec<usize>> = vec![vec![]];
                let mut seen = std::collections::HashSet::new();
                let (mut runs, mut violations) = (0usize, 0usize);
                while let Some(prefs) = stack.pop() {
                    if runs >= max_runs {
                        break;
                    }
                    let r = run_reads::<TC>(&base, &batch, &reads, &rcache, &roots, &prefs);
                    let chosen: Vec<usize> = r.choices.iter().map(|c| c.chosen).collect();
                    if !seen.insert(chosen.clone()) {
                        continue;
                    }
                    runs += 1;
                    let enabled: Vec<Vec<usize>> = r.choices.iter().map(|c| c.enabled.clone()).collect();
                    for s in prefs.len()..chosen.len() {
                        for a in &enabled[s] {
                            if *a != chosen[s] {
                                let mut p = chosen[..s].to_vec();
                                p.push(*a);
                                let mut en = enabled[..s].to_vec();
                                en.push(enabled[s].clone());
                                if preemptions(&p, &en) <= bound {
                                    stack.push(p);
                                }
                            }
                        }
                    }
                    // oracle (C13): error, or a pair the directory really published together with a proof that verifies
                    let mut published: Vec<(u64, [u8; 32])> = roots.iter().enumerate().map(|(e, h)| (e as u64, *h)).collect();
                    if let Ok((e, h)) = &r.publish {
                        published.push((*e, *h));
                    }
                    let stuck = r.reads.iter().any(|rd| matches!(rd, Err(e) if e.starts_with("STUCK"))) || matches!(&r.publish, Err(e) if e.starts_with("STUCK"));
                    if stuck {
                        violations += 1;
                        if violations <= 3 {
                            ex.fail_tag("C13", "call-never-returned", format!("schedule {}: a request or the publish never returned (deadlock or lost wake-up)", show_sched(&r.choices)));
                        }
                        break; // every further stuck schedule would cost the full waiting time
                    }
                    for (k, rd) in r.reads.iter().enumerate() {
                        if let Ok((e, h, verified)) = rd {
                            let is_audit = k < reads.len() && matches!(reads[k], ReadOp::Audit(_, _));
                            let bad = if !is_audit && !published.contains(&(*e, *h)) {
                                Some(("unpublished-epoch-hash", format!("answered with epoch {} and root {}, never published for that epoch", e, hex::encode(h))))
                            } else if !verified {
                                Some(("answer-does-not-verify", format!("the proof returned with epoch {} does not verify against the returned root hash", e)))
                            } else if *e < base_epoch {
                                Some(("epoch-went-back", format!("answered from epoch {} although {} was already published", e, base_epoch)))
                            } else {
                                None
                            };
                            if let Some((tag, what)) = bad {
                                violations += 1;
                                if violations <= 3 {
                                    let which = if k < reads.len() { format!("{:?} interleaved with a publish", reads[k]) } else { "a request AFTER the interleaved run, on the same instance".to_string() };
                                    let tag2 = if rcache.starts_with("same:") { format!("cachefill-{tag}") } else { tag.to_string() };
                                    let calls: Vec<String> = r.trace.iter().map(|(t, k, d)| if d.is_empty() { format!("{t}:{k}") } else { format!("{t}:{k}:{d}") }).collect();
                                    ex.fail_tag("C13", &tag2, format!("schedule {} ({} preemptions), {}: {}; storage calls in order: {}", show_sched(&r.choices), preemptions(&chosen, &enabled), which, what, calls.join(" ")));
                                }
                            }
                        }
                    }
                }
                (runs, violations)
            });
            ex.stats.bump(op, &format!("readers{}-bound{}-runs{}", reads.len(), bound, (runs / 100) * 100));
            Some(format!("violations={violations}"))
        }
        "o.sch.poll.replay" | "o.sch.flush.replay" if toks.len() >= 4 => {
            let flusher = op == "o.sch.flush.replay";
            // o.sch.poll.replay <schedule, task ids separated by ','> <reader cache> <read ops> || <batches>: ONE schedule, shown in full
            let fx = st.fx.as_ref()?;
            let prefs: Vec<usize> = toks[1].split(',').filter(|t| !t.is_empty()).map(|t| t.parse().ok()).collect::<Option<Vec<_>>>()?;
            let rcache = toks[2].to_string();
            let sep = toks.iter().position(|t| *t == "||")?;
            let mut reads = vec![];
            for part in toks[3..sep].split(|t| *t == "|") {
                reads.push(parse_read_op(part)?);
            }
            let mut batches: Vec<Batch> = vec![];
            for part in toks[sep + 1..].split(|t| *t == "||") {
                let mut b: Batch = vec![];
                let mut i = 0;
                while i + 1 < part.len() {
                    b.push((AkdLabel(parse_hex(part[i])?), AkdValue(parse_hex(part[i + 1])?)));
                    i += 2;
                }
                batches.push(b);
            }
            let cfg = fx.cfg.clone();
            let base = fx.records.clone();
            let r = with_cfg!(cfg.as_str(), TC => run_poll_or_flush::<TC>(&base, &batches, &reads, &rcache, &prefs, flusher));
            let base_epoch = st.fx_roots.len() as u64 - 1;
            for (tag, what) in judge_poll(&r, &st.fx_roots, base_epoch, &reads, reads.len() + 1) {
                ex.fail_tag("C13", &if flusher { tag.replace("poll-", "flush-") } else { tag }, what);
            }
            let calls: Vec<String> = r.trace.iter().map(|(t, k, d)| if d.is_empty() { format!("{t}:{k}") } else { format!("{t}:{k}:{d}") }).collect();
            let show = |x: &(u64, Result<(u64, [u8; 32], bool), String>)| match &x.1 {
                Ok((e, _, v)) => format!("sig{}->e{}{}", x.0, e, if *v { "" } else { "!" }),
                Err(_) => format!("sig{}->err", x.0),
            };
            if std::env::var("VERIF_SHOW_SCHEDULE").is_ok() {
            eprintln!("schedule {} publishes {:?} reads {:?} after {:?} signals {:?}\n  calls {}", show_sched(&r.choices), r.publishes.iter().map(|p| p.as_ref().map(|x| x.0).map_err(|_| ())).collect::<Vec<_>>(),
                r.reads.iter().map(|v| v.iter().map(show).collect::<Vec<_>>()).collect::<Vec<_>>(), r.after.iter().map(show).collect::<Vec<_>>(), r.signals, calls.join(" "));
            }
            Some("-".into())
        }
        "sch.poll" | "sch.flush" if toks.len() >= 4 => {
            let flusher = op == "sch.flush";
            // sch.poll <max preemptions> <reader cache> <read op> [| <read op>]* || <batch> [|| <batch>]
            let fx = st.fx.as_ref()?;
            let bound: usize = toks[1].parse().ok()?;
            let rcache = toks[2].to_string();
            let sep = toks.iter().position(|t| *t == "||")?;
            let mut reads = vec![];
            for part in toks[3..sep].split(|t| *t == "|") {
                reads.push(parse_read_op(part)?);
            }
            let mut batches: Vec<Batch> = vec![];
            for part in toks[sep + 1..].split(|t| *t == "||") {
                let mut b: Batch = vec![];
                let mut i = 0;
                while i + 1 < part.len() {
                    b.push((AkdLabel(parse_hex(part[i])?), AkdValue(parse_hex(part[i + 1])?)));
                    i += 2;
                }
                batches.push(b);
            }
            let cfg = fx.cfg.clone();
            let base = fx.records.clone();
            let base_epoch = st.fx_roots.len() as u64 - 1;
            let roots = st.fx_roots.clone();
            let max_runs = if st.thorough { 5_000 } else if bound >= 3 { 2_500 } else if flusher { 1_200 } else { 400 };
            let daemon = reads.len() + 1;
            let (runs, violations, signalled, traces) = with_cfg!(cfg.as_str(), TC => {
                let mut stack: Vec<Vec<usize>> = vec![vec![]];
                let mut seen = std::collections::HashSet::new();
                let (mut runs, mut violations, mut signalled) = (0usize, 0usize, 0usize);
                let mut traces: Vec<String> = vec![];
                while let Some(prefs) = stack.pop() {
                    if runs >= max_runs {
                        break;
                    }
                    let r = run_poll_or_flush::<TC>(&base, &batches, &reads, &rcache, &prefs, flusher);
                    let chosen: Vec<usize> = r.choices.iter().map(|c| c.chosen).collect();
                    if !seen.insert(chosen.clone()) {
                        continue;
                    }
                    runs += 1;
                    if !r.signals.is_empty() {
                        signalled += 1;
                    }
                    let enabled: Vec<Vec<usize>> = r.choices.iter().map(|c| c.enabled.clone()).collect();
                    for s in prefs.len()..chosen.len() {
                        for a in &enabled[s] {
                            if *a != chosen[s] {
                                let mut p = chosen[..s].to_vec();
                                p.push(*a);
                                let mut en = enabled[..s].to_vec();
                                en.push(enabled[s].clone());
                                let np = if flusher { preemptions(&p, &en) } else { preemptions_daemon(&p, &en, daemon) };
                                if np <= bound {
                                    stack.push(p);
                                }
                            }
                        }
                    }
                    // the run, for validation by the model `Poll.lean` (every request of the scenario is guarded)
                    if !flusher && traces.len() < 300 && (runs % 7 == 1 || runs < 40) {
                        let ev: Vec<String> = r.trace.iter().map(|(t, k, d)| format!("{t}:{k}:{d}")).collect();
                        let ans: Vec<String> = r.reads.iter().map(|v| v.iter().map(|(_, x)| match x { Ok((e, _, _)) => e.to_string(), Err(_) => "x".to_string() }).collect::<Vec<_>>().join(",")).collect();
                        let after = match r.after.first() { Some((_, Ok((e, _, _)))) => e.to_string(), _ => "-".to_string() };
                        traces.push(format!("poll.validate {} {} {} {} {} -> ok {} {}", if rcache.starts_with("lat:") { 1 } else { 0 }, reads.len(), base_epoch, ev.join(","), ans.join(";"), r.signals.len(), after));
                    }
                    let mut stuck = false;
                    for (tag, what) in judge_poll(&r, &roots, base_epoch, &reads, daemon) {
                        violations += 1;
                        stuck |= tag.ends_with("call-never-returned");
                        if violations <= 3 {
                            ex.fail_tag("C13", &if flusher { tag.replace("poll-", "flush-") } else { tag }, if flusher { what.replace("poller = task", "flusher = task") } else { what });
                        }
                    }
                    if stuck {
                        break;
                    }
                }
                (runs, violations, signalled, traces)
            });
            st.sched_traces.extend(traces);
            ex.stats.bump(op, &format!("readers{}-bound{}-runs{}-signalled{}", reads.len(), bound, (runs / 100) * 100, if signalled * 2 > runs { "most" } else if signalled > 0 { "some" } else { "none" }));
            Some(format!("violations={violations}"))
        }
        "sch.enum" if toks.len() >= 3 => {
            // sch.enum <max preemptions> <batch> | <batch> [| <batch>]   (batch = pairs of hex label, hex value)
            let fx = st.fx.as_ref()?;
            let bound: usize = toks[1].parse().ok()?;
            let mut batches: Vec<Batch> = vec![vec![]];
            let mut i = 2;
            // `fault:<task>:<n>`: the n-th single-record read (not of the epoch record) of that task's publish fails once
            let mut fault: Option<(usize, usize)> = None;
            if let Some(f) = toks[2].strip_prefix("fault:") {
                let (a, b) = f.split_once(':')?;
                fault = Some((a.parse().ok()?, b.parse().ok()?));
                i = 3;
            }
            while i < toks.len() {
                if toks[i] == "|" {
                    batches.push(vec![]);
                    i += 1;
                    continue;
                }
                if i + 1 >= toks.len() {
                    return None;
                }
                batches.last_mut().unwrap().push((AkdLabel(parse_hex(toks[i])?), AkdValue(parse_hex(toks[i + 1])?)));
                i += 2;
            }
            let cfg = fx.cfg.clone();
            let cache = fx.cache.clone();
            let base = fx.records.clone();
            let base_epoch = st.fx_roots.len() as u64 - 1;
            let max_runs = if st.thorough { 6_000 } else { 1_500 };
            let (runs, violations, traces) = with_cfg!(cfg.as_str(), TC => {
                let mut stack: Vec<Vec<usize>> = vec![vec![]];
                let mut seen = std::collections::HashSet::new();
                let mut runs = 0usize;
                let mut violations = 0usize;
                let mut traces: Vec<String> = vec![];
                while let Some(prefs) = stack.pop() {
                    if runs >= max_runs {
                        break;
                    }
                    let r = run_once::<TC>(&base, &batches, &cache, &prefs, fault);
                    let chosen: Vec<usize> = r.choices.iter().map(|c| c.chosen).collect();
                    if !seen.insert(chosen.clone()) {
                        continue;
                    }
                    runs += 1;
                    let enabled: Vec<Vec<usize>> = r.choices.iter().map(|c| c.enabled.clone()).collect();
                    // children: deviate at every step at or after the forced prefix
                    for s in prefs.len()..chosen.len() {
                        for a in &enabled[s] {
                            if *a != chosen[s] {
                                let mut p = chosen[..s].to_vec();
                                p.push(*a);
                                let mut en = enabled[..s].to_vec();
                                en.push(enabled[s].clone());
                                if preemptions(&p, &en) <= bound {
                                    stack.push(p);
                                }
                            }
                        }
                    }
                    // the trace, for validation by the model (phases per task, epoch stamps)
                    if traces.len() < 400 && fault.is_none() {
                        let ev: Vec<String> = r.trace.iter().map(|(t, k, d)| format!("{t}:{k}:{d}")).collect();
                        // the commits as the CALLERS saw them: (task, epoch returned), in epoch order
                        let mut oc: Vec<(u64, usize)> = r.outcomes.iter().enumerate().filter_map(|(i, o)| match o { Ok((e, _)) if *e > base_epoch => Some((*e, i)), _ => None }).collect();
                        oc.sort();
                        let oc: Vec<String> = oc.iter().map(|(e, i)| format!("{i}:{e}")).collect();
                        traces.push(format!("sch.validate {} {} {} -> {}", batches.len(), base_epoch, ev.join(","), oc.join(",")));
                    }
                    if fault.is_some() {
                        // non-vacuity of the fault scenarios: how often the fault was reached, and what the call returned
                        let failed = r.outcomes.iter().filter(|o| o.is_err()).count();
                        ex.stats.bump("sch.enum.fault", if !r.fault_fired { "fault-not-reached" } else if failed > 0 { "fired-call-failed" } else { "fired-call-succeeded" });
                    }
                    let verdict = judge::<TC>(&base, base_epoch, &batches, &r);
                    let stuck = matches!(&verdict, Some((t, _)) if t == "call-never-returned");
                    if let Some((tag, what)) = verdict {
                        violations += 1;
                        if violations <= 3 {
                            ex.fail_tag("C12", &tag, format!("schedule {} ({} preemptions) of {} concurrent publishes: {}; outcomes {:?}", show_sched(&r.choices), preemptions(&chosen, &enabled), batches.len(), what, r.outcomes.iter().map(|o| o.as_ref().map(|x| x.0).map_err(|e| e.chars().take(40).collect::<String>())).collect::<Vec<_>>()));
                        }
                    }
                    if stuck {
                        break;
                    }
                }
                (runs, violations, traces)
            });
            st.sched_traces.extend(traces);
            ex.stats.bump(op, &format!("tasks{}-bound{}-runs{}{}", batches.len(), bound, (runs / 100) * 100, if fault.is_some() { "-fault" } else { "" }));
            Some(format!("violations={violations}"))
        }
        _ => crate::exec_l4::step(ex, st, op, toks),
    }
}
