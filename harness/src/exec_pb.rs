//! Protobuf ops (C19): `pb.dec <type> <hex>` parses bytes with the generated code, converts with
//! `TryFrom`, and re-encodes the converted value canonically; `o.pb.verify.*` are oracle-only ops.
use crate::exec::Exec;
use crate::exec_l1::L1State;
use crate::util::*;
use akd::proto::specs::types as pb;
use akd::verify::history::HistoryVerificationParams;
use akd::{AkdLabel, HistoryParams};
use protobuf::Message;
use std::convert::TryFrom;

macro_rules! dec {
    ($pbty:ty, $ty:ty, $bytes:expr) => {{
        match <$pbty>::parse_from_bytes($bytes) {
            Err(_) => "err-parse".to_string(),
            Ok(m) => match <$ty>::try_from(&m) {
                Err(_) => "err-conv".to_string(),
                Ok(v) => {
                    let back = <$pbty>::from(&v);
                    match back.write_to_bytes() {
                        Ok(b) => format!("ok {}", hex_or_dash(&b)),
                        Err(_) => "err-write".to_string(),
                    }
                }
            },
        }
    }};
}

pub fn decode_roundtrip(ty: &str, bytes: &[u8]) -> Option<String> {
    Some(match ty {
        "label" => dec!(pb::NodeLabel, akd::NodeLabel, bytes),
        "element" => dec!(pb::AzksElement, akd::AzksElement, bytes),
        "sibling" => dec!(pb::SiblingProof, akd::SiblingProof, bytes),
        "membership" => dec!(pb::MembershipProof, akd::MembershipProof, bytes),
        "nonmembership" => dec!(pb::NonMembershipProof, akd::NonMembershipProof, bytes),
        "lookup" => dec!(pb::LookupProof, akd::LookupProof, bytes),
        "update" => dec!(pb::UpdateProof, akd::UpdateProof, bytes),
        "history" => dec!(pb::HistoryProof, akd::HistoryProof, bytes),
        "single" => dec!(pb::SingleAppendOnlyProof, akd::SingleAppendOnlyProof, bytes),
        "appendonly" => dec!(pb::AppendOnlyProof, akd::AppendOnlyProof, bytes),
        _ => return None,
    })
}

pub fn step(ex: &mut Exec, st: &mut L1State, op: &str, toks: &[&str]) -> Option<String> {
    match op {
        "pb.dec" if toks.len() == 3 => {
            let bytes = parse_hex(toks[2])?;
            let r = std::panic::catch_unwind(|| decode_roundtrip(toks[1], &bytes));
            match r {
                Ok(Some(s)) => {
                    ex.stats.bump(op, &format!("{}:{}", toks[1], s.split(' ').next().unwrap_or("")));
                    Some(s)
                }
                Ok(None) => None,
                Err(_) => {
                    ex.fail_tag("C19", "decode-panic", format!("decoding {} bytes as {} panicked: {}", bytes.len(), toks[1], toks[2]));
                    ex.stats.bump(op, "panic");
                    Some("panic".into())
                }
            }
        }
        // oracle-only: decode (possibly corrupted) bytes and verify against the current epoch hash;
        // if it still verifies the result must be the honest one
        "o.pb.verify.lookup" if toks.len() == 3 => {
            let inst = st.inst.as_ref()?;
            let u = AkdLabel(parse_hex(toks[1])?);
            let bytes = parse_hex(toks[2])?;
            let (honest, ep, root) = st.rt.block_on(inst.lookup(&u))?;
            let truth = inst.verify_lookup(root, ep, &u, honest).ok();
            let r = std::panic::catch_unwind(std::panic::AssertUnwindSafe(|| {
                let m = pb::LookupProof::parse_from_bytes(&bytes).ok()?;
                let p = akd::LookupProof::try_from(&m).ok()?;
                Some(inst.verify_lookup(root, ep, &u, p))
            }));
            Some(match r {
                Err(_) => {
                    ex.fail_tag("C19", "decode-panic", format!("lookup proof bytes made decode/verify panic: {}", toks[2]));
                    "panic".into()
                }
                Ok(None) => {
                    ex.stats.bump(op, "undecodable");
                    "undecodable".into()
                }
                Ok(Some(Err(_))) => {
                    ex.stats.bump(op, "rej");
                    "rej".into()
                }
                Ok(Some(Ok(res))) => {
                    if Some(&res) != truth.as_ref() {
                        ex.fail_tag("C19", "corrupted-encoding-verifies-differently", format!("a corrupted lookup proof encoding verifies to a different result; bytes {}", toks[2]));
                    }
                    ex.stats.bump(op, "acc");
                    "acc".into()
                }
            })
        }
        "o.pb.verify.history" if toks.len() == 3 => {
            let inst = st.inst.as_ref()?;
            let u = AkdLabel(parse_hex(toks[1])?);
            let bytes = parse_hex(toks[2])?;
            let (honest, ep, root) = st.rt.block_on(inst.history(&u, HistoryParams::Complete))?;
            let params = HistoryVerificationParams::Default { history_params: HistoryParams::Complete };
            let truth = inst.verify_history(root, ep, &u, honest, params).ok();
            let r = std::panic::catch_unwind(std::panic::AssertUnwindSafe(|| {
                let m = pb::HistoryProof::parse_from_bytes(&bytes).ok()?;
                let p = akd::HistoryProof::try_from(&m).ok()?;
                Some(inst.verify_history(root, ep, &u, p, params))
            }));
            Some(match r {
                Err(_) => {
                    ex.fail_tag("C19", "decode-panic", format!("history proof bytes made decode/verify panic: {}", toks[2]));
                    "panic".into()
                }
                Ok(None) => "undecodable".into(),
                Ok(Some(Err(_))) => "rej".into(),
                Ok(Some(Ok(res))) => {
                    if Some(&res) != truth.as_ref() {
                        ex.fail_tag("C19", "corrupted-encoding-verifies-differently", format!("a corrupted history proof encoding verifies to a different result; bytes {}", toks[2]));
                    }
                    "acc".into()
                }
            })
        }
        "o.pb.verify.audit" if toks.len() == 4 => {
            let inst = st.inst.as_ref()?;
            let (s, e): (u64, u64) = (toks[1].parse().ok()?, toks[2].parse().ok()?);
            let bytes = parse_hex(toks[3])?;
            let hashes: Vec<[u8; 32]> = (s..=e).filter_map(|i| inst.roots.get(&i).cloned()).collect();
            let r = std::panic::catch_unwind(std::panic::AssertUnwindSafe(|| {
                let m = pb::AppendOnlyProof::parse_from_bytes(&bytes).ok()?;
                let p = akd::AppendOnlyProof::try_from(&m).ok()?;
                Some(st.rt.block_on(inst.verify_audit(hashes, p)))
            }));
            Some(match r {
                Err(_) => {
                    ex.fail_tag("C19", "decode-panic", format!("audit proof bytes made decode/verify panic: {}", toks[3]));
                    "panic".into()
                }
                Ok(None) => "undecodable".into(),
                Ok(Some(Err(_))) => "rej".into(),
                // an accepted audit proof has no result value; acceptance against honest hashes is sound by C09
                Ok(Some(Ok(()))) => "acc".into(),
            })
        }
        // oracle-only: the HONEST proof -> message -> bytes -> message -> proof is the identical value, and
        // verifying the decoded proof gives the same result as verifying the original
        "o.pb.rt.lookup" | "o.pb.rt.history" if toks.len() == 2 => {
            let inst = st.inst.as_ref()?;
            let u = AkdLabel(parse_hex(toks[1])?);
            if op == "o.pb.rt.lookup" {
                let Some((p, ep, root)) = st.rt.block_on(inst.lookup(&u)) else { return Some("none".into()) };
                let r = std::panic::catch_unwind(std::panic::AssertUnwindSafe(|| {
                    let b = pb::LookupProof::from(&p).write_to_bytes().ok()?;
                    let m = pb::LookupProof::parse_from_bytes(&b).ok()?;
                    akd::LookupProof::try_from(&m).ok()
                }));
                Some(match r {
                    Err(_) => {
                        ex.fail_tag("C19", "decode-panic", format!("{:?}: encoding/decoding the honest lookup proof panicked", toks));
                        "panic".into()
                    }
                    Ok(None) => {
                        ex.fail_tag("C19", "honest-proof-undecodable", format!("{:?}: the honest lookup proof of epoch {ep} does not decode from its own encoding", toks));
                        "undecodable".into()
                    }
                    Ok(Some(q)) => {
                        if q != p {
                            ex.fail_tag("C19", "roundtrip-differs", format!("{:?}: the honest lookup proof of epoch {ep} decodes to a DIFFERENT value than was encoded", toks));
                        }
                        let a = inst.verify_lookup(root, ep, &u, p).ok();
                        let b = inst.verify_lookup(root, ep, &u, q).ok();
                        if a != b {
                            ex.fail_tag("C19", "decoded-verifies-differently", format!("{:?}: the original lookup proof verifies to {:?}, the decoded one to {:?}", toks, a.as_ref().map(crate::exec_l1::show_result), b.as_ref().map(crate::exec_l1::show_result)));
                        }
                        ex.stats.bump(op, "ok");
                        "ok".into()
                    }
                })
            } else {
                let Some((p, ep, root)) = st.rt.block_on(inst.history(&u, HistoryParams::Complete)) else { return Some("none".into()) };
                let params = HistoryVerificationParams::Default { history_params: HistoryParams::Complete };
                let r = std::panic::catch_unwind(std::panic::AssertUnwindSafe(|| {
                    let b = pb::HistoryProof::from(&p).write_to_bytes().ok()?;
                    let m = pb::HistoryProof::parse_from_bytes(&b).ok()?;
                    akd::HistoryProof::try_from(&m).ok()
                }));
                Some(match r {
                    Err(_) => {
                        ex.fail_tag("C19", "decode-panic", format!("{:?}: encoding/decoding the honest history proof panicked", toks));
                        "panic".into()
                    }
                    Ok(None) => {
                        ex.fail_tag("C19", "honest-proof-undecodable", format!("{:?}: the honest history proof of epoch {ep} does not decode from its own encoding", toks));
                        "undecodable".into()
                    }
                    Ok(Some(q)) => {
                        if q != p {
                            ex.fail_tag("C19", "roundtrip-differs", format!("{:?}: the honest history proof of epoch {ep} decodes to a DIFFERENT value than was encoded", toks));
                        }
                        // ... in both verification modes (a history with tombstoned entries verifies only when missing
                        // values are allowed)
                        let allow = HistoryVerificationParams::AllowMissingValues { history_params: HistoryParams::Complete };
                        let a2 = inst.verify_history(root, ep, &u, p.clone(), allow).ok();
                        let b2 = inst.verify_history(root, ep, &u, q.clone(), allow).ok();
                        if a2 != b2 {
                            ex.fail_tag("C19", "decoded-verifies-differently", format!("{:?}: with missing values allowed the original history proof verifies to {} entries, the decoded one to {}", toks, a2.map(|v| v.len() as i64).unwrap_or(-1), b2.map(|v| v.len() as i64).unwrap_or(-1)));
                        }
                        let a = inst.verify_history(root, ep, &u, p, params).ok();
                        let b = inst.verify_history(root, ep, &u, q, params).ok();
                        if a != b {
                            ex.fail_tag("C19", "decoded-verifies-differently", format!("{:?}: the original history proof verifies to {} entries, the decoded one to {}", toks, a.map(|v| v.len() as i64).unwrap_or(-1), b.map(|v| v.len() as i64).unwrap_or(-1)));
                        }
                        ex.stats.bump(op, "ok");
                        "ok".into()
                    }
                })
            }
        }
        "o.pb.rt.audit" if toks.len() == 3 => {
            let inst = st.inst.as_ref()?;
            let (s, e): (u64, u64) = (toks[1].parse().ok()?, toks[2].parse().ok()?);
            let Some(p) = st.rt.block_on(inst.audit(s, e)) else { return Some("none".into()) };
            let hashes: Vec<[u8; 32]> = (s..=e).filter_map(|i| inst.roots.get(&i).cloned()).collect();
            let r = std::panic::catch_unwind(std::panic::AssertUnwindSafe(|| {
                let b = pb::AppendOnlyProof::from(&p).write_to_bytes().ok()?;
                let m = pb::AppendOnlyProof::parse_from_bytes(&b).ok()?;
                akd::AppendOnlyProof::try_from(&m).ok()
            }));
            Some(match r {
                Err(_) => {
                    ex.fail_tag("C19", "decode-panic", format!("{:?}: encoding/decoding the honest audit proof panicked", toks));
                    "panic".into()
                }
                Ok(None) => {
                    ex.fail_tag("C19", "honest-proof-undecodable", format!("{:?}: the honest audit proof does not decode from its own encoding", toks));
                    "undecodable".into()
                }
                Ok(Some(q)) => {
                    if q != p {
                        ex.fail_tag("C19", "roundtrip-differs", format!("{:?}: the honest audit proof decodes to a DIFFERENT value than was encoded", toks));
                    }
                    let a = st.rt.block_on(inst.verify_audit(hashes.clone(), p)).is_ok();
                    let b = st.rt.block_on(inst.verify_audit(hashes, q)).is_ok();
                    if a != b {
                        ex.fail_tag("C19", "decoded-verifies-differently", format!("{:?}: the original audit proof verifies: {a}, the decoded one: {b}", toks));
                    }
                    ex.stats.bump(op, "ok");
                    "ok".into()
                }
            })
        }
        // oracle-only: the audit blob of a real transition (local_auditing.rs): AuditBlob::new -> decode gives back the epoch, the
        // two hashes and the identical proof; the name parses back to the same name
        "o.pb.blob" if toks.len() == 2 => {
            use akd::local_auditing::{AuditBlob, AuditBlobName};
            let inst = st.inst.as_ref()?;
            let e: u64 = toks[1].parse().ok()?;
            if e == 0 {
                return Some("none".into());
            }
            let (Some(prev), Some(cur)) = (inst.roots.get(&(e - 1)).cloned(), inst.roots.get(&e).cloned()) else { return Some("none".into()) };
            let Some(ap) = st.rt.block_on(inst.audit(e - 1, e)) else { return Some("none".into()) };
            let Some(single) = ap.proofs.first().cloned() else { return Some("none".into()) };
            let r = std::panic::catch_unwind(std::panic::AssertUnwindSafe(|| {
                let blob = AuditBlob::new(prev, cur, e - 1, &single).ok()?;
                let name = blob.name.to_string();
                let back = AuditBlobName::try_from(name.as_str()).ok()?;
                let dec = blob.decode().ok()?;
                Some((back.to_string() == name, dec))
            }));
            Some(match r {
                Err(_) => {
                    ex.fail_tag("C19", "decode-panic", format!("{:?}: building / decoding the audit blob panicked", toks));
                    "panic".into()
                }
                Ok(None) => {
                    ex.fail_tag("C19", "honest-proof-undecodable", format!("{:?}: the audit blob of a real transition cannot be built or does not decode", toks));
                    "undecodable".into()
                }
                Ok(Some((name_ok, (de, dp, dc, dproof)))) => {
                    if !name_ok || de != e - 1 || dp != prev || dc != cur || dproof != single {
                        ex.fail_tag("C19", "roundtrip-differs", format!("{:?}: the audit blob decodes to something else than was put in (name ok: {name_ok}, epoch {de})", toks));
                    }
                    ex.stats.bump(op, "ok");
                    "ok".into()
                }
            })
        }
        // blob names of published audit proofs (local_auditing.rs)
        "pb.blobname" if toks.len() == 2 => {
            use akd::local_auditing::AuditBlobName;
            Some(match AuditBlobName::try_from(toks[1]) {
                Ok(n) => format!("ok {}", n.to_string()),
                Err(_) => "err".into(),
            })
        }
        _ => crate::exec_sched::step(ex, st, op, toks),
    }
}
